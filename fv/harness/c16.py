"""
C16 — Pattern dispatch picks a most specific rule, deterministically.

extract     live leaf classes (issubclass matrix) -> lean/FunsorVerif/Gen/C16Table.lean
            live registries (every KeyedRegistry reachable from funsor's modules: signatures in
            registration order, multipledispatch's ordering, its ambiguities) -> Gen/C16Reg.lean
correspond  (1) deep_issubclass on ALL pairs of a pool of type expressions (every type occurring in
                a registered signature, every argument type observed in a small workload, synthesised
                ones) vs the Lean three-valued model `subE` and the Bool relation `sub`;
                reflexivity and transitivity (all triples) on the REAL relation;
            (2) values: deep_type / deep_isinstance on fabricated instances vs the model's `deepType`
                and vs an independent set-theoretic membership oracle (soundness of matching);
            (3) dispatch: for every registered signature synthesised argument tuples (+ observed ones)
                through the real `KeyedRegistry.dispatch` (partial_call, with its cache) vs the model's
                first-match; the chosen rule must be a most specific matching one (python oracle on
                the real issubclass); repeated after clearing caches, and in fresh subprocesses with
                shuffled first-use order;
            (4) dedicated stream for the open finding KF-tuple-subclass.
"""
import functools
import importlib
import itertools
import json
import os
import pkgutil
import subprocess
import sys
import typing
import warnings
from collections import OrderedDict

import numpy as np
import typing_extensions

from ..common import LEAN, REPO, sx, parse_sx
from .. import futil  # noqa: F401  (imports funsor from REPO)
from ..futil import funsor

import funsor.typing as ftyping
from funsor.typing import (GenericTypeMeta, _RuntimeSubclassCheckMeta, deep_isinstance,
                           deep_issubclass, deep_type, get_args, get_origin, typing_wrap)
from funsor.registry import KeyedRegistry, PartialDispatcher
from multipledispatch.variadic import isvariadic
from multipledispatch import conflict as md_conflict
from multipledispatch.dispatcher import variadic_signature_matches

from funsor.terms import Funsor as _Funsor          # noqa: E402
from funsor.domains import Real as _Real            # noqa: E402


class Source(_Funsor):
    """harness-defined intermediate term class: Source ⊂ Funsor"""

    def __init__(self, name):
        super().__init__(OrderedDict(), _Real)
        self.name = name


class Sensor(Source):
    """Sensor ⊂ Source ⊂ Funsor"""

    def __init__(self, name, gain=1):
        super().__init__(name)
        self.gain = gain


GEN = LEAN / "FunsorVerif" / "Gen"
SKIP_MODULES = ("funsor.torch", "funsor.jax", "funsor.pyro", "funsor.minipyro", "funsor.distribution",
                "funsor.compat", "funsor.einsum.numpy_map")


class Unsupported(Exception):
    pass


# ----------------------------------------------------------------------------------------
# live objects: modules, leaf classes, registries
# ----------------------------------------------------------------------------------------

@functools.lru_cache(maxsize=None)
def load_modules():
    mods = []
    for m in pkgutil.walk_packages(funsor.__path__, "funsor."):
        if any(m.name == s or m.name.startswith(s + ".") for s in SKIP_MODULES):
            continue
        try:
            with warnings.catch_warnings():
                warnings.simplefilter("ignore")
                mods.append(importlib.import_module(m.name))
        except Exception:
            continue
    mods.append(funsor)
    return tuple(sorted(mods, key=lambda m: m.__name__))


def all_subclasses(c):
    out, todo = [], [c]
    seen = set()
    while todo:
        x = todo.pop()
        for s in type.__subclasses__(x):
            if id(s) not in seen:
                seen.add(id(s))
                out.append(s)
                todo.append(s)
    return out


def cname(c):
    return f"{c.__module__}.{c.__qualname__}"


def find_registries():
    """[(name, KeyedRegistry)] for every registry reachable as a module global (directly, or as the
    `.registry` of an interpretation object / class), named by the first sorted `module.attr`."""
    found = {}
    for m in load_modules():
        for attr in sorted(vars(m)):
            o = vars(m)[attr]
            r = None
            if isinstance(o, KeyedRegistry):
                r = o
            else:
                try:
                    rr = getattr(o, "registry", None)
                except Exception:
                    rr = None
                if isinstance(rr, KeyedRegistry):
                    r = rr
            if r is not None:
                nm = f"{m.__name__}.{attr}"
                if id(r) not in found or nm < found[id(r)][0]:
                    found[id(r)] = (nm, r)
    return sorted(found.values(), key=lambda p: p[0])


def walk_type(t, out):
    """collect every class mentioned in a type / signature element"""
    if isvariadic(t):
        for a in t.variadic_type:
            walk_type(a, out)
        return
    if isinstance(t, _RuntimeSubclassCheckMeta):
        walk_type(t.__args__[0], out)
        return
    if isinstance(t, GenericTypeMeta):
        out.add(get_origin(t))
        for a in get_args(t):
            walk_type(a, out)
        return
    if isinstance(t, type):
        out.add(t)
        return
    for a in typing_extensions.get_args(t):
        if a is not Ellipsis:
            walk_type(a, out)


BUILTIN_LEAVES = [object, type, int, float, bool, str, bytes, tuple, frozenset, list, dict, set,
                  type(None), OrderedDict, np.ndarray, np.generic, np.float64, np.int64, complex, slice,
                  functools.partial, __import__("collections").abc.Sequence]


class Universe:
    """Leaf classes with stable ids (sorted by qualified name) and the live issubclass matrix."""

    def __init__(self):
        self.bare_elements = 0
        from funsor.terms import Funsor
        from funsor.ops.op import Op
        import funsor.domains as D
        cl = set(BUILTIN_LEAVES)
        cl.update(c for c in [Funsor] + all_subclasses(Funsor) if not get_args(c))
        cl.update([Op] + all_subclasses(Op))
        cl.update([D.ArrayType, D.BintType, D.RealsType, type(Op)])
        for _, reg in find_registries():
            for d in reg.registry.values():
                for sig in d.funcs:
                    for t in sig:
                        walk_type(t, cl)
        # MRO closure
        for c in list(cl):
            for b in type.mro(c) if isinstance(c, type) else ():
                cl.add(b)
        cl = [c for c in cl if not isinstance(c, _RuntimeSubclassCheckMeta) and c is not typing_wrap
              and not isvariadic(c)]
        byname = {}
        self.dropped = []
        for c in cl:
            byname.setdefault(cname(c), []).append(c)
        self.classes = []
        for n in sorted(byname):
            if len(byname[n]) == 1:
                self.classes.append(byname[n][0])
            else:
                self.dropped.append(n)
        self.names = [cname(c) for c in self.classes] + ["~Variadic"]
        self.ids = {c: i for i, c in enumerate(self.classes)}
        self.kVar = len(self.classes)
        self.kTuple = self.ids[tuple]
        self.kFs = self.ids[frozenset]
        self.kObject = self.ids[object]
        n = len(self.classes)
        probe_var = ftyping.Variadic[int]
        self.sups = []
        for a in self.classes + [probe_var]:
            row = []
            for j, b in enumerate(self.classes):
                if a is b:
                    continue
                try:
                    r = issubclass(a, b)
                except TypeError:
                    r = False
                if r:
                    row.append(j)
            self.sups.append(row)
        self.fn = [isinstance(c, GenericTypeMeta) for c in self.classes] + [False]
        self.raises = []
        for c in self.classes:
            try:
                r = issubclass(typing.Tuple[int], c)
                self.raises.append(False)
                if r:
                    self.dropped.append(f"{cname(c)} accepts typing generics as subclasses")
            except TypeError:
                self.raises.append(True)
        self.raises.append(True)

    def L(self, a, b):
        return a == b or b in self.sups[a]

    # ---- encode real types to trees --------------------------------------------------
    def enc(self, t):
        if t is typing.Any:
            return ("any",)
        if isinstance(t, _RuntimeSubclassCheckMeta) or isvariadic(t):
            raise Unsupported(f"not a plain type expression: {t!r}")
        if isinstance(t, GenericTypeMeta):
            o = get_origin(t)
            if o not in self.ids:
                raise Unsupported(f"class not in table: {o!r}")
            return ("g", self.ids[o], tuple(self.enc(a) for a in get_args(t)))
        if t is typing.Tuple:
            return ("tb",)
        if t is typing.FrozenSet:
            return ("fb",)
        o = typing_extensions.get_origin(t)
        if o is tuple:
            args = typing_extensions.get_args(t)
            if not args:
                return ("tb",)
            if args[-1] is Ellipsis:
                if len(args) != 2:
                    raise Unsupported(repr(t))
                return ("tv", self.enc(args[0]))
            return ("t", tuple(self.enc(a) for a in args))
        if o is frozenset:
            args = typing_extensions.get_args(t)
            if len(args) != 1:
                raise Unsupported(repr(t))
            return ("f", self.enc(args[0]))
        if o is typing.Union:
            return ("u", tuple(self.enc(a) for a in typing_extensions.get_args(t)))
        if isinstance(t, type) and o is None:
            if t not in self.ids:
                raise Unsupported(f"class not in table: {t!r}")
            return ("c", self.ids[t])
        raise Unsupported(repr(t))

    def enc_alt(self, s):
        if isinstance(s, _RuntimeSubclassCheckMeta):
            return ("w", self.enc(s.__args__[0]))
        if isinstance(s, GenericTypeMeta):
            return ("n", self.enc(s))
        if isinstance(s, type) and s in self.ids:
            # a plain class handed to multipledispatch WITHOUT the typing_wrap adapter: representable
            # (`⟨false, .cls k⟩`), but not what the adapter is specified to produce: the table obligation
            # `reg_adapter_normal` fails on it
            self.bare_elements += 1
            return ("n", ("c", self.ids[s]))
        raise Unsupported(f"signature element is neither wrapped nor a GenericTypeMeta class: {s!r}")

    def enc_slot(self, s):
        if isvariadic(s):
            return ("v", tuple(self.enc_alt(a) for a in s.variadic_type))
        return self.enc_alt(s)

    def enc_sig(self, sig):
        return tuple(self.enc_slot(s) for s in sig)

    # ---- decode trees to real types ----------------------------------------------------
    def dec(self, tr):
        k = tr[0]
        if k == "any":
            return typing.Any
        if k == "c":
            return self.classes[tr[1]]
        if k == "tb":
            return typing.Tuple
        if k == "fb":
            return typing.FrozenSet
        if k == "t":
            return typing.Tuple[tuple(self.dec(x) for x in tr[1])] if tr[1] else typing.Tuple
        if k == "tv":
            return typing.Tuple[self.dec(tr[1]), ...]
        if k == "f":
            return typing.FrozenSet[self.dec(tr[1])]
        if k == "u":
            return typing.Union[tuple(self.dec(x) for x in tr[1])]
        if k == "g":
            c = self.classes[tr[1]]
            return c[tuple(self.dec(x) for x in tr[2])] if tr[2] else c
        raise ValueError(tr)


def tsx(tr):
    """tree -> wire S-expression"""
    k = tr[0]
    if k in ("any", "tb", "fb"):
        return k
    if k == "c":
        return f"(c {tr[1]})"
    if k in ("t", "u"):
        return "(" + " ".join([k] + [tsx(x) for x in tr[1]]) + ")"
    if k in ("tv", "f"):
        return f"({k} {tsx(tr[1])})"
    if k == "g":
        return "(" + " ".join(["g", str(tr[1])] + [tsx(x) for x in tr[2]]) + ")"
    if k in ("w", "n"):
        return f"({k} {tsx(tr[1])})"
    if k == "v":
        return "(" + " ".join(["v"] + [tsx(x) for x in tr[1]]) + ")"
    raise ValueError(tr)


def sigsx(sig):
    return "(" + " ".join(tsx(s) for s in sig) + ")"


def tlean(tr):
    """tree -> Lean term"""
    k = tr[0]
    if k == "any":
        return ".any"
    if k == "tb":
        return ".tupB"
    if k == "fb":
        return ".fsB"
    if k == "c":
        return f".cls {tr[1]}"
    if k == "t":
        return ".tup [" + ", ".join(tlean(x) for x in tr[1]) + "]"
    if k == "u":
        return ".union [" + ", ".join(tlean(x) for x in tr[1]) + "]"
    if k == "tv":
        return f".tupV ({tlean(tr[1])})"
    if k == "f":
        return f".fs ({tlean(tr[1])})"
    if k == "g":
        return f".fn {tr[1]} [" + ", ".join(tlean(x) for x in tr[2]) + "]"
    if k == "w":
        return f"⟨true, {tlean(tr[1])}⟩"
    if k == "n":
        return f"⟨false, {tlean(tr[1])}⟩"
    raise ValueError(tr)


def slotlean(s):
    if s[0] == "v":
        return ".var [" + ", ".join(tlean(a) for a in s[1]) + "]"
    return f".one {tlean(s)}"


def tshow(U, tr):
    """human-readable"""
    k = tr[0]
    if k == "any":
        return "Any"
    if k == "tb":
        return "Tuple"
    if k == "fb":
        return "FrozenSet"
    if k == "c":
        return U.names[tr[1]].split(".")[-1]
    if k == "t":
        return "Tuple[" + ", ".join(tshow(U, x) for x in tr[1]) + "]"
    if k == "u":
        return "Union[" + ", ".join(tshow(U, x) for x in tr[1]) + "]"
    if k == "tv":
        return f"Tuple[{tshow(U, tr[1])}, ...]"
    if k == "f":
        return f"FrozenSet[{tshow(U, tr[1])}]"
    if k == "g":
        n = U.names[tr[1]].split(".")[-1]
        return n + ("[" + ", ".join(tshow(U, x) for x in tr[2]) + "]" if tr[2] else "")
    if k in ("w", "n"):
        return tshow(U, tr[1])
    if k == "v":
        return "Variadic[" + ", ".join(tshow(U, a) for a in tr[1]) + "]"
    return str(tr)


class Dispatchers:
    """every live dispatcher, in a deterministic order"""

    def __init__(self, U):
        self.items = []   # dict(name, disp, sigs(real tuples), enc, order, ambig, funcs)
        self.unsupported = []
        for rname, reg in find_registries():
            for key in sorted(reg.registry, key=cname):
                d = reg.registry[key]
                name = f"{rname}[{key.__name__}]"
                sigs = list(d.funcs)
                try:
                    enc = [U.enc_sig(s) for s in sigs]
                except Unsupported as e:
                    self.unsupported.append(f"{name}: {e}")
                    continue
                with warnings.catch_warnings():
                    warnings.simplefilter("ignore")
                    order = [sigs.index(s) for s in d.ordering]
                    amb = md_conflict.ambiguities(d.funcs)
                ambig = sorted({tuple(sorted((sigs.index(a), sigs.index(b)))) for a, b in amb})
                self.items.append(dict(name=name, reg=reg, key=key, disp=d, sigs=sigs, enc=enc, order=order,
                                       ambig=ambig, funcs=[d.funcs[s] for s in sigs]))
        self.by_id = {id(it["disp"]): i for i, it in enumerate(self.items)}


def fname(f):
    f = getattr(f, "default", f)
    return f"{getattr(f, '__module__', '?')}.{getattr(f, '__qualname__', repr(f))}"


# ----------------------------------------------------------------------------------------
# extract
# ----------------------------------------------------------------------------------------

def write_if_changed(path, content):
    path.parent.mkdir(parents=True, exist_ok=True)
    if path.exists() and path.read_text() == content:
        return False
    path.write_text(content)
    return True


def ast_register_count():
    """source-level cross-check: number of `.register(` decorator applications in the numpy-side
    modules (a lower bound on live signatures is not implied — unions expand — but a live table
    with fewer dispatch keys than decorators' distinct first arguments would be suspicious)."""
    import ast
    n = 0
    for m in load_modules():
        f = getattr(m, "__file__", None)
        if not f or not f.endswith(".py"):
            continue
        try:
            tree = ast.parse(open(f).read())
        except Exception:
            continue
        for node in ast.walk(tree):
            if isinstance(node, (ast.FunctionDef,)):
                for dec in node.decorator_list:
                    if isinstance(dec, ast.Call) and isinstance(dec.func, ast.Attribute) and dec.func.attr == "register":
                        n += 1
    return n


def cache_key_form(U):
    """translate the expression used as `self._cache[...]` key in PartialDispatcher.partial_call
    (AST of funsor/registry.py, cross-checked with the live function's source) into a KeyForm"""
    import ast
    import inspect
    import textwrap
    src_file = (REPO / "funsor" / "registry.py").read_text()
    tree = ast.parse(src_file)
    fn = None
    for node in ast.walk(tree):
        if isinstance(node, ast.ClassDef) and node.name == "PartialDispatcher":
            for b in node.body:
                if isinstance(b, ast.FunctionDef) and b.name == "partial_call":
                    fn = b
    if fn is None:
        return dict(form=".other", source="<partial_call not found>", same=False, miss=False)
    live = ast.parse(textwrap.dedent(inspect.getsource(PartialDispatcher.partial_call))).body[0]
    def nodoc(f):
        body = f.body[1:] if (f.body and isinstance(f.body[0], ast.Expr) and isinstance(f.body[0].value, ast.Constant)) else f.body
        return [ast.dump(b) for b in body]
    live_same = nodoc(live) == nodoc(fn)
    loads, stores = [], []
    for node in ast.walk(fn):
        if (isinstance(node, ast.Subscript) and isinstance(node.value, ast.Attribute) and node.value.attr == "_cache"):
            (stores if isinstance(node.ctx, ast.Store) else loads).append(ast.dump(node.slice))
    same = bool(loads) and bool(stores) and len(set(loads + stores)) == 1 and live_same
    keyname = None
    for node in ast.walk(fn):
        if (isinstance(node, ast.Subscript) and isinstance(node.value, ast.Attribute) and node.value.attr == "_cache"
                and isinstance(node.slice, ast.Name)):
            keyname = node.slice.id
    assigns = {}
    for node in ast.walk(fn):
        if isinstance(node, ast.Assign) and len(node.targets) == 1 and isinstance(node.targets[0], ast.Name):
            assigns.setdefault(node.targets[0].id, []).append(node.value)
    canon_deep = ast.dump(ast.parse("tuple(map(typing_wrap, map(deep_type, args)))").body[0].value)
    # what a miss dispatches on
    miss = False
    for node in ast.walk(fn):
        if (isinstance(node, ast.Call) and isinstance(node.func, ast.Attribute) and node.func.attr == "dispatch"
                and len(node.args) == 1 and isinstance(node.args[0], ast.Starred) and isinstance(node.args[0].value, ast.Name)):
            vs = assigns.get(node.args[0].value.id, [])
            miss = len(vs) == 1 and ast.dump(vs[0]) == canon_deep
    form, source = ".other", "<no single key expression>"
    vs = assigns.get(keyname, []) if keyname else []
    if len(vs) == 1:
        e = vs[0]
        source = ast.unparse(e)
        if ast.dump(e) == canon_deep:
            form = ".deepTypes"
        else:
            # tuple(typing_wrap(C2 if isinstance(arg, C1) else deep_type(arg)) for arg in args)
            try:
                gen = e.args[0]
                assert isinstance(e.func, ast.Name) and e.func.id == "tuple" and isinstance(gen, ast.GeneratorExp)
                assert len(gen.generators) == 1 and ast.unparse(gen.generators[0].iter) == "args"
                var = gen.generators[0].target.id
                call = gen.elt
                assert ast.unparse(call.func) == "typing_wrap" and len(call.args) == 1
                cases = []
                cur = call.args[0]
                while isinstance(cur, ast.IfExp):
                    t = cur.test
                    assert ast.unparse(t.func) == "isinstance" and ast.unparse(t.args[0]) == var
                    c1 = eval(ast.unparse(t.args[1]), vars(sys.modules["funsor.registry"]) | vars(__import__("builtins")))
                    c2 = eval(ast.unparse(cur.body), vars(sys.modules["funsor.registry"]) | vars(__import__("builtins")))
                    cases.append((U.ids[c1], U.ids[c2]))
                    cur = cur.orelse
                assert ast.unparse(cur) == f"deep_type({var})"
                form = ".perArg [" + ", ".join(f"({a}, {b})" for a, b in cases) + "]"
            except Exception:
                form = ".other"
    return dict(form=form, source=source, same=same, miss=miss)


def add_form():
    """does PartialDispatcher.add clear `_cache` (itself, or by delegating to Dispatcher.add which does)?
    AST of funsor/registry.py and of the installed multipledispatch, cross-checked with the live sources"""
    import ast
    import inspect
    import textwrap
    from multipledispatch.dispatcher import Dispatcher

    def top_level_clears(fn):
        for st in fn.body:
            if isinstance(st, ast.Expr) and ast.unparse(st.value) == "self._cache.clear()":
                return True
        return False

    def nodoc(f):
        body = f.body[1:] if (f.body and isinstance(f.body[0], ast.Expr) and isinstance(f.body[0].value, ast.Constant)) else f.body
        return [ast.dump(b) for b in body]
    tree = ast.parse((REPO / "funsor" / "registry.py").read_text())
    fn = None
    for node in ast.walk(tree):
        if isinstance(node, ast.ClassDef) and node.name == "PartialDispatcher":
            for b in node.body:
                if isinstance(b, ast.FunctionDef) and b.name == "add":
                    fn = b
    if fn is None or PartialDispatcher.__mro__[1] is not Dispatcher:
        return dict(delegates=False, inherited=False, itself=False, tail="<PartialDispatcher.add not found>")
    live = ast.parse(textwrap.dedent(inspect.getsource(PartialDispatcher.add))).body[0]
    live_same = nodoc(live) == nodoc(fn)
    last = fn.body[-1]
    delegates = (live_same and isinstance(last, ast.Expr) and isinstance(last.value, ast.Call)
                 and ast.unparse(last.value.func) == "super().add")
    base = ast.parse(textwrap.dedent(inspect.getsource(Dispatcher.add))).body[0]
    return dict(delegates=bool(delegates), inherited=top_level_clears(base), itself=live_same and top_level_clears(fn),
                tail=ast.unparse(last))


def opmeta_form():
    """what OpMeta.__init__ iterates over when it copies the subclass_register'ed patterns into a new op class"""
    import ast
    import inspect
    import textwrap
    from funsor.ops.op import OpMeta
    tree = ast.parse((REPO / "funsor" / "ops" / "op.py").read_text())
    fn = None
    for node in ast.walk(tree):
        if isinstance(node, ast.ClassDef) and node.name == "OpMeta":
            for b in node.body:
                if isinstance(b, ast.FunctionDef) and b.name == "__init__":
                    fn = b
    if fn is None:
        return dict(whole_mro=False, iter="<OpMeta.__init__ not found>", inner="")
    live = ast.parse(textwrap.dedent(inspect.getsource(OpMeta.__init__))).body[0]
    same = [ast.dump(b) for b in live.body] == [ast.dump(b) for b in fn.body]
    loops = [n for n in fn.body if isinstance(n, ast.For)]
    if len(loops) != 1 or not loops[0].body or not isinstance(loops[0].body[0], ast.For):
        return dict(whole_mro=False, iter="<unexpected shape>", inner="")
    it, inner = ast.unparse(loops[0].iter), ast.unparse(loops[0].body[0].iter)
    var = ast.unparse(loops[0].target)
    ok = same and it in ("reversed(inspect.getmro(cls))", "reversed(cls.__mro__)", "reversed(cls.mro())") \
        and inner in (f"getattr({var}, '_subclass_registry', ())", f"getattr({var}, '_subclass_registry', [])")
    return dict(whole_mro=bool(ok), iter=it, inner=inner)


_STATE = {}


def state():
    if "U" not in _STATE:
        U = Universe()
        _STATE["U"] = U
        _STATE["D"] = Dispatchers(U)
    return _STATE["U"], _STATE["D"]


def extract(ctx):
    try:
        _extract(ctx)
    except Exception as e:   # noqa
        import traceback
        ctx.fail("correspondence", "C16.cannot-follow:extract", detail=f"{type(e).__name__}: {e}\n" + traceback.format_exc()[-1500:])


def _extract(ctx):
    U, D = state()
    hdr = "-- GENERATED by fv/harness/c16.py extract() from the live funsor at FUNSOR_REPO; do not edit.\n"
    t = [hdr, "import FunsorVerif.Model.C16\nnamespace FV.Gen.C16\nopen FV.C16\n"]
    t.append("/-- leaf classes (id = position):\n" + "\n".join(f"  {i} {n}" for i, n in enumerate(U.names)) + "\n-/")
    t.append("def table : Table :=\n  { sups := [\n" + ",\n".join("      [" + ", ".join(map(str, r)) + "]" for r in U.sups) + "],")
    t.append("    fnFlag := [" + ", ".join("true" if b else "false" for b in U.fn) + "],")
    t.append("    raises := [" + ", ".join("true" if b else "false" for b in U.raises) + "],")
    t.append(f"    kTuple := {U.kTuple}, kFs := {U.kFs}, kVar := {U.kVar} }}\n")
    t.append(f"def kObject : Nat := {U.kObject}\n")
    t.append("end FV.Gen.C16\n")
    ch1 = write_if_changed(GEN / "C16Table.lean", "\n".join(t))

    r = [hdr, "import FunsorVerif.Model.C16\nnamespace FV.Gen.C16\nopen FV.C16\n"]
    names = []
    for i, it in enumerate(D.items):
        r.append(f"/-- {it['name']} -/")
        r.append(f"def d{i} : DTab :=\n  {{ name := \"{it['name']}\",\n    sigs := [")
        rows = []
        for j, (e, f) in enumerate(zip(it["enc"], it["funcs"])):
            rows.append(f"      /- {j}: <{', '.join(tshow(U, s) for s in e)}> -> {fname(f)} -/\n      ["
                        + ", ".join(slotlean(s) for s in e) + "]")
        r.append(",\n".join(rows) + "],")
        r.append("    rules := [" + ", ".join('"' + fname(f).replace('"', "'") + '"' for f in it["funcs"]) + "],")
        r.append("    order := [" + ", ".join(map(str, it["order"])) + "],")
        r.append("    ambig := [" + ", ".join(f"({a}, {b})" for a, b in it["ambig"]) + "] }\n")
        names.append(f"d{i}")
    r.append("def dispatchers : List DTab :=\n  [" + ", ".join(names) + "]\n")
    r.append("end FV.Gen.C16\n")
    ch2 = write_if_changed(GEN / "C16Reg.lean", "\n".join(r))
    kf_ = cache_key_form(U)
    k = [hdr, "import FunsorVerif.Model.C16\nnamespace FV.Gen.C16\nopen FV.C16\n"]
    k.append("/-- source of the cache key in PartialDispatcher.partial_call: `" + kf_["source"].replace("-/", "- /") + "` -/")
    k.append(f"def cacheKeyForm : KeyForm := {kf_['form']}")
    k.append("def cacheKeySource : String := \"" + kf_["source"].replace("\\", "/").replace('"', "'") + "\"")
    k.append("/-- the lookup `self._cache[k]` and the store `self._cache[k] = func` use the same expression -/")
    k.append(f"def cacheLookupStoreSameKey : Bool := {'true' if kf_['same'] else 'false'}")
    k.append("/-- a miss is resolved by `self.dispatch(*types)` with `types = tuple(map(typing_wrap, map(deep_type, args)))` -/")
    k.append(f"def cacheMissUsesDeepTypes : Bool := {'true' if kf_['miss'] else 'false'}\n")
    af = add_form()
    b_ = lambda x: "true" if x else "false"   # noqa: E731
    k.append("/-- `PartialDispatcher.add` ends by delegating to `super().add(signature, func)` (last statement: `"
             + af["tail"].replace("-/", "- /")[:200] + "`) -/")
    k.append(f"def addDelegatesToDispatcherAdd : Bool := {b_(af['delegates'])}")
    k.append("/-- multipledispatch's `Dispatcher.add` executes `self._cache.clear()` unconditionally -/")
    k.append(f"def dispatcherAddClearsCache : Bool := {b_(af['inherited'])}")
    k.append("/-- `PartialDispatcher.add` itself executes `self._cache.clear()` unconditionally -/")
    k.append(f"def addClearsCacheItself : Bool := {b_(af['itself'])}")
    k.append("def addClearsCache : Bool := (addDelegatesToDispatcherAdd && dispatcherAddClearsCache) || addClearsCacheItself\n")
    om = opmeta_form()
    k.append("/-- OpMeta.__init__ copies the subclass_register'ed patterns of `for supercls in " + om["iter"].replace("-/", "- /")[:120]
             + "` / `" + om["inner"].replace("-/", "- /")[:120] + "` into every new op class -/")
    k.append(f"def opMetaIteratesWholeMro : Bool := {b_(om['whole_mro'])}\n")
    ctx.extra["opmeta_form"] = om
    ctx.extra["add_form"] = af
    k.append("end FV.Gen.C16\n")
    ch3 = write_if_changed(GEN / "C16Key.lean", "\n".join(k))
    ctx.extra["cache_key"] = kf_
    ctx.extra["bare_signature_elements"] = U.bare_elements
    ctx.extra["extract"] = dict(leaves=len(U.names), dispatchers=len(D.items),
                                signatures=sum(len(it["sigs"]) for it in D.items),
                                register_decorators_in_source=ast_register_count(),
                                dropped=U.dropped, unsupported=D.unsupported,
                                rewritten=[ch1, ch2, ch3])
    if D.unsupported:
        ctx.assumptions.append(f"{len(D.unsupported)} dispatcher(s) use type expressions outside the model: {D.unsupported[:3]}")


# ----------------------------------------------------------------------------------------
# python reference of the Bool relation (oracle for the clean stream and for `search`)
# ----------------------------------------------------------------------------------------

def is_proper(t):
    return t[0] not in ("any", "u")


def org(U, a):
    k = a[0]
    if k == "c":
        return a[1]
    if k in ("tb", "t", "tv"):
        return U.kTuple
    if k in ("fb", "f"):
        return U.kFs
    if k == "g":
        return a[1]
    raise ValueError(a)


def targs(a):
    """get_args(subcls) seen by the tuple/frozenset checks: None or (list, variadic)"""
    k = a[0]
    if k in ("c", "tb", "fb"):
        return None
    if k == "t":
        return (list(a[1]), False) if a[1] else None
    if k == "tv":
        return ([a[1]], True)
    if k == "f":
        return ([a[1]], False)
    if k == "g":
        return (list(a[2]), False) if a[2] else None
    raise ValueError(a)


def py_sub(U, a, b, kf=True):
    """mirror of Lean `sub E kf` (deep_issubclass with TypeErrors answered by the origin)"""
    if a[0] == "u":
        return all(py_sub(U, x, b, kf) for x in a[1])
    if a[0] == "any":
        return b[0] == "any"
    k = b[0]
    if k == "any":
        return True
    if k == "u":
        return any(py_sub(U, a, y, kf) for y in b[1])
    if k == "c":
        return U.L(org(U, a), b[1])
    if k in ("tb", "t", "tv"):
        if not U.L(org(U, a), U.kTuple):
            return False
        if k == "tb" or (k == "t" and not b[1]):
            return True
        sa = targs(a)
        if k == "t":
            if sa is None:
                return kf and b[1][0][0] == "any"
            if sa[1]:
                return False
            return len(sa[0]) == len(b[1]) and all(py_sub(U, x, y, kf) for x, y in zip(sa[0], b[1]))
        if sa is None:
            return b[1][0] == "any"
        if sa[1]:
            return py_sub(U, sa[0][0], b[1], kf)
        return all(py_sub(U, x, b[1], kf) for x in sa[0])
    if k in ("fb", "f"):
        if not U.L(org(U, a), U.kFs):
            return False
        if k == "fb":
            return True
        sa = targs(a)
        if sa is None:
            return b[1][0] == "any"
        if len(sa[0]) == 1 and not sa[1]:
            return py_sub(U, sa[0][0], b[1], kf)
        return False
    if k == "g":
        if a == b:
            return True
        if a[0] == "g":
            if not U.L(a[1], b[1]):
                return False
            if len(a[2]) != len(b[2]):
                return len(b[2]) == 0
            return all(py_sub(U, x, y, kf) for x, y in zip(a[2], b[2]))
        return U.L(org(U, a), b[1])
    raise ValueError(b)


def union_ok(t):
    """unions contain only proper members (no Any, no nested Union), recursively"""
    k = t[0]
    if k == "u":
        return all(is_proper(x) and union_ok(x) for x in t[1])
    if k in ("t",):
        return all(union_ok(x) for x in t[1])
    if k in ("tv", "f"):
        return union_ok(t[1])
    if k == "g":
        return all(union_ok(x) for x in t[2])
    return True


def subterms(t, out):
    out.add(t)
    k = t[0]
    if k in ("t", "u"):
        for x in t[1]:
            subterms(x, out)
    elif k in ("tv", "f"):
        subterms(t[1], out)
    elif k == "g":
        for x in t[2]:
            subterms(x, out)


def real_sub(U, a, b):
    """the REAL deep_issubclass on decoded types: 'T' | 'F' | 'E' (TypeError)"""
    try:
        return "T" if deep_issubclass(U.dec(a), U.dec(b)) else "F"
    except TypeError as e:
        if e.args and e.args[0] == "issubclass() arg 1 must be a class":
            return "E"
        return "E:" + str(e)[:60]


def canon(U, tr):
    """decode + re-encode: typing normalises Unions, funsor maps object -> Any in class arguments"""
    return U.enc(U.dec(tr))


# ----------------------------------------------------------------------------------------
# values: fabricate an instance whose deep_type is a given argument type
# ----------------------------------------------------------------------------------------

def fake_value(U, tr):
    """(value, value-tree) with deep_type(value) == dec(tr); raises Unsupported if impossible."""
    import funsor.domains as D
    k = tr[0]
    if k == "c":
        c = U.classes[tr[1]]
        special = {int: 0, str: "x", float: 0.5, bool: True, type: int, bytes: b"", type(None): None,
                   D.RealsType: D.Real, D.BintType: D.Bint[2], complex: 1j}
        if c in special:
            v = special[c]
        elif c is np.ndarray:
            v = np.zeros(())
        elif c is OrderedDict:
            v = OrderedDict()
        elif c in (tuple, frozenset, object, D.ArrayType) or issubclass(c, (tuple, frozenset)):
            raise Unsupported("no value has this deep_type")
        else:
            try:
                v = object.__new__(c)
            except TypeError:
                raise Unsupported(f"cannot fabricate {c}")
        return v, ("o", tr[1])
    if k == "g":
        c = U.dec(tr)
        v = object.__new__(c)
        # value tree: only the class matters for an uninitialised term (its type carries the args)
        return v, ("term", tr[1], tr[2])
    if k == "tb":
        return (), ("tuple", ())
    if k == "t":
        if not tr[1]:
            return (), ("tuple", ())
        parts = [fake_value(U, x) for x in tr[1]]
        return tuple(p[0] for p in parts), ("tuple", tuple(p[1] for p in parts))
    if k == "fb":
        return frozenset(), ("fset", ())
    if k == "f":
        v, vt = fake_value(U, tr[1])
        try:
            return frozenset([v]), ("fset", (vt,))
        except TypeError:
            raise Unsupported("unhashable element")
    raise Unsupported(f"not an argument type: {tr}")


def is_argtype(tr):
    k = tr[0]
    if k in ("any", "u", "tv"):
        return False
    if k == "t":
        return all(is_argtype(x) for x in tr[1])
    if k == "f":
        return is_argtype(tr[1])
    if k == "g":
        return all(is_argtype(x) or x[0] == "any" for x in tr[2])
    return True


def val_class(U, vt):
    k = vt[0]
    if k == "o":
        return vt[1]
    if k == "term":
        return vt[1]
    if k == "tuple":
        return U.kTuple
    return U.kFs


def sem_isinstance(U, vt, t):
    """set-theoretic membership of a value tree in a type expression (independent oracle).
    A fabricated term value ("term", k, argtypes) stands for any term of class k whose constructor
    arguments have exactly those deep types; membership of its arguments is therefore decided on
    types by the *same* oracle via a canonical inhabitant: an argument type is a subset of a
    parameter type iff every value of it is a member (decided structurally below)."""
    k = t[0]
    if k == "any":
        return True
    if k == "u":
        return any(sem_isinstance(U, vt, x) for x in t[1])
    if k == "c":
        return U.L(val_class(U, vt), t[1])
    if k == "tb":
        return U.L(val_class(U, vt), U.kTuple)
    if k == "fb":
        return U.L(val_class(U, vt), U.kFs)
    if k == "t":
        return vt[0] == "tuple" and len(vt[1]) == len(t[1]) and all(sem_isinstance(U, x, y) for x, y in zip(vt[1], t[1]))
    if k == "tv":
        return vt[0] == "tuple" and all(sem_isinstance(U, x, t[1]) for x in vt[1])
    if k == "f":
        return vt[0] == "fset" and all(sem_isinstance(U, x, t[1]) for x in vt[1])
    if k == "g":
        if vt[0] != "term" or not U.L(vt[1], t[1]):
            return False
        if not t[2]:
            return True
        if len(t[2]) != len(vt[2]):
            return False
        return all(sem_subset(U, x, y) for x, y in zip(vt[2], t[2]))
    raise ValueError(t)


def sem_subset(U, a, b):
    """every value whose deep_type is the argument type `a` is a member of `b` (a has no Union/variadic;
    `Any` as an argument type — from `object` — contains everything)"""
    if b[0] == "any":
        return True
    if a[0] == "any":
        return False
    if b[0] == "u":
        # an argument type is a single deep type: all its values have the same shape, so membership
        # in a union is membership in one branch for tuples/frozensets/terms/objects alike
        return any(sem_subset(U, a, y) for y in b[1])
    ka, kb = a[0], b[0]
    if kb == "c":
        return U.L(org(U, a), b[1])
    if kb == "tb":
        return U.L(org(U, a), U.kTuple)
    if kb == "fb":
        return U.L(org(U, a), U.kFs)
    if kb == "t":
        if ka == "tb":
            return len(b[1]) == 0
        return ka == "t" and len(a[1]) == len(b[1]) and all(sem_subset(U, x, y) for x, y in zip(a[1], b[1]))
    if kb == "tv":
        if ka == "tb":
            return True      # deep_type(()) : the empty tuple
        return ka == "t" and all(sem_subset(U, x, b[1]) for x in a[1])
    if kb == "f":
        if ka == "fb":
            return True      # the empty frozenset
        return ka == "f" and sem_subset(U, a[1], b[1])
    if kb == "g":
        if ka != "g" or not U.L(a[1], b[1]):
            return False
        if not b[2]:
            return True
        if len(a[2]) != len(b[2]):
            return False
        return all(sem_subset(U, x, y) for x, y in zip(a[2], b[2]))
    raise ValueError(b)


def vsx(vt):
    k = vt[0]
    if k == "o":
        return f"(o {vt[1]})"
    if k == "term":
        raise Unsupported("term value trees carry types, not values")
    return "(" + " ".join([k] + [vsx(x) for x in vt[1]]) + ")"


# ----------------------------------------------------------------------------------------
# pools
# ----------------------------------------------------------------------------------------

def signature_types(U, D):
    out = set()
    for it in D.items:
        for sig in it["enc"]:
            for s in sig:
                alts = s[1] if s[0] == "v" else [s]
                for a in alts:
                    subterms(a[1], out)
    return out


def workload():
    """a small spread of real funsor computations; every dispatch they cause is observed"""
    import funsor.ops as ops
    from funsor.tensor import Tensor
    from funsor.terms import Variable, Number
    from funsor.domains import Bint, Real, Reals
    from funsor.interpretations import eager, lazy, reflect, normalize, moment_matching, sequential
    from funsor.interpreter import reinterpret
    from funsor.optimizer import apply_optimizer
    from funsor.gaussian import Gaussian
    from funsor.delta import Delta
    from funsor.cnf import Contraction
    from funsor.integrate import Integrate
    from funsor.sum_product import sum_product, MarkovProduct
    from funsor.adjoint import adjoint
    I = OrderedDict
    a = Tensor(np.arange(6.0).reshape(2, 3), I(i=Bint[2], j=Bint[3]))
    b = Tensor(np.arange(3.0) + 1, I(j=Bint[3]))
    c = Tensor(np.ones((3, 2)), I(j=Bint[3], k=Bint[2]))
    x = Variable("x", Real)
    v = Variable("i", Bint[2])
    prec = np.array([[2.0, 0.5], [0.5, 1.0]])
    steps = []

    def st(f):
        steps.append(f)
    st(lambda: a + b)
    st(lambda: (a * b).reduce(ops.add, "j"))
    st(lambda: (a * b).reduce(ops.logaddexp))
    st(lambda: a(i=1))
    st(lambda: a(i="k"))
    st(lambda: a(j=Tensor(np.array([0, 2]), I(k=Bint[2]), 3)))
    st(lambda: (-a).exp().log())
    st(lambda: a.reduce(ops.max, "i") - b)
    st(lambda: x + 1.0)
    st(lambda: (x * x)(x=Number(2.0)))
    st(lambda: Number(1.0) + Number(2.0))
    st(lambda: a + x)
    st(lambda: (a + x).reduce(ops.add, "i"))
    st(lambda: funsor.terms.Stack("s", (b, b + 1)))
    st(lambda: funsor.terms.Cat("j", (b, b)))
    st(lambda: funsor.terms.Lambda(v, a))
    st(lambda: funsor.terms.Independent(Tensor(np.zeros((2, 3)), I(i=Bint[2], j=Bint[3])) + Variable("y", Reals[2])["i"], "y", "i", "y_i") if False else None)
    st(lambda: Delta("x", Tensor(np.array(0.5)), Tensor(np.array(0.0))) + b)
    st(lambda: (Delta("x", Tensor(np.array(0.5)), Tensor(np.array(0.0))) + (x * 2.0)).reduce(ops.logaddexp, "x"))

    def gauss():
        g = Gaussian(white_vec=np.zeros(2), prec_sqrt=np.linalg.cholesky(prec), inputs=I(z=Reals[2]))
        h = g + b
        h.reduce(ops.logaddexp, "z")
        (g + g).reduce(ops.logaddexp)
        g(z=Tensor(np.array([0.1, 0.2])))
        with moment_matching:
            (h + a).reduce(ops.logaddexp, "j")
        Integrate(g, Variable("z", Reals[2])[0], "z")
        return h
    st(gauss)

    def lazies():
        with lazy:
            e = (a * b).reduce(ops.add, "j") + c.reduce(ops.add)
        reinterpret(e)
        with reflect:
            e2 = Contraction(ops.add, ops.mul, frozenset({Variable("j", Bint[3])}), a, b, c)
        apply_optimizer(e2)
        with normalize:
            e3 = (a * b * c).reduce(ops.add, "j")
        reinterpret(e3)
        with lazy:
            e4 = (a.exp() * b.exp()).log().reduce(ops.logaddexp, "j")
        apply_optimizer(e4)
    st(lazies)

    def sp():
        sum_product(ops.logaddexp, ops.add, [a, b, c], eliminate=frozenset("ijk"), plates=frozenset("i"))
        t = Tensor(np.ones((4, 2, 2)), I(t=Bint[4], p=Bint[2], q=Bint[2]))
        MarkovProduct(ops.logaddexp, ops.add, t, Variable("t", Bint[4]), {"p": "q"})
        with sequential:
            (a * b).reduce(ops.add, frozenset("ij"))
    st(sp)

    def adj():
        with lazy:
            e = (a * b).reduce(ops.add, "j").reduce(ops.add, "i")
        adjoint(ops.add, ops.mul, e)
    st(adj)
    return steps


def observe_workload(D):
    """run the workload with PartialDispatcher.partial_call wrapped; return [(dispatcher index, types)]"""
    seen = []
    orig = PartialDispatcher.partial_call

    def spy(self, *args):
        i = D.by_id.get(id(self))
        if i is not None:
            try:
                seen.append((i, tuple(map(typing_wrap, map(deep_type, args)))))
            except Exception:
                pass
        return orig(self, *args)
    import signal

    class StepTimeout(Exception):
        pass

    def on_alarm(signum, frame):
        raise StepTimeout()
    PartialDispatcher.partial_call = spy
    errs = 0
    old = signal.signal(signal.SIGALRM, on_alarm)
    try:
        for f in workload():
            signal.setitimer(signal.ITIMER_REAL, 15.0)   # a broken dispatcher may send a rule into a loop
            try:
                with warnings.catch_warnings():
                    warnings.simplefilter("ignore")
                    f()
            except (Exception, StepTimeout):
                errs += 1
            finally:
                signal.setitimer(signal.ITIMER_REAL, 0)
            if len(seen) > 20000:
                break
    finally:
        signal.setitimer(signal.ITIMER_REAL, 0)
        signal.signal(signal.SIGALRM, old)
        PartialDispatcher.partial_call = orig
    return seen[:20000], errs


def synth_types(U, rng, base, n):
    """random type expressions over a small leaf set and the given base types"""
    import funsor.ops as ops
    from funsor.terms import Funsor, Number, Variable, Unary, Binary
    from funsor.tensor import Tensor
    leaves = [("c", U.ids[c]) for c in (int, str, float, bool, object, tuple, frozenset, ops.AddOp, ops.MulOp,
                                        ops.op.Op, ops.op.BinaryOp, ops.AssociativeOp, np.ndarray)]
    fcls = {c: U.ids[c] for c in (Funsor, Number, Tensor, Variable, Unary, Binary)}
    nfields = {c: len(c._ast_fields) for c in fcls}
    base = list(base)
    out = set()

    def gen(depth):
        r = rng.random()
        if depth <= 0 or r < 0.3:
            q = rng.random()
            if q < 0.5:
                return rng.choice(leaves)
            if q < 0.6:
                return ("any",)
            if q < 0.7:
                return rng.choice([("tb",), ("fb",)])
            if q < 0.85:
                return ("g", fcls[rng.choice(list(fcls))], ())
            return rng.choice(base)
        if r < 0.5:
            return ("t", tuple(gen(depth - 1) for _ in range(rng.choice([1, 1, 2, 2, 3]))))
        if r < 0.62:
            return ("tv", gen(depth - 1))
        if r < 0.72:
            return ("f", gen(depth - 1))
        if r < 0.86:
            return ("u", tuple(gen(depth - 1) for _ in range(rng.choice([2, 2, 3]))))
        c = rng.choice(list(fcls))
        return ("g", fcls[c], tuple(gen(depth - 1) for _ in range(nfields[c])))
    tries = 0
    while len(out) < n and tries < 20 * n:
        tries += 1
        t = gen(rng.choice([1, 2, 2, 3]))
        try:
            t = canon(U, t)
        except Exception:
            continue
        out.add(t)
    return out


def kf_free(t):
    """clean stream: no fixed-length tuple type whose first parameter is literally Any (the only
    types against which a bare tuple is accepted by the clause of KF-tuple-subclass)"""
    k = t[0]
    if k == "t":
        return bool(t[1]) and t[1][0][0] != "any" and all(kf_free(x) for x in t[1]) if t[1] else True
    if k == "u":
        return all(kf_free(x) for x in t[1])
    if k in ("tv", "f"):
        return kf_free(t[1])
    if k == "g":
        return all(kf_free(x) for x in t[2])
    return True


# ----------------------------------------------------------------------------------------
# correspondence parts
# ----------------------------------------------------------------------------------------

PY_SUB = """
# replay for C16 ({what})
import typing
from typing import Any, Tuple, FrozenSet, Union
import numpy
import funsor; funsor.set_backend("numpy")
import funsor.ops, funsor.ops.op, funsor.terms, funsor.tensor, funsor.delta, funsor.gaussian, funsor.cnf, funsor.domains
from funsor.typing import deep_issubclass, deep_isinstance, deep_type
def R(a, b):
    try: return deep_issubclass(a, b)
    except TypeError: return 'TypeError'
{body}
"""


def pyrepr(U, tr):
    """python source of a type expression"""
    k = tr[0]
    if k == "any":
        return "Any"
    if k == "tb":
        return "Tuple"
    if k == "fb":
        return "FrozenSet"
    if k == "c":
        n = U.names[tr[1]]
        return n[len("builtins."):] if n.startswith("builtins.") else n
    if k == "t":
        return "Tuple[" + ", ".join(pyrepr(U, x) for x in tr[1]) + ("," if len(tr[1]) == 1 else "") + "]"
    if k == "u":
        return "Union[" + ", ".join(pyrepr(U, x) for x in tr[1]) + "]"
    if k == "tv":
        return f"Tuple[{pyrepr(U, tr[1])}, ...]"
    if k == "f":
        return f"FrozenSet[{pyrepr(U, tr[1])}]"
    if k == "g":
        return U.names[tr[1]] + ("[" + ", ".join(pyrepr(U, x) for x in tr[2]) + "]" if tr[2] else "")
    raise ValueError(tr)


def base_class_union_types(U):
    """Unions whose members are NON-leaf classes (Funsor, op bases, harness-defined Source ⊂ Funsor,
    Sensor ⊂ Source), and the parametrised subjects to put against them"""
    import funsor.ops as ops
    from funsor.terms import Funsor, Number, Binary, Unary
    from funsor.tensor import Tensor
    import funsor.domains as Dm
    c = lambda x: ("c", U.ids[x])                   # noqa: E731
    g = lambda x, *a: ("g", U.ids[x], tuple(a))     # noqa: E731
    s_, i_, nd = c(str), c(int), c(np.ndarray)
    ten = g(Tensor, nd, ("t", (("t", (s_, c(Dm.BintType))),)), s_)
    num = g(Number, i_, s_)
    sen = g(Sensor, s_, i_)
    src = g(Source, s_)
    u = lambda *m: ("u", tuple(m))                  # noqa: E731
    unions = [u(g(Number), g(Funsor)), u(g(Tensor), g(Source)), u(g(Number), g(Source)), u(g(Number), g(Tensor)),
              u(g(Sensor), g(Number)), u(c(ops.AssociativeOp), i_), u(c(ops.op.Op), s_), u(c(ops.op.BinaryOp), c(ops.ExpOp)),
              u(g(Funsor), i_), u(g(Source), c(ops.op.Op))]
    subjects = [ten, num, sen, src, g(Tensor), g(Sensor), g(Source), g(Funsor), c(ops.AddOp), c(ops.ExpOp),
                g(Binary, c(ops.AddOp), sen, num), g(Binary, c(ops.AddOp), ten, ten), g(Unary, c(ops.ExpOp), sen),
                ("t", (sen, ten)), ("t", (num,)), ("f", sen), ("f", ten)]
    nested = [g(Binary, c(ops.AddOp), unions[0], g(Funsor)), g(Binary, c(ops.AddOp), unions[2], g(Funsor)),
              g(Binary, c(ops.op.Op), unions[1], unions[0]), ("tv", unions[0]), ("tv", unions[1]), ("t", (unions[2], unions[0])),
              ("f", unions[1]), ("f", unions[0]), g(Unary, unions[7], unions[1])]
    return set(unions) | set(subjects) | set(nested)


def part_subtype(ctx, U, D, observed, use_driver=True):
    rng = ctx.rng
    sig_pool = signature_types(U, D)
    obs_pool = set()
    for _, types in observed:
        for t in types:
            try:
                tr = U.enc_alt(t)[1]
            except Unsupported:
                continue
            sub_ = set()
            subterms(tr, sub_)
            obs_pool |= sub_
    obs_list = sorted(obs_pool, key=repr)
    rng.shuffle(obs_list)
    n_obs = 50 if ctx.tier == "quick" else 150
    n_syn = 70 if ctx.tier == "quick" else 220
    pool = set(sig_pool) | set(obs_list[:n_obs])
    pool |= synth_types(U, rng, sorted(pool, key=repr), n_syn)
    # hand-picked corner shapes (variadic / bare / frozenset / union / class-argument count)
    i_, s_, o_ = ("c", U.ids[int]), ("c", U.ids[str]), ("c", U.ids[object])
    pool |= {("tb",), ("fb",), ("any",), ("c", U.kTuple), ("c", U.kFs), ("t", (i_, i_)), ("t", (i_,)), ("tv", i_),
             ("tv", ("any",)), ("tv", o_), ("f", i_), ("f", ("any",)), ("u", (i_, s_)), ("t", (i_, ("tv", s_))),
             ("t", (("u", (i_, s_)), i_)), ("tv", ("u", (i_, s_))), ("f", ("t", (i_,))), ("f", ("u", (i_, s_)))}
    pool |= base_class_union_types(U)
    pool = {canon(U, t) for t in pool}
    # the clean stream stays out of the region of KF-tuple-subclass and of Any-inside-Union
    clean = sorted((t for t in pool if kf_free(t) and union_ok(t)), key=repr)
    dirty = sorted((t for t in pool if not (kf_free(t) and union_ok(t))), key=repr)
    ctx.count("pool:clean", len(clean))
    ctx.count("pool:outside-clean-stream", len(dirty))
    n = len(clean)
    real = np.empty((n, n), dtype="U1")
    for i, a in enumerate(clean):
        for j, b in enumerate(clean):
            r = real_sub(U, a, b)
            if len(r) > 1:
                ctx.count("real:other-TypeError")
                r = "E"
            real[i, j] = r
    for v in "TFE":
        ctx.count(f"real-sub:{v}", int((real == v).sum()))
    # --- model vs real, all pairs -------------------------------------------------------
    if use_driver:
        reqs = []
        for a in clean:
            for b in clean:
                reqs.append(f"C16 sube {tsx(a)} {tsx(b)}")
                reqs.append(f"C16 sub {tsx(a)} {tsx(b)}")
        ans = ctx.driver.ask(reqs)
        bad = 0
        for i, a in enumerate(clean):
            for j, b in enumerate(clean):
                me, mp = ans[2 * (i * n + j)], ans[2 * (i * n + j) + 1]
                if not (me.startswith("ok ") and mp.startswith("ok ")):
                    ctx.infra_errors.append(f"driver: {me} / {mp} on {reqs[2 * (i * n + j)]}")
                    return
                me, mp = me[3:], mp[3:]
                if me != real[i, j]:
                    bad += 1
                    if bad <= 3:
                        ctx.fail("correspondence", "C16.deep_issubclass-vs-model",
                                 witness=dict(sub=tshow(U, a), sup=tshow(U, b), tree=[a, b]),
                                 expected=f"model subE = {me}", got=f"deep_issubclass = {real[i, j]}",
                                 python=PY_SUB.format(what="deep_issubclass differs from the verified model",
                                                      body=f"a = {pyrepr(U, a)}\nb = {pyrepr(U, b)}\nprint(R(a, b))\n"
                                                           f"FAILS = (R(a, b) != {dict(T=True, F=False).get(me, repr('TypeError'))!r})"))
                if me != "E" and me != mp:
                    ctx.infra_errors.append(f"Lean subE={me} but sub={mp} on {tshow(U, a)} <= {tshow(U, b)} (contradicts subE_sound)")
                    return
                # python reference agrees with the Lean Bool relation (it is the search oracle)
                if py_sub(U, a, b) != (mp == "T"):
                    ctx.infra_errors.append(f"python oracle py_sub differs from Lean sub on {tshow(U, a)} <= {tshow(U, b)}")
                    return
                ctx.case(sample=dict(sub=tshow(U, a), sup=tshow(U, b), real=str(real[i, j])) if (i * n + j) % 4001 == 7 else None,
                         nontrivial_key=("sub", a, b) if (not (a[0] == "c" and b[0] == "c")) and real[i, j] != "E" else None)
    # --- the order axioms on the REAL relation ------------------------------------------
    check_axioms(ctx, U, clean, real)
    # types outside the clean stream: compared with the model (which reproduces both corners), counted
    if use_driver and dirty:
        some = dirty[: (60 if ctx.tier == "quick" else 200)]
        others = clean[:: max(1, n // 40)] + some
        reqs, pairs = [], []
        for a in some:
            for b in others:
                for x, y in ((a, b), (b, a)):
                    reqs.append(f"C16 sube {tsx(x)} {tsx(y)}")
                    pairs.append((x, y))
        ans = ctx.driver.ask(reqs)
        for (x, y), m in zip(pairs, ans):
            r = real_sub(U, x, y)[:1]
            ctx.count("dirty-pairs")
            if m[3:] != r:
                ctx.fail("correspondence", "C16.deep_issubclass-vs-model",
                         witness=dict(sub=tshow(U, x), sup=tshow(U, y), tree=[x, y]),
                         expected=f"model subE = {m[3:]}", got=f"deep_issubclass = {r}",
                         python=PY_SUB.format(what="deep_issubclass differs from the verified model",
                                              body=f"a = {pyrepr(U, x)}\nb = {pyrepr(U, y)}\nprint(R(a, b))\nFAILS = True"))
                break
    return clean


def check_axioms(ctx, U, clean, real):
    n = len(clean)
    T = (real == "T")
    F = (real == "F")
    # reflexivity
    for i, a in enumerate(clean):
        if F[i, i]:
            ctx.fail("input", "C16.reflexivity", witness=dict(type=tshow(U, a), tree=a),
                     expected="deep_issubclass(t, t) is True", got="False",
                     python=PY_SUB.format(what="reflexivity", body=f"a = {pyrepr(U, a)}\nprint(R(a, a))\nFAILS = (R(a, a) is False)"))
            break
    ctx.count("refl:true", int(np.trace(T.astype(int))))
    # a union on the right is the OR of its members, for every class / parametrised / container type on the left
    for j, u_ in enumerate(clean):
        if u_[0] != "u":
            continue
        for i, a in enumerate(clean):
            if a[0] in ("u", "any") or real[i, j] == "E":
                continue
            ms = [real_sub(U, a, m) for m in u_[1]]
            if any(len(x) > 1 or x == "E" for x in ms):
                continue
            ctx.count("union-is-or:checked")
            if (real[i, j] == "T") != any(x == "T" for x in ms):
                ctx.fail("input", "C16.union-is-not-or-of-members",
                         witness=dict(sub=tshow(U, a), union=tshow(U, u_), against_union=str(real[i, j]),
                                      against_members=dict(zip([tshow(U, m) for m in u_[1]], ms)), tree=[a, u_]),
                         expected="a <= Union[b, c] iff a <= b or a <= c", got=f"{real[i, j]} vs members {ms}",
                         python=PY_SUB.format(what="a union is the or of its members",
                                              body=f"a = {pyrepr(U, a)}\nu = {pyrepr(U, u_)}\nms = typing.get_args(u)\n"
                                                   "print(R(a, u), [R(a, m) for m in ms])\nFAILS = (R(a, u) is not any(R(a, m) is True for m in ms))"))
                return
    # transitivity over ALL triples: T[a,b] & T[b,c] -> not F[a,c]
    Ti = T.astype(np.int32)
    two = (Ti @ Ti) > 0            # exists b
    viol = np.argwhere(two & F)
    ctx.count("trans:triples-with-both-premises", int((Ti @ Ti).sum()))
    if len(viol):
        i, k = map(int, viol[0])
        j = int(np.argwhere(T[i, :] & T[:, k])[0][0])
        a, b, c = clean[i], clean[j], clean[k]
        ctx.fail("input", "C16.transitivity", witness=dict(a=tshow(U, a), b=tshow(U, b), c=tshow(U, c), tree=[a, b, c]),
                 expected="a<=b and b<=c imply a<=c", got="a<=b, b<=c, not a<=c",
                 python=PY_SUB.format(what="transitivity", body=f"a = {pyrepr(U, a)}\nb = {pyrepr(U, b)}\nc = {pyrepr(U, c)}\n"
                                      "print(R(a, b), R(b, c), R(a, c))\nFAILS = (R(a, b) is True and R(b, c) is True and R(a, c) is False)"))
    # Any is the top, Union is a join w.r.t. the real relation
    anyi = clean.index(("any",)) if ("any",) in clean else None
    if anyi is not None:
        for i, a in enumerate(clean):
            if not T[i, anyi]:
                ctx.fail("input", "C16.any-top", witness=dict(type=tshow(U, a), tree=a), expected="t <= Any", got=str(real[i, anyi]),
                         python=PY_SUB.format(what="Any is the top", body=f"a = {pyrepr(U, a)}\nFAILS = (R(a, Any) is not True)"))
                break


def part_values(ctx, U, D, clean, observed, use_driver=True):
    """fabricated instances: deep_type round trip, instance-of-own-type, upward closure, soundness
    of deep_isinstance against the set-theoretic oracle"""
    rng = ctx.rng
    argtypes = [t for t in clean if is_argtype(t)]
    for _, types in observed:
        for t in types:
            try:
                tr = U.enc_alt(t)[1]
            except Unsupported:
                continue
            if is_argtype(tr) and kf_free(tr):
                argtypes.append(tr)
    argtypes = sorted(set(argtypes), key=repr)
    rng.shuffle(argtypes)
    argtypes = argtypes[: (120 if ctx.tier == "quick" else 500)]
    # nested containers of them
    extra = []
    for _ in range(40 if ctx.tier == "quick" else 200):
        k = rng.choice(["t", "t", "f", "tt"])
        xs = [rng.choice(argtypes) for _ in range(rng.choice([1, 2, 3]))]
        extra.append(("t", tuple(xs)) if k == "t" else ("f", xs[0]) if k == "f" else ("t", (("t", tuple(xs)), xs[0])))
    values = []
    for tr in argtypes + extra:
        try:
            v, vt = fake_value(U, tr)
        except Unsupported:
            ctx.count("values:not-fabricable")
            continue
        try:
            dt = deep_type(v)
        except NotImplementedError:
            ctx.count("values:deep_type-declined")
            continue
        try:
            dtt = U.enc(dt)
        except Unsupported:
            continue
        if dtt != canon(U, tr):
            # a frozenset of tuples etc. may legitimately widen; the observed deep type is what counts
            ctx.count("values:deep_type-differs-from-requested")
        values.append((v, vt, dtt))
    targets = clean
    reqs = []
    for v, vt, dtt in values:
        ctx.count("values")
        # every term is an instance of its own precise type
        try:
            own = deep_isinstance(v, U.dec(dtt))
        except Exception as e:   # noqa
            own = f"raised {type(e).__name__}"
        if own is not True:
            ctx.fail("input", "C16.instance-of-own-type", witness=dict(deep_type=tshow(U, dtt), tree=dtt),
                     expected="deep_isinstance(x, deep_type(x))", got=str(own),
                     python=PY_SUB.format(what="instance of own type", body=f"t = {pyrepr(U, dtt)}\nFAILS = (R(t, t) is not True)"))
            return
        members = []
        for j, t in enumerate(targets):
            try:
                r = deep_isinstance(v, U.dec(t))
            except Exception:
                ctx.count("values:isinstance-raised")
                continue
            sem = sem_subset(U, dtt, t)
            if r and not sem:
                ctx.fail("input", "C16.instance-unsound", witness=dict(value_type=tshow(U, dtt), pattern=tshow(U, t), tree=[dtt, t]),
                         expected="not an instance (set-theoretic membership)", got="deep_isinstance True",
                         python=PY_SUB.format(what="deep_isinstance accepts a non-member",
                                              body=f"a = {pyrepr(U, dtt)}\nb = {pyrepr(U, t)}\nprint(R(a, b))\nFAILS = (R(a, b) is True)"))
                return
            if sem and not r:
                ctx.count("values:incomplete(member-but-rejected)")
            if r:
                members.append(j)
        ctx.count("values:memberships", len(members))
        # upward closure: instance of t and t <= u  ==> instance of u   (real code on both sides)
        ms = set(members)
        for j in members:
            for k2, u in enumerate(targets):
                if k2 in ms:
                    continue
                if real_sub(U, targets[j], u) == "T":
                    try:
                        r2 = deep_isinstance(v, U.dec(u))
                    except Exception:
                        continue
                    if r2 is False:
                        ctx.fail("input", "C16.instance-upward-closure",
                                 witness=dict(value_type=tshow(U, dtt), t=tshow(U, targets[j]), u=tshow(U, u), tree=[dtt, targets[j], u]),
                                 expected="instance of u", got="not an instance",
                                 python=PY_SUB.format(what="upward closure", body=f"a = {pyrepr(U, dtt)}\nb = {pyrepr(U, targets[j])}\nc = {pyrepr(U, u)}\n"
                                                      "FAILS = (R(a, b) is True and R(b, c) is True and R(a, c) is False)"))
                        return
        ctx.case(nontrivial_key=("val", dtt) if dtt[0] in ("t", "f", "g") else None)
        if use_driver and "term" not in repr(vt):
            reqs.append((f"C16 deeptype {vsx(vt)}", dtt))
    if use_driver and reqs:
        ans = ctx.driver.ask([r for r, _ in reqs])
        for (rq, dtt), a in zip(reqs, ans):
            ctx.count("deeptype:compared")
            if a != "ok " + tsx(dtt):
                ctx.fail("correspondence", "C16.deep_type-vs-model", witness=dict(request=rq, real=tsx(dtt), model=a))
                break


def real_matches(types, sig):
    try:
        return _real_matches(types, sig)
    except TypeError:      # a signature the real dispatcher would raise on is not a match
        return False


def _real_matches(types, sig):
    n = len(types)
    if len(sig) == n and all(map(issubclass, types, sig)):
        return True
    if len(sig) and isvariadic(sig[-1]):
        return variadic_signature_matches(types, sig)
    return False


def real_most_specific(it, types, func):
    """python oracle on the REAL issubclass/supercedes: is `func` the rule of a matching signature
    that no other matching signature strictly supercedes?  returns (ok, matching, candidates)"""
    sigs = it["sigs"]
    M = [i for i, s in enumerate(sigs) if real_matches(types, s)]
    cand = [i for i in M if it["disp"].funcs[sigs[i]] is func]
    sup = md_conflict.supercedes
    minimal = [i for i in cand if not any(sup(sigs[j], sigs[i]) and not sup(sigs[i], sigs[j]) for j in M)]
    least = [i for i in cand if all(sup(sigs[i], sigs[j]) for j in M)]
    return bool(minimal), M, cand, bool(least)


KF_AMBIG = "KF-precondition-ambiguous-patterns"
KF_AMBIG_DISPATCHER = "funsor.precondition.Precondition[Approximate]"
KF_AMBIG_RULES = ("funsor.precondition.precondition_approximate_contraction",
                  "funsor.precondition.precondition_approximate_gaussian_mixture")


def kf_ambiguity_region(it, real_types):
    """fingerprint of the open finding: this dispatcher, and the signatures of BOTH named rules accept
    the argument types (decided before looking at what dispatch does)"""
    if it["name"] != KF_AMBIG_DISPATCHER:
        return False
    hit = set()
    for s, f in zip(it["sigs"], it["funcs"]):
        if fname(f) in KF_AMBIG_RULES and real_matches(real_types, s):
            hit.add(fname(f))
    return len(hit) == 2


def _fam(t):
    k = t[0]
    return "T" if k in ("tb", "t", "tv") else "F" if k in ("fb", "f") else k


def py_overlap(U, a, b):
    """mirror of Lean `overlap`: False only if no argument type can match both patterns"""
    if a[0] == "any" or b[0] == "any":
        return True
    if a[0] == "u":
        return any(py_overlap(U, x, b) for x in a[1])
    if b[0] == "u":
        return any(py_overlap(U, a, y) for y in b[1])
    fa, fb = _fam(a), _fam(b)
    comp = lambda x, y: U.L(x, y) or U.L(y, x)   # noqa: E731
    if fa == "c" or fb == "c":
        return comp(org(U, a), org(U, b))
    if fa != fb:
        return False
    if fa == "T":
        if a[0] == "t" and b[0] == "t":
            return len(a[1]) == len(b[1]) and all(py_overlap(U, x, y) for x, y in zip(a[1], b[1]))
        if a[0] == "t" and b[0] == "tv":
            return all(py_overlap(U, x, b[1]) for x in a[1])
        if a[0] == "tv" and b[0] == "t":
            return all(py_overlap(U, a[1], y) for y in b[1])
        return True
    if fa == "F":
        return True
    if not comp(a[1], b[1]):
        return False
    if not a[2] or not b[2]:
        return True
    return len(a[2]) == len(b[2]) and all(py_overlap(U, x, y) for x, y in zip(a[2], b[2]))


def py_meet(U, a, b):
    """a pattern below both `a` and `b` where one is easy to write down (used to aim the generator
    at the overlap of two signatures; correctness is not needed, candidates are re-checked)"""
    if py_sub(U, a, b):
        return a
    if py_sub(U, b, a):
        return b
    if a[0] == "u":
        for x in a[1]:
            if py_overlap(U, x, b):
                return py_meet(U, x, b)
    if b[0] == "u":
        return py_meet(U, b, a)
    if a[0] == "g" and b[0] == "g":
        k = a[1] if U.L(a[1], b[1]) else b[1]
        if a[2] and b[2] and len(a[2]) == len(b[2]):
            return ("g", k, tuple(py_meet(U, x, y) for x, y in zip(a[2], b[2])))
        return ("g", k, a[2] or b[2])
    if a[0] == "t" and b[0] == "t" and len(a[1]) == len(b[1]):
        return ("t", tuple(py_meet(U, x, y) for x, y in zip(a[1], b[1])))
    if a[0] == "t" and b[0] == "tv":
        return ("t", tuple(py_meet(U, x, b[1]) for x in a[1]))
    if a[0] == "tv" and b[0] == "t":
        return py_meet(U, b, a)
    if a[0] == "c" and b[0] != "c":
        return b
    return a


def py_sig_overlap(U, a, b):
    alts = lambda s: s[1] if s[0] == "v" else [s]   # noqa: E731
    if not a and not b:
        return True
    if not a:
        return len(b) == 1 and b[0][0] == "v"
    if not b:
        return len(a) == 1 and a[0][0] == "v"
    if not any(py_overlap(U, x[1], y[1]) for x in alts(a[0]) for y in alts(b[0])):
        return False
    va, vb = a[0][0] == "v", b[0][0] == "v"
    if va and vb:
        return True
    if va:
        return py_sig_overlap(U, a, b[1:])
    if vb:
        return py_sig_overlap(U, a[1:], b)
    return py_sig_overlap(U, a[1:], b[1:])


def py_hidden_ambiguities(U, it):
    sup = md_conflict.supercedes
    sigs, enc = it["sigs"], it["enc"]
    out = []
    for i in range(len(sigs)):
        for j in range(i + 1, len(sigs)):
            if (py_sig_overlap(U, enc[i], enc[j]) and not sup(sigs[i], sigs[j]) and not sup(sigs[j], sigs[i])
                    and not any(sup(c, sigs[i]) and sup(c, sigs[j]) for c in sigs)):
                out.append((i, j))
    return out


def is_listed_ambiguity(it, i, j):
    return it["name"] == KF_AMBIG_DISPATCHER and {fname(it["funcs"][i]), fname(it["funcs"][j])} == set(KF_AMBIG_RULES)


def instantiate(U, rng, tr, argpool, depth=0):
    """a random argument type below (usually) the pattern `tr`"""
    k = tr[0]
    if k == "any":
        return rng.choice(argpool)
    if k == "u":
        return instantiate(U, rng, rng.choice(tr[1]), argpool, depth + 1)
    if k == "c":
        if tr[1] == U.kTuple:
            return ("t", tuple(rng.choice(argpool) for _ in range(rng.choice([0, 1, 2]))))
        if tr[1] == U.kFs:
            return rng.choice([("fb",), ("f", rng.choice(argpool))])
        below = [i for i in range(len(U.classes)) if U.L(i, tr[1]) and not U.fn[i]]
        return ("c", rng.choice(below)) if below and rng.random() < 0.7 else tr
    if k == "tb":
        return ("t", tuple(rng.choice(argpool) for _ in range(rng.choice([0, 1, 2]))))
    if k == "t":
        return ("t", tuple(instantiate(U, rng, x, argpool, depth + 1) for x in tr[1]))
    if k == "tv":
        return ("t", tuple(instantiate(U, rng, tr[1], argpool, depth + 1) for _ in range(rng.choice([0, 1, 2, 3]))))
    if k == "fb":
        return rng.choice([("fb",), ("f", rng.choice(argpool))])
    if k == "f":
        return ("f", instantiate(U, rng, tr[1], argpool, depth + 1))
    if k == "g":
        cands = [t for t in argpool if t[0] == "g" and U.L(t[1], tr[1]) and t[2]]
        if tr[2]:
            cands = [t for t in cands if len(t[2]) == len(tr[2])]
            if cands and rng.random() < 0.5:
                base = rng.choice(cands)
                return ("g", base[1], tuple(instantiate(U, rng, x, argpool, depth + 1) if rng.random() < 0.8 else y
                                            for x, y in zip(tr[2], base[2])))
            return ("g", tr[1], tuple(instantiate(U, rng, x, argpool, depth + 1) for x in tr[2]))
        if cands:
            return rng.choice(cands)
        below = [i for i in range(len(U.classes)) if U.L(i, tr[1]) and U.fn[i]]
        c = U.classes[rng.choice(below)]
        nf = len(getattr(c, "_ast_fields", ()))
        return ("g", U.ids[c], tuple(rng.choice(argpool) for _ in range(nf)))
    raise ValueError(tr)


def gen_dispatch_cases(ctx, U, D, observed):
    rng = ctx.rng
    argpool = set()
    obs_cases = []
    for di, types in observed:
        try:
            alts = tuple(U.enc_alt(t) for t in types)
        except Unsupported:
            ctx.count("dispatch:observed-unsupported")
            continue
        for a in alts:
            if is_argtype(a[1]):
                argpool.add(a[1])
        obs_cases.append((di, tuple(a[1] for a in alts), "observed"))
    import funsor.ops as ops
    for c in (int, str, float, np.ndarray, ops.AddOp, ops.MulOp, ops.LogaddexpOp, ops.NullOp, ops.ExpOp, OrderedDict):
        argpool.add(("c", U.ids[c]))
    argpool = sorted(argpool, key=repr)
    obs_cases = sorted(set(obs_cases), key=repr)
    rng.shuffle(obs_cases)
    cases = obs_cases[: (300 if ctx.tier == "quick" else 2000)]
    per_sig = 6 if ctx.tier == "quick" else 40
    for di, it in enumerate(D.items):
        for si, sig in enumerate(it["enc"]):
            for rep in range(per_sig):
                tys = []
                for s in sig:
                    if s[0] == "v":
                        for _ in range(rng.choice([0, 1, 2, 3])):
                            tys.append(instantiate(U, rng, rng.choice(s[1])[1], argpool))
                    else:
                        tys.append(instantiate(U, rng, s[1], argpool))
                r = rng.random()
                if tys and r < 0.25:      # near miss: replace one argument
                    tys[rng.randrange(len(tys))] = rng.choice(argpool)
                elif r < 0.30:
                    tys.append(rng.choice(argpool))
                elif tys and r < 0.35:
                    tys.pop()
                try:
                    tys = tuple(canon(U, t) for t in tys)
                except Exception:
                    ctx.count("dispatch:uninstantiable")
                    continue
                if not all(is_argtype(t) for t in tys):
                    ctx.count("dispatch:not-an-argument-type")
                    continue
                cases.append((di, tys, f"sig{si}"))
    # targeted: argument tuples inside the overlap of every ambiguous pair of patterns
    for di, it in enumerate(D.items):
        for (i, j) in py_hidden_ambiguities(U, it):
            ctx.count("dispatch:hidden-ambiguous-pairs" + (":listed" if is_listed_ambiguity(it, i, j) else ":UNLISTED"))
            got = 0
            ei, ej = it["enc"][i], it["enc"][j]
            for attempt in range(300):
                si = (i, j)[attempt % 2]
                tys = []
                if len(ei) == len(ej) and not any(s[0] == "v" for s in ei + ej) and attempt % 3 != 2:
                    for sa, sb in zip(ei, ej):     # aim at the meet of the two patterns
                        tys.append(instantiate(U, rng, py_meet(U, sa[1], sb[1]), argpool))
                else:
                    for s in it["enc"][si]:
                        if s[0] == "v":
                            for _ in range(rng.choice([0, 1, 2])):
                                tys.append(instantiate(U, rng, rng.choice(s[1])[1], argpool))
                        else:
                            tys.append(instantiate(U, rng, s[1], argpool))
                try:
                    tys = tuple(canon(U, t) for t in tys)
                    rt = tuple(typing_wrap(U.dec(t)) for t in tys)
                except Exception:
                    continue
                if all(is_argtype(t) for t in tys) and real_matches(rt, it["sigs"][i]) and real_matches(rt, it["sigs"][j]):
                    cases.append((di, tys, f"overlap{i}-{j}"))
                    got += 1
                    if got >= 3:
                        break
    return cases


PY_DISPATCH = """
# replay for C16: dispatch of {name} on synthesised argument types
import typing, warnings
from typing import Any, Tuple, FrozenSet, Union
import numpy, collections
import funsor; funsor.set_backend("numpy")
import funsor.ops, funsor.ops.op, funsor.terms, funsor.tensor, funsor.delta, funsor.gaussian, funsor.cnf, funsor.domains
import funsor.adjoint, funsor.affine, funsor.approximations, funsor.constant, funsor.integrate, funsor.joint, funsor.montecarlo, funsor.optimizer, funsor.sum_product, funsor.recipes, funsor.precondition
from funsor.typing import typing_wrap
from multipledispatch.conflict import supercedes
from multipledispatch.dispatcher import variadic_signature_matches
from multipledispatch.variadic import isvariadic
import {regmod}, funsor.registry
_o = {regexpr}
_reg = _o if isinstance(_o, funsor.registry.KeyedRegistry) else _o.registry
d = _reg.registry[{key}]
types = tuple(map(typing_wrap, [{types}]))
def matches(sig):
    if len(sig) == len(types) and all(map(issubclass, types, sig)): return True
    return bool(len(sig) and isvariadic(sig[-1]) and variadic_signature_matches(types, sig))
f = d.dispatch(*types)
M = [s for s in d.funcs if matches(s)]
cand = [s for s in M if d.funcs[s] is f]
ok = any(not any(supercedes(o, s) and not supercedes(s, o) for o in M) for s in cand)
print("chosen", f, "matching", len(M))
FAILS = bool(M) and not ok
"""


def dispatch_python(U, it, tys):
    nm = it["name"]
    regname = nm[: nm.index("[")]
    mod = regname.rsplit(".", 1)[0]
    return PY_DISPATCH.format(name=nm, regmod=mod, regexpr=regname, key=cname(it["key"]),
                              types=", ".join(pyrepr(U, t) for t in tys))


def part_dispatch(ctx, U, D, observed, use_driver=True, kf_cases=None):
    cases = gen_dispatch_cases(ctx, U, D, observed)
    rng = ctx.rng
    results = {}
    if kf_cases is None:
        kf_cases = []
    reqs = []
    for ci, (di, tys, origin) in enumerate(cases):
        it = D.items[di]
        d = it["disp"]
        real_types = tuple(typing_wrap(U.dec(t)) for t in tys)
        try:
            with warnings.catch_warnings():
                warnings.simplefilter("ignore")
                f = d.dispatch(*real_types)
        except TypeError as e:
            ctx.count("dispatch:real-raised-TypeError")
            results[ci] = ("raised", None)
            f = "raised"
        if f != "raised":
            if f is None:
                results[ci] = ("none", None)
            else:
                ok, M, cand, least = real_most_specific(it, real_types, f)
                results[ci] = ("found", cand)
                ctx.count(f"dispatch:matching={min(len(M), 4)}{'+' if len(M) >= 4 else ''}")
                if kf_ambiguity_region(it, real_types):
                    # region of the open finding: handled by its dedicated stream, not by the clean one
                    ctx.count("dispatch:in-region-of-" + KF_AMBIG)
                    kf_cases.append((it, tys, real_types, f, least))
                elif not least:
                    sup = md_conflict.supercedes
                    mins = [i for i in M if not any(sup(it["sigs"][j], it["sigs"][i]) and not sup(it["sigs"][i], it["sigs"][j]) for j in M)]
                    ctx.fail("input", "C16.no-most-specific-rule",
                             witness=dict(dispatcher=it["name"], types=[tshow(U, t) for t in tys], chosen=fname(f),
                                          incomparable_minimal=[dict(sig=[tshow(U, s) for s in it["enc"][i]], rule=fname(it["funcs"][i])) for i in mins],
                                          tree=list(tys)),
                             expected="a matching pattern at least as specific as every other matching pattern",
                             got=f"{len(mins)} pairwise incomparable minimal matching patterns; {fname(f)} runs",
                             python=dispatch_python(U, it, tys).replace("FAILS = bool(M) and not ok",
                                                                        "FAILS = bool(M) and not any(all(supercedes(s, o) for o in M) for s in cand)"))
                    return None
                if not ok:
                    ctx.fail("input", "C16.chosen-rule-not-most-specific",
                             witness=dict(dispatcher=it["name"], types=[tshow(U, t) for t in tys], chosen=fname(f),
                                          matching=[[tshow(U, s) for s in it["enc"][i]] for i in M], tree=list(tys)),
                             expected="a rule whose signature no other matching signature strictly supercedes",
                             got=fname(f), python=dispatch_python(U, it, tys))
                    return None
        ctx.count(f"dispatch:origin:{'observed' if origin == 'observed' else 'synthesised'}")
        reqs.append(f"C16 dispatch {di} (" + " ".join("(w " + tsx(t) + ")" if t[0] != "g" else "(n " + tsx(t) + ")" for t in tys) + ")")
    if use_driver:
        hid = ctx.driver.ask([f"C16 hidden {di}" for di in range(len(D.items))])
        for di, (it, a) in enumerate(zip(D.items, hid)):
            mine = py_hidden_ambiguities(U, it)
            lean = [(int(p[0]), int(p[1])) for p in (parse_sx(a[3:]) if a.startswith("ok ") else [])] if a != "ok ()" else []
            if sorted(mine) != sorted(lean):
                ctx.infra_errors.append(f"hidden ambiguities of {it['name']}: python {mine} vs Lean {a}")
                return None
    if use_driver:
        ans = ctx.driver.ask(reqs)
        for ci, ((di, tys, origin), a) in enumerate(zip(cases, ans)):
            it = D.items[di]
            if not a.startswith("ok "):
                ctx.infra_errors.append(f"driver: {a} on {reqs[ci][:300]}")
                return None
            p = parse_sx("(" + a[3:] + ")")
            res, matching, minimal, least = p[0], p[1], p[2], p[3]
            kind, cand = results[ci]
            mk = res if isinstance(res, str) else "found"
            ctx.count(f"dispatch:model:{mk}")
            if mk == "found":
                mi = int(res[1])
                # run-time echo of first_match_minimal
                if str(mi) not in [str(x) for x in minimal]:
                    ctx.infra_errors.append(f"Lean model: first match {mi} not minimal among {matching} on {reqs[ci][:300]}")
                    return None
                if [str(x) for x in least]:
                    ctx.count("dispatch:model:least-exists")
                else:
                    ctx.count("dispatch:model:no-least-element")
            agree = (mk == kind) and (mk != "found" or it["funcs"][int(res[1])] is it["funcs"][cand[0]] if cand else mk == kind)
            if kind == "found" and mk == "found":
                agree = any(it["funcs"][int(res[1])] is it["funcs"][c] for c in cand)
            if not agree:
                ctx.fail("correspondence", "C16.dispatch-vs-model",
                         witness=dict(dispatcher=it["name"], types=[tshow(U, t) for t in tys], real=kind,
                                      real_candidates=cand, model=a, tree=list(tys)),
                         expected=f"model: {a}", got=f"real: {kind} {cand}", python=dispatch_python(U, it, tys))
                return None
            nm = len(matching)
            ctx.case(sample=dict(dispatcher=it["name"], types=[tshow(U, t) for t in tys], result=a) if ci % 397 == 3 else None,
                     nontrivial_key=("disp", di, tys) if nm >= 2 else None)
    return cases, results


def fabricate_args(U, tys):
    return tuple(fake_value(U, t)[0] for t in tys)


def part_cache_and_order(ctx, U, D, cases, results):
    """the same dispatches through the cached entry point (KeyedRegistry.dispatch -> partial_call),
    repeated after clearing every cache, in shuffled order"""
    rng = ctx.rng
    usable = []
    for ci, (di, tys, origin) in enumerate(cases):
        if results[ci][0] != "found":
            continue
        try:
            args = fabricate_args(U, tys)
            if tuple(U.enc(deep_type(a)) for a in args) != tuple(tys):
                ctx.count("cache:fabricated-type-differs")
                continue
        except (Unsupported, NotImplementedError, TypeError):
            ctx.count("cache:not-fabricable")
            continue
        usable.append((ci, di, args))
    ctx.count("cache:cases", len(usable))

    def run_all(order):
        out = {}
        for idx in order:
            ci, di, args = usable[idx]
            it = D.items[di]
            f = it["reg"].dispatch(it["key"], *args)
            out[ci] = f
        return out
    base = run_all(range(len(usable)))
    for ci, di, args in usable:
        it = D.items[di]
        kind, cand = results[ci]
        f = base[ci]
        if not any(it["funcs"][c] is f for c in cand):
            ctx.fail("input", "C16.partial_call-differs-from-dispatch",
                     witness=dict(dispatcher=it["name"], types=[tshow(U, t) for t in cases[ci][1]], via_types=[fname(it["funcs"][c]) for c in cand], via_call=fname(f)),
                     expected="same rule", got=fname(f), python=dispatch_python(U, it, cases[ci][1]))
            return
    rounds = 3 if ctx.tier == "quick" else 8
    for r in range(rounds):
        mode = r % 3
        if mode in (0, 2):
            for it in D.items:
                it["disp"]._cache.clear()
        if mode in (1, 2) and hasattr(deep_issubclass, "cache_clear"):
            deep_issubclass.cache_clear()
        if mode == 2:
            for it in D.items:     # force the ordering to be recomputed as well
                try:
                    del it["disp"]._ordering
                except AttributeError:
                    pass
        order = list(range(len(usable)))
        rng.shuffle(order)
        with warnings.catch_warnings():
            warnings.simplefilter("ignore")
            again = run_all(order)
        ctx.count("cache:repeat-rounds")
        for ci, di, args in usable:
            if again[ci] is not base[ci]:
                it = D.items[di]
                ctx.fail("input", "C16.dispatch-depends-on-history",
                         witness=dict(dispatcher=it["name"], types=[tshow(U, t) for t in cases[ci][1]], first=fname(base[ci]),
                                      after=fname(again[ci]), round=r, cleared=["_cache", "lru", "_cache+lru+_ordering"][mode]),
                         expected=fname(base[ci]), got=fname(again[ci]), python=dispatch_python(U, it, cases[ci][1]))
                return
    return usable, base


WORKER = r"""
import json, random, sys, warnings
sys.path.insert(0, {verif!r})
import os
os.environ["FUNSOR_REPO"] = {repo!r}
from fv.harness import c16
U, D = c16.state()
job = json.load(open({job!r}))
assert U.names == job["names"], "leaf universe differs between processes"
rng = random.Random(job["seed"])
order = list(range(len(job["cases"])))
rng.shuffle(order)
out = {{}}
def tup(x):
    return tuple(tup(y) for y in x) if isinstance(x, list) else x
with warnings.catch_warnings():
    warnings.simplefilter("ignore")
    for idx in order:
        name, tys = job["cases"][idx]
        it = next(i for i in D.items if i["name"] == name)
        args = c16.fabricate_args(U, [tup(t) for t in tys])
        f = it["reg"].dispatch(it["key"], *args)
        sigs = [i for i, g in enumerate(it["funcs"]) if g is f]
        out[idx] = [c16.fname(f), sigs]
orders = {{it["name"]: it["order"] for it in D.items}}
json.dump(dict(out=out, orders=orders), open({res!r}, "w"))
"""


def part_subprocess(ctx, U, D, cases, usable, base):
    """fresh interpreter processes (different hash seeds / addresses), shuffled first-use order"""
    import tempfile
    nproc = 2 if ctx.tier == "quick" else 5
    sel = usable if len(usable) <= 600 else ctx.rng.sample(usable, 600)
    job = dict(names=U.names, cases=[[D.items[di]["name"], list(cases[ci][1])] for ci, di, _ in sel])
    tmp = tempfile.mkdtemp(prefix="c16_")
    procs = []
    for p in range(nproc):
        job["seed"] = ctx.seed * 100 + p
        jf, rf = os.path.join(tmp, f"job{p}.json"), os.path.join(tmp, f"res{p}.json")
        json.dump(job, open(jf, "w"))
        code = WORKER.format(verif=str(LEAN.parent), repo=str(REPO), job=jf, res=rf)
        env = dict(os.environ)
        env["PYTHONHASHSEED"] = str(1000 + p)
        env["FUNSOR_REPO"] = str(REPO)
        env.pop("PYTHONPATH", None)
        procs.append((subprocess.Popen([sys.executable, "-B", "-c", code], env=env, stdout=subprocess.PIPE,
                                       stderr=subprocess.PIPE, text=True), rf))
    orders_seen = {}
    for p, (pr, rf) in enumerate(procs):
        so, se = pr.communicate(timeout=900)
        if pr.returncode != 0:
            ctx.infra_errors.append(f"dispatch worker {p} failed: {se[-1500:]}")
            return
        res = json.load(open(rf))
        ctx.count("subprocess:runs")
        for idx, (ci, di, _) in enumerate(sel):
            nm, sigs = res["out"][str(idx)]
            it = D.items[di]
            if nm != fname(base[ci]):
                ctx.fail("input", "C16.dispatch-differs-between-processes",
                         witness=dict(dispatcher=it["name"], types=[tshow(U, t) for t in cases[ci][1]], here=fname(base[ci]), there=nm),
                         expected=fname(base[ci]), got=nm, python=dispatch_python(U, it, cases[ci][1]))
                return
            ctx.count("subprocess:dispatches")
        for name, o in res["orders"].items():
            orders_seen.setdefault(name, set()).add(tuple(o))
    # the orderings other processes computed must also be linear extensions for the model, and give
    # an equally specific answer (asked to the model with the explicit ordering)
    differing = {n: o for n, o in orders_seen.items() if len(o | {tuple(next(i for i in D.items if i["name"] == n)["order"])}) > 1}
    ctx.count("subprocess:dispatchers-with-process-dependent-ordering", len(differing))


# ----------------------------------------------------------------------------------------
# real terms obtained through multi-step histories (built lazily, then REBUILT by interpreters)
# ----------------------------------------------------------------------------------------

HIST_PRELUDE = """
import gc, warnings
from collections import OrderedDict
import numpy as np
import funsor; funsor.set_backend("numpy")
import funsor.ops as ops
from funsor.tensor import Tensor
from funsor.terms import Variable, Number, Funsor, Unary, Binary, Stack, Lambda
from funsor.terms import Tuple as FTuple
from funsor.domains import Bint, Real, Reals
from funsor.gaussian import Gaussian
from funsor.interpretations import eager, lazy, reflect, normalize, moment_matching
from funsor.interpreter import reinterpret
from funsor.optimizer import apply_optimizer
from funsor.typing import deep_type, deep_isinstance, get_origin, get_args
import typing
I = OrderedDict
def mk(seed):
    r = np.random.RandomState(seed)
    a = Tensor(r.rand(2, 3), I(i=Bint[2], j=Bint[3]))
    b = Tensor(r.rand(3) + 1, I(j=Bint[3]))
    def g():
        p = r.rand(2, 2); p = p @ p.T + np.eye(2)
        return Gaussian(white_vec=r.rand(2), prec_sqrt=np.linalg.cholesky(p), inputs=I(z=Reals[2]))
    return a, b, g(), g(), Variable("x", Real), Variable("y", Reals[2])
def precise(v):
    # the precise type of a value recomputed from its actual constituents (never from type(child))
    if isinstance(v, Funsor):
        return get_origin(type(v))[tuple(precise(c) for c in v._ast_values)]
    if isinstance(v, tuple):
        return typing.Tuple[tuple(precise(c) for c in v)] if v else typing.Tuple
    return deep_type(v)
def nodes(v, out):
    if isinstance(v, Funsor):
        out.append(v)
        for c in v._ast_values:
            nodes(c, out)
    elif isinstance(v, (tuple, frozenset)):
        for c in v:
            nodes(c, out)
    return out
"""

# (name, lazy construction, rebuild) — in each, some child changes class when rebuilt while its
# parent has no rewrite rule and is re-created by the interpreter from type(parent) and new children
HISTORIES = [
    ("exp-of-gaussian-sum", "with reflect:\n    t0 = (g1 + g2).exp()", "t = reinterpret(t0)"),
    ("binary-over-tensor-product", "with reflect:\n    t0 = (a * b) + x", "t = reinterpret(t0)"),
    ("binary-over-reduce", "with reflect:\n    t0 = a.reduce(ops.add, 'i') * x", "t = reinterpret(t0)"),
    ("binary-over-subs", "with reflect:\n    t0 = a(i=1) + x", "t = reinterpret(t0)"),
    ("unary-over-binary-over-product", "with reflect:\n    t0 = ((a * b) + x).exp()", "t = reinterpret(t0)"),
    ("stack-of-rebuilt", "with reflect:\n    t0 = Stack('s', (a * b, (a * b) + x))", "t = reinterpret(t0)"),
    ("tuple-of-rebuilt", "with reflect:\n    t0 = FTuple((a * b, x + (a + b)))", "t = reinterpret(t0)"),
    ("lambda-of-rebuilt", "with reflect:\n    t0 = Lambda(Variable('i', Bint[2]), (a * b) + x)", "t = reinterpret(t0)"),
    ("lazy-then-eager", "with lazy:\n    t0 = ((a * b).reduce(ops.add, 'j') + x).exp()", "t = reinterpret(t0)"),
    ("lazy-then-normalize", "with lazy:\n    t0 = (a * b) + x", "with normalize:\n    t = reinterpret(t0)"),
    ("reflect-then-normalize", "with reflect:\n    t0 = ((g1 + g2) + b).exp()", "with normalize:\n    t = reinterpret(t0)"),
    ("reflect-then-moment-matching", "with reflect:\n    t0 = ((g1 + g2) + b).exp()", "with moment_matching:\n    t = reinterpret(t0)"),
    ("optimizer", "with lazy:\n    t0 = ((a * b) + x).reduce(ops.add, 'i')", "t = apply_optimizer(t0)"),
    ("gaussian-plus-tensor-under-variable", "with reflect:\n    t0 = (g1 + b) + y[0]", "t = reinterpret(t0)"),
]

HIST_CHECK = """
bad = [n for n in nodes(t, []) if type(n) is not precise(n)]
own = [n for n in nodes(t, []) if not deep_isinstance(n, precise(n))]
print("nodes", len(nodes(t, [])), "stale-typed", [(type(n), precise(n)) for n in bad][:2])
FAILS = bool(bad or own)
"""


def real_val_tree(U, v):
    """value tree of a REAL object for the model's deepType"""
    from funsor.terms import Funsor
    if isinstance(v, Funsor):
        o = get_origin(type(v))
        if o not in U.ids:
            raise Unsupported(repr(o))
        return ("term", U.ids[o], tuple(real_val_tree(U, c) for c in v._ast_values))
    if isinstance(v, tuple):
        return ("tuple", tuple(real_val_tree(U, c) for c in v))
    if isinstance(v, frozenset):
        return ("fset", tuple(real_val_tree(U, c) for c in v))
    if type(v) not in U.ids:
        raise Unsupported(repr(type(v)))
    return ("o", U.ids[type(v)])


def real_vsx(vt):
    if vt[0] == "o":
        return f"(o {vt[1]})"
    if vt[0] == "term":
        return "(" + " ".join(["term", str(vt[1])] + [real_vsx(x) for x in vt[2]]) + ")"
    return "(" + " ".join([vt[0]] + [real_vsx(x) for x in vt[1]]) + ")"


def part_rebuilt_terms(ctx, U, D, clean, use_driver=True):
    """every node of every term produced by a multi-step history must carry, as class parameters, the
    deep types of its ACTUAL arguments; be an instance of that type and of its generalisations; and
    dispatch like a structurally equal term described by freshly computed types — with and without
    another live copy of the same term in the cons cache."""
    import gc
    import funsor.ops as ops
    from funsor.terms import Funsor
    g = {}
    exec(HIST_PRELUDE, g)
    precise, nodes = g["precise"], g["nodes"]
    patterns = [t for t in clean if t[0] == "g"]
    reqs = []
    seed0 = ctx.rng.randrange(10 ** 6)
    for hi, (name, build, rebuild) in enumerate(HISTORIES):
        for variant in ("no-live-copy", "live-copy-held", "after-gc"):
            ns = dict(g)
            ns["a"], ns["b"], ns["g1"], ns["g2"], ns["x"], ns["y"] = g["mk"](seed0 + hi)
            src = build + "\n" + rebuild
            try:
                with warnings.catch_warnings():
                    warnings.simplefilter("ignore")
                    if variant == "live-copy-held":
                        # the same term built directly (eagerly) and kept alive: the rebuilt one may be
                        # answered from the cons cache
                        exec(build.split("\n", 1)[1].strip().replace("t0 =", "held =", 1), ns)
                    exec(src, ns)
                    if variant == "after-gc":
                        ns.pop("t0", None)
                        gc.collect()
            except Exception as e:   # noqa
                ctx.count(f"rebuilt:history-raised:{name}")
                continue
            t = ns["t"]
            ctx.count("rebuilt:histories")
            replay = HIST_PRELUDE + f"a, b, g1, g2, x, y = mk({seed0 + hi})\n" + src + "\n" + HIST_CHECK
            for n in nodes(t, []):
                ctx.count("rebuilt:nodes")
                want = precise(n)
                if type(n) is not want:
                    ctx.fail("input", "C16.rebuilt-term-type-parameters-stale",
                             witness=dict(history=name, variant=variant, type=repr(type(n)), precise=repr(want)),
                             expected=f"type(term) is {want!r} (origin class subscripted by the deep types of its actual arguments)",
                             got=repr(type(n)), python=replay)
                    return
                try:
                    own = deep_isinstance(n, want) and all(deep_isinstance(c, p) for c, p in zip(n._ast_values, get_args(type(n))))
                except Exception as e:   # noqa
                    own = False
                if not own:
                    ctx.fail("input", "C16.instance-of-own-type", witness=dict(history=name, variant=variant, type=repr(want)),
                             expected="deep_isinstance(term, its precise type)", got="False", python=replay)
                    return
                # upward closure against every registered / pooled class pattern
                try:
                    wt = U.enc(want)
                except Unsupported:
                    wt = None
                if wt is not None:
                    for p in patterns:
                        if real_sub(U, wt, p) == "T":
                            ctx.count("rebuilt:generalisations")
                            if not deep_isinstance(n, U.dec(p)):
                                ctx.fail("input", "C16.instance-upward-closure",
                                         witness=dict(history=name, variant=variant, precise=tshow(U, wt), pattern=tshow(U, p)),
                                         expected="instance of every generalisation of its precise type", got="not an instance", python=replay)
                                return
                    if use_driver:
                        try:
                            reqs.append((f"C16 deeptype {real_vsx(real_val_tree(U, n))}", tsx(U.enc(type(n))), name))
                        except Unsupported:
                            ctx.count("rebuilt:beyond-table")
            # the term as an ARGUMENT of further dispatches: live object vs freshly computed types
            probes = [("Unary", (ops.log, t)), ("Unary", (ops.exp, t)), ("Unary", (ops.neg, t)),
                      ("Binary", (ops.add, t, ns["x"])), ("Binary", (ops.mul, t, ns["x"])), ("Binary", (ops.add, ns["b"], t)),
                      ("Reduce", (ops.add, t, frozenset([ns["x"]]))), ("Reduce", (ops.logaddexp, t, frozenset([ns["x"]])))]
            for it in D.items:
                for kname, args in probes:
                    if it["key"].__name__ != kname:
                        continue
                    try:
                        with warnings.catch_warnings():
                            warnings.simplefilter("ignore")
                            f_live = it["reg"].dispatch(it["key"], *args)
                            f_fresh = it["disp"].dispatch(*tuple(typing_wrap(precise(x)) for x in args))
                    except TypeError:
                        ctx.count("rebuilt:dispatch-raised")
                        continue
                    ctx.count("rebuilt:dispatches")
                    if getattr(f_live, "default", f_live) is not getattr(f_fresh, "default", f_fresh):
                        ctx.fail("input", "C16.dispatch-depends-on-history",
                                 witness=dict(history=name, variant=variant, dispatcher=it["name"], args=[repr(deep_type(x)) for x in args],
                                              on_rebuilt_term=fname(f_live), on_fresh_types=fname(f_fresh)),
                                 expected=fname(f_fresh), got=fname(f_live), python=replay)
                        return
            ctx.case(sample=dict(history=name, variant=variant, type=repr(type(t))[:200]) if variant == "no-live-copy" and hi < 2 else None,
                     nontrivial_key=("rebuilt", name, variant))
    if use_driver and reqs:
        ans = ctx.driver.ask([r for r, _, _ in reqs])
        for (rq, want, name), a in zip(reqs, ans):
            ctx.count("rebuilt:deeptype-vs-model")
            if a != "ok " + want:
                ctx.fail("correspondence", "C16.deep_type-vs-model", witness=dict(history=name, request=rq[:500], real=want[:500], model=a[:500]))
                break


def part_supercedes(ctx, U, D):
    """real multipledispatch.conflict.supercedes / consistent vs the model, on every ordered pair of
    registered signatures of every dispatcher and on synthetic signatures registered through a
    throw-away PartialDispatcher (top-level Union next to a bare funsor class, shared Variadic object,
    variadic vs fixed of several lengths)."""
    import funsor.ops as ops
    from funsor.terms import Funsor, Number
    from funsor.tensor import Tensor
    pairs = []
    for it in D.items:
        for i, a in enumerate(it["sigs"]):
            for j, b in enumerate(it["sigs"]):
                pairs.append((a, b, it["enc"][i], it["enc"][j], it["name"]))
    pd = PartialDispatcher(name="c16-synthetic")
    V = ftyping.Variadic[Funsor]
    synth = [(ops.Op, typing.Union[Number, Tensor], Funsor), (ops.Op, Funsor, Funsor), (ops.Op, Number, Funsor),
             (ops.Op, (Number, Tensor), V), (ops.AddOp, Funsor, V), (ops.Op,), (ops.Op, [Funsor]), (ops.Op, Funsor),
             (ops.Op, Funsor, [Tensor]), ([object],), (typing.Tuple[Funsor, ...], str), (tuple, str),
             (typing.Tuple[typing.Union[Number, Tensor], ...], str), (typing.Union[typing.Tuple[int], str], str), (str, str)]
    for sg in synth:
        pd.add(sg, lambda *a: None)
    ss = list(pd.funcs)
    try:
        es = [U.enc_sig(x) for x in ss]
    except Unsupported as e:
        ctx.fail("correspondence", "C16.cannot-follow:synthetic-signature", detail=str(e))
        return
    for i, a in enumerate(ss):
        for j, b in enumerate(ss):
            pairs.append((a, b, es[i], es[j], "synthetic"))

    def real(fn, a, b):
        try:
            return "T" if fn(a, b) else "F"
        except TypeError:
            return "E"
        except AssertionError:
            return "A"
    reqs = []
    for a, b, ea, eb, _ in pairs:
        reqs.append(f"C16 sup {sigsx(ea)} {sigsx(eb)}")
        reqs.append(f"C16 cons {sigsx(ea)} {sigsx(eb)}")
    ans = ctx.driver.ask(reqs)
    for k, (a, b, ea, eb, nm) in enumerate(pairs):
        rs, rc = real(md_conflict.supercedes, a, b), real(md_conflict.consistent, a, b)
        ms, mc = ans[2 * k][3:], ans[2 * k + 1][3:]
        ctx.count(f"supercedes:{'synthetic' if nm == 'synthetic' else 'registered'}-pairs")
        if rs != ms or (rc != mc and rc != "A"):
            ctx.fail("correspondence", "C16.supercedes-vs-model",
                     witness=dict(where=nm, a=[tshow(U, s) for s in ea], b=[tshow(U, s) for s in eb],
                                  real=dict(supercedes=rs, consistent=rc), model=dict(supercedes=ms, consistent=mc)))
            return
    # the top-level-Union observation, on the real code: mutually non-superseding although Union <= Funsor
    a, b = ss[0], ss[1]
    ctx.count("supercedes:toplevel-union-vs-bare-class-incomparable:" +
              str(not md_conflict.supercedes(a, b) and not md_conflict.supercedes(b, a)))


# ----------------------------------------------------------------------------------------
# throw-away registries: patterns that differ only INSIDE a container, all first-use orders
# ----------------------------------------------------------------------------------------

def pysrc_value(U, tr):
    """python source of a value whose deep_type is the argument type `tr` (mirror of fake_value)"""
    k = tr[0]
    if k == "c":
        c = U.classes[tr[1]]
        special = {int: "0", str: "'x'", float: "0.5", bool: "True", type: "int", bytes: "b''", type(None): "None"}
        if c in special:
            return special[c]
        if c is np.ndarray:
            return "numpy.zeros(())"
        n = cname(c)
        if n == "funsor.domains.RealsType":
            return "funsor.domains.Real"
        if n == "funsor.domains.BintType":
            return "funsor.domains.Bint[2]"
        return f"object.__new__({pyrepr(U, tr)})"
    if k == "g":
        return f"object.__new__({pyrepr(U, tr)})"
    if k in ("tb",):
        return "()"
    if k == "t":
        return "(" + "".join(pysrc_value(U, x) + ", " for x in tr[1]) + ")"
    if k == "fb":
        return "frozenset()"
    if k == "f":
        return f"frozenset([{pysrc_value(U, tr[1])}])"
    raise Unsupported(tr)


PY_CONTAINER = """
# replay for C16: throw-away registry '{name}', first-use order {order}
import typing, itertools
from typing import Any, Tuple, FrozenSet, Union
import numpy
import funsor; funsor.set_backend("numpy")
import funsor.ops, funsor.ops.op, funsor.terms, funsor.tensor, funsor.domains, funsor.gaussian, funsor.delta, funsor.cnf
from funsor.registry import KeyedRegistry
from funsor.typing import deep_type, typing_wrap
KEY = {key}
PATTERNS = [{patterns}]
SUBJECTS = [{subjects}]
def fresh():
    r = KeyedRegistry(default=lambda *a: "default")
    for i, p in enumerate(PATTERNS):
        r.register(KEY, *p)((lambda i: (lambda *a: i))(i))
    return r
def history_free(args):
    d = fresh().registry[KEY]
    return d.dispatch(*map(typing_wrap, map(deep_type, args)))(*args)
FAILS = False
for order in itertools.permutations(range(len(SUBJECTS))):
    r = fresh()
    for j in order:
        got = r.dispatch(KEY, *SUBJECTS[j])(*SUBJECTS[j])
        if got != history_free(SUBJECTS[j]):
            print("order", order, "subject", j, "got rule", got, "history-free dispatch gives", history_free(SUBJECTS[j]))
            FAILS = True
"""


def container_scenarios(U):
    import funsor.ops as ops
    from funsor.terms import Funsor, Number, Variable, Reduce, Unary, Stack, Binary
    from funsor.tensor import Tensor
    import funsor.domains as Dm
    c = lambda x: ("c", U.ids[x])            # noqa: E731
    g = lambda x, *a: ("g", U.ids[x], tuple(a))   # noqa: E731
    assoc, addop, fun = c(ops.AssociativeOp), c(ops.AddOp), g(Funsor)
    s_, bint, reals, nd = c(str), c(Dm.BintType), c(Dm.RealsType), c(np.ndarray)
    vb, vr, v0 = g(Variable, s_, bint), g(Variable, s_, reals), g(Variable)
    ten = g(Tensor, nd, ("t", (("t", (s_, bint)),)), s_)
    num = g(Number, c(int), s_)
    fsC, tupC = c(frozenset), c(tuple)
    red = lambda fs: g(Reduce, addop, ten, fs)      # noqa: E731
    return [
        dict(name="frozenset-elements", key=Reduce,
             patterns=[(assoc, fun, fsC), (assoc, fun, ("f", vb)), (assoc, fun, ("f", vr))],
             subjects=[(addop, ten, ("f", vb)), (addop, ten, ("f", vr)), (addop, ten, ("f", v0)), (addop, ten, ("fb",))]),
        dict(name="variadic-tuple-elements", key=Stack,
             patterns=[(s_, tupC), (s_, ("tv", g(Tensor))), (s_, ("tv", g(Number))), (s_, ("tv", ("u", (g(Number), g(Tensor)))))],
             subjects=[(s_, ("t", (ten, ten))), (s_, ("t", (num, num))), (s_, ("t", (num, ten))), (s_, ("t", (vb, ten)))]),
        dict(name="fixed-tuple-elements", key=Stack,
             patterns=[(s_, tupC), (s_, ("t", (g(Tensor), g(Number)))), (s_, ("t", (g(Number), g(Tensor)))), (s_, ("t", (g(Funsor), g(Funsor))))],
             subjects=[(s_, ("t", (ten, num))), (s_, ("t", (num, ten))), (s_, ("t", (ten, ten))), (s_, ("t", (ten, num, num)))]),
        dict(name="nested-class-parameter-frozenset", key=Unary,
             patterns=[(c(ops.op.Op), g(Reduce)), (c(ops.op.Op), g(Reduce, assoc, fun, ("f", vb))),
                       (c(ops.op.Op), g(Reduce, assoc, fun, ("f", vr)))],
             subjects=[(c(ops.ExpOp), red(("f", vb))), (c(ops.ExpOp), red(("f", vr))), (c(ops.ExpOp), red(("f", v0)))]),
        dict(name="union-with-base-class-member", key=Unary,
             patterns=[(c(ops.op.Op), ("any",)),      # (a bare Funsor here would be incomparable to the top-level Union below)
                       (c(ops.op.Op), g(Binary, addop, ("u", (g(Number), g(Source))), fun)),
                       (c(ops.op.Op), g(Binary, addop, ("u", (g(Number), fun)), fun)),
                       (c(ops.op.Op), ("u", (g(Tensor), g(Source))))],
             subjects=[(c(ops.ExpOp), g(Binary, addop, g(Sensor, s_, c(int)), num)), (c(ops.ExpOp), g(Binary, addop, ten, ten)),
                       (c(ops.ExpOp), g(Sensor, s_, c(int))), (c(ops.ExpOp), ten), (c(ops.ExpOp), num)]),
        dict(name="frozenset-of-tuples", key=Reduce,
             patterns=[(assoc, fsC), (assoc, ("f", ("t", (s_, g(Tensor))))), (assoc, ("f", ("t", (s_, g(Number))))), (assoc, ("f", tupC))],
             subjects=[(addop, ("f", ("t", (s_, ten)))), (addop, ("f", ("t", (s_, num)))), (addop, ("f", ("t", (s_, vb)))), (addop, ("f", s_))]),
    ]


def part_container_registries(ctx, U, use_driver=True):
    """fresh public KeyedRegistry per first-use order; argument tuples that differ only inside a
    container; cached entry point vs history-free dispatch on the deep types (real) vs the model"""
    rng = ctx.rng
    for sc in container_scenarios(U):
        key = sc["key"]
        pats = [tuple(U.dec(canon(U, t)) for t in p) for p in sc["patterns"]]
        subj_trees = [tuple(canon(U, t) for t in sj) for sj in sc["subjects"]]
        try:
            subjects = [tuple(fake_value(U, t)[0] for t in sj) for sj in subj_trees]
        except Unsupported as e:
            ctx.infra_errors.append(f"container scenario {sc['name']}: cannot fabricate {e}")
            return
        for sj, tr in zip(subjects, subj_trees):
            if tuple(U.enc(deep_type(a)) for a in sj) != tr:
                ctx.infra_errors.append(f"container scenario {sc['name']}: fabricated value has another deep type")
                return

        def fresh():
            r = KeyedRegistry(default=lambda *a: None)
            for i, p in enumerate(pats):
                r.register(key, *p)((lambda i: (lambda *a: i))(i))
            return r
        ref = fresh()
        d = ref.registry[key]
        sigs = list(d.funcs)
        with warnings.catch_warnings():
            warnings.simplefilter("ignore")
            order0 = [sigs.index(x) for x in d.ordering]
        enc = [U.enc_sig(x) for x in sigs]
        # history-free answers: real dispatch on the deep types, and the model
        want = []
        for sj in subjects:
            f = d.dispatch(*map(typing_wrap, map(deep_type, sj)))
            want.append(getattr(f, "default", f)(*sj) if f is not None else None)
        # brute-force most specific match: set-theoretic membership of the subject types in each pattern
        # (sem_subset), specificity by the python reference of the relation — independent of the real code
        ptrees = [tuple(canon(U, t) for t in p) for p in sc["patterns"]]
        for j, tr in enumerate(subj_trees):
            M = [i for i, p in enumerate(ptrees) if len(p) == len(tr) and all(sem_subset(U, a, b) for a, b in zip(tr, p))]
            best = [i for i in M if all(all(py_sub(U, x, y, kf=False) for x, y in zip(ptrees[i], ptrees[k])) for k in M)]
            ctx.count("container:brute-force-oracle")
            if len(best) == 1 and want[j] != best[0]:
                ctx.fail("input", "C16.chosen-rule-not-most-specific",
                         witness=dict(registry=sc["name"], subject=[tshow(U, t) for t in tr],
                                      patterns=[[tshow(U, t) for t in p] for p in ptrees], matching=M, most_specific=best[0], chosen=want[j]),
                         expected=f"rule #{best[0]}", got=f"rule #{want[j]}",
                         python=PY_CONTAINER.format(name=sc["name"], order="(all)", key=cname(key),
                                                    patterns=", ".join("(" + "".join(pyrepr(U, t) + ", " for t in p) + ")" for p in ptrees),
                                                    subjects=", ".join("(" + "".join(pysrc_value(U, t) + ", " for t in x) + ")" for x in subj_trees))
                         + f"\nr = fresh()\ngot = r.dispatch(KEY, *SUBJECTS[{j}])(*SUBJECTS[{j}])\nprint('subject {j} ->', got)\nFAILS = (got != {best[0]})\n")
                return
        if use_driver:
            reqs = [f"C16 dispatchx ({' '.join(sigsx(e) for e in enc)}) ({' '.join(map(str, order0))}) (" +
                    " ".join("(w " + tsx(t) + ")" if t[0] != "g" else "(n " + tsx(t) + ")" for t in tr) + ")"
                    for tr in subj_trees]
            ans = ctx.driver.ask(reqs)
            for j, a in enumerate(ans):
                p = parse_sx("(" + a[3:] + ")") if a.startswith("ok ") else None
                if p is None:
                    ctx.infra_errors.append(f"driver: {a}")
                    return
                mi = int(p[0][1]) if not isinstance(p[0], str) else None
                mf = d.funcs[sigs[mi]] if mi is not None else None
                mres = getattr(mf, "default", mf)(*subjects[j]) if mf is not None else None
                if mres != want[j]:
                    ctx.fail("correspondence", "C16.dispatch-vs-model",
                             witness=dict(registry=sc["name"], subject=[tshow(U, t) for t in subj_trees[j]], real=want[j], model=a))
                    return
                if not [x for x in p[3]]:
                    ctx.infra_errors.append(f"container scenario {sc['name']} subject {j}: no least matching pattern (scenario ill-designed)")
                    return
        replay = PY_CONTAINER.format(name=sc["name"], order="(all)", key=cname(key),
                                     patterns=", ".join("(" + "".join(pyrepr(U, canon(U, t)) + ", " for t in p) + ")" for p in sc["patterns"]),
                                     subjects=", ".join("(" + "".join(pysrc_value(U, t) + ", " for t in tr) + ")" for tr in subj_trees))
        perms = list(itertools.permutations(range(len(subjects))))
        for mode in ("no-clearing", "clear-between", "repeat-each"):
            for order in perms:
                r = fresh()
                seq = list(order) if mode != "repeat-each" else [j for j in order for _ in (0, 1)] + list(order)
                for j in seq:
                    if mode == "clear-between":
                        r.registry[key]._cache.clear()
                    f = r.dispatch(key, *subjects[j])
                    got = f(*subjects[j])
                    ctx.count("container:dispatches")
                    if got != want[j]:
                        ctx.fail("input", "C16.dispatch-depends-on-history",
                                 witness=dict(registry=sc["name"], mode=mode, first_use_order=[[tshow(U, t) for t in subj_trees[i]] for i in order],
                                              subject=[tshow(U, t) for t in subj_trees[j]],
                                              patterns=[[tshow(U, t) for t in p] for p in sc["patterns"]],
                                              got_rule=got, history_free_rule=want[j]),
                                 expected=f"rule #{want[j]} (dispatch on the deep types, fresh cache)", got=f"rule #{got}", python=replay)
                        return
                # the cache must be keyed by the deep types of the arguments
                keys = set(r.registry[key]._cache)
                exp = {tuple(map(typing_wrap, map(deep_type, subjects[j]))) for j in order}
                if mode == "no-clearing" and keys != exp:
                    ctx.fail("input", "C16.cache-key-does-not-determine-types",
                             witness=dict(registry=sc["name"], cache_keys=sorted(map(repr, keys))[:6], deep_types=sorted(map(repr, exp))[:6]),
                             expected="one cache entry per distinct tuple of deep types", got=f"{len(keys)} keys for {len(exp)} type tuples", python=replay)
                    return
            ctx.case(sample=dict(registry=sc["name"], mode=mode, orders=len(perms)) if mode == "no-clearing" else None,
                     nontrivial_key=("container", sc["name"], mode))
        ctx.count("container:scenarios")


# ----------------------------------------------------------------------------------------
# the TYPE KEY itself: deep_type on nested values whose scalars are ==-equal but differently typed
# ----------------------------------------------------------------------------------------

def py_deep_type(U, v):
    """reference deep_type: python object -> type tree, a function of the (nested) TYPES of v only
    (mirror of Lean `deepType`; scalars by exact class, tuples element-wise, frozensets by the widening
    loop of `_deep_type_frozenset` in iteration order, funsor terms by origin class and argument types)"""
    from funsor.terms import Funsor
    if isinstance(v, Funsor):
        return ("g", U.ids[get_origin(type(v))], tuple(py_deep_type(U, c) for c in v._ast_values))
    if isinstance(v, tuple):
        return ("t", tuple(py_deep_type(U, c) for c in v)) if v else ("tb",)
    if isinstance(v, frozenset):
        if not v:
            return ("fb",)
        ts = [py_deep_type(U, c) for c in v]
        tp = ts[0]
        for t in ts:
            if not py_sub(U, t, tp):
                tp = {"t": ("c", U.kTuple), "tb": ("c", U.kTuple), "f": ("c", U.kFs), "fb": ("c", U.kFs)}.get(tp[0], ("g", tp[1], ()) if tp[0] == "g" else tp)
            if not py_sub(U, t, tp):
                raise NotImplementedError
        return ("f", tp)
    if type(v) not in U.ids:
        raise Unsupported(repr(type(v)))
    return ("c", U.ids[type(v)])


def vsrc(v):
    """python source of a nested scalar value"""
    if isinstance(v, tuple):
        return "(" + "".join(vsrc(x) + ", " for x in v) + ")"
    if isinstance(v, frozenset):
        return "frozenset([" + ", ".join(vsrc(x) for x in v) + "])"
    if isinstance(v, np.generic):
        return f"numpy.{type(v).__name__}({v.item()!r})"
    return repr(v)


EQ_GROUPS = [
    [True, 1, 1.0, np.int64(1), np.float64(1.0), complex(1.0)],
    [False, 0, 0.0, np.int64(0), np.float64(0.0), complex(0.0)],
    [2, 2.0, np.int64(2), np.float64(2.0)],
]

SHAPES = [          # h = a hole filled from one equality group; tag = a string unique to the pair
    lambda h, tag: (h(), h()),
    lambda h, tag: (tag, (h(), h())),
    lambda h, tag: ((h(),), h()),
    lambda h, tag: (tag, frozenset([h()])),
    lambda h, tag: ((h(), (h(), h())), tag),
    lambda h, tag: ((tag, (h(), h())), ("b", (h(),))),
    lambda h, tag: (tag, ((h(), h()), (h(), h()))),
    lambda h, tag: frozenset([(tag, h())]),
    lambda h, tag: (tag, (frozenset([h()]), h())),
    lambda h, tag: (((h(),),),),
]

PY_DEEPTYPE = """
# replay for C16: deep_type must be a function of the (nested) types of its argument only
import numpy, typing
from typing import Tuple, FrozenSet
import funsor; funsor.set_backend("numpy")
from funsor.typing import deep_type
A = {a}
B = {b}
assert A == B and hash(A) == hash(B)
def fresh_type(v):      # element-wise, no caches involved
    if isinstance(v, tuple):
        return Tuple[tuple(fresh_type(x) for x in v)] if v else Tuple
    if isinstance(v, frozenset):
        return FrozenSet[fresh_type(next(iter(v)))] if v else FrozenSet
    return type(v)
seq = [A, B, A] if {a_first} else [B, A, B]
got = [deep_type(v) for v in seq]
want = [fresh_type(v) for v in seq]
print(got, want)
FAILS = got != want
"""


def gen_twin_pairs(ctx, n):
    """pairs (A, B) of equal, equal-hash nested values whose scalars have different types"""
    rng = ctx.rng
    out = []
    tries = 0
    while len(out) < n and tries < 20 * n:
        tries += 1
        grp = rng.choice(EQ_GROUPS)
        shape = rng.choice(SHAPES)
        tag = f"p{len(out)}_{ctx.seed}_{rng.randrange(10**6)}"
        k = [0]
        picksA, picksB = [], []

        def mk(picks):
            it = iter(picks)
            return shape(lambda: next(it), tag)
        # count holes
        cnt = [0]

        def counter():
            cnt[0] += 1
            return 0
        shape(counter, tag)
        picksA = [rng.choice(grp) for _ in range(cnt[0])]
        picksB = [rng.choice(grp) for _ in range(cnt[0])]
        if [type(x) for x in picksA] == [type(x) for x in picksB]:
            continue
        try:
            A, B = mk(picksA), mk(picksB)
            if A != B or hash(A) != hash(B):
                continue
        except TypeError:
            continue
        out.append((A, B))
    return out


def part_deep_type_values(ctx, U, use_driver=True):
    """(1) deep_type vs the model on twins, adjacent in one process in both orders (A,B,A / B,A,B);
       (2) the same values through a throw-away registry whose patterns distinguish the scalar types:
           chosen rule == most specific pattern for the TRUE type key (model + history-free real dispatch)"""
    rng = ctx.rng
    pairs = gen_twin_pairs(ctx, 60 if ctx.tier == "quick" else 400)
    T = typing
    obj = object
    pats = [("bool-range", T.Tuple[str, T.Tuple[bool, bool]]), ("int-range", T.Tuple[str, T.Tuple[int, int]]),
            ("float-range", T.Tuple[str, T.Tuple[float, float]]), ("mixed-range", T.Tuple[str, T.Tuple[int, float]]),
            ("any-range", T.Tuple[str, T.Tuple[obj, obj]]), ("fs-int", T.Tuple[str, T.FrozenSet[int]]),
            ("fs-float", T.Tuple[str, T.FrozenSet[float]]), ("fs-any", T.Tuple[str, frozenset]),
            ("pair-int", T.Tuple[int, int]), ("pair-float", T.Tuple[float, float]), ("pair-bool", T.Tuple[bool, bool]),
            ("pair-any", T.Tuple[obj, obj]), ("tuple", tuple), ("frozenset", frozenset)]

    def fresh():
        r = KeyedRegistry(default=lambda *a: "default")
        for nm, p in pats:
            r.register(tuple, p)((lambda nm: (lambda *a: nm))(nm))
        return r
    ref = fresh().registry[tuple]
    sigs = list(ref.funcs)
    with warnings.catch_warnings():
        warnings.simplefilter("ignore")
        order0 = [sigs.index(x) for x in ref.ordering]
    enc = [U.enc_sig(x) for x in sigs]
    shared = fresh()          # one registry shared by all pairs: its cache sees every value in sequence
    reqs, meta = [], []
    for pi, (A, B) in enumerate(pairs):
        a_first = pi % 2 == 0
        seq = [A, B, A] if a_first else [B, A, B]
        try:
            want = [py_deep_type(U, v) for v in seq]
        except (Unsupported, NotImplementedError):
            ctx.count("twins:beyond-table")
            continue
        replay = PY_DEEPTYPE.format(a=vsrc(A), b=vsrc(B), a_first=a_first)
        got = []
        for v in seq:
            try:
                got.append(U.enc(deep_type(v)))
            except NotImplementedError:
                got.append(None)
        ctx.count("twins:pairs")
        for step, (g_, w_, v) in enumerate(zip(got, want, seq)):
            if g_ != w_:
                ctx.fail("input", "C16.deep_type-depends-on-history",
                         witness=dict(sequence=[vsrc(x) for x in seq], step=step, value=vsrc(v),
                                      deep_type=tshow(U, g_) if g_ else None, types_of_value=tshow(U, w_)),
                         expected=tshow(U, w_), got=tshow(U, g_) if g_ else "NotImplementedError", python=replay)
                return
        if got[0] == got[1]:
            ctx.count("twins:same-type-anyway")
        # (2) dispatch on the same sequence: shared registry (cache carries over) and a fresh one
        for reg, label in ((shared, "shared-registry"), (fresh(), "fresh-registry")):
            for step, v in enumerate(seq):
                rule = reg.dispatch(tuple, v)(v)
                hf = ref.dispatch(typing_wrap(U.dec(want[step])))
                hf = getattr(hf, "default", hf)(v)
                ctx.count("twins:dispatches")
                if rule != hf:
                    ctx.fail("input", "C16.dispatch-depends-on-history",
                             witness=dict(sequence=[vsrc(x) for x in seq], step=step, value=vsrc(v), registry=label,
                                          true_type_key=tshow(U, want[step]), got_rule=rule, rule_for_true_key=hf),
                             expected=hf, got=rule, python=replay)
                    return
        if use_driver:
            for step, v in enumerate(seq[:2]):
                reqs.append(f"C16 deeptype {real_vsx(real_val_tree(U, v))}")
                meta.append(("dt", want[step], v))
                reqs.append(f"C16 dispatchx ({' '.join(sigsx(e) for e in enc)}) ({' '.join(map(str, order0))}) ((w {tsx(want[step])}))")
                f = ref.dispatch(typing_wrap(U.dec(want[step])))
                meta.append(("dx", getattr(f, "default", f)(v), v))
        ctx.case(sample=dict(A=vsrc(A), B=vsrc(B), types=[tshow(U, want[0]), tshow(U, want[1])]) if pi < 2 else None,
                 nontrivial_key=("twin", vsrc(A), vsrc(B)))
    if use_driver and reqs:
        ans = ctx.driver.ask(reqs)
        for a, (kind, w_, v) in zip(ans, meta):
            if kind == "dt":
                ctx.count("twins:deeptype-vs-model")
                if a != "ok " + tsx(w_):
                    ctx.fail("correspondence", "C16.deep_type-vs-model", witness=dict(value=vsrc(v), model=a, reference=tsx(w_)))
                    return
            else:
                p = parse_sx("(" + a[3:] + ")") if a.startswith("ok ") else None
                if p is None or isinstance(p[0], str):
                    ctx.fail("correspondence", "C16.dispatch-vs-model", witness=dict(value=vsrc(v), model=a, real=w_))
                    return
                f = ref.funcs[sigs[int(p[0][1])]]
                mrule = getattr(f, "default", f)(v)
                ctx.count("twins:dispatch-vs-model")
                if mrule != w_:
                    ctx.fail("correspondence", "C16.dispatch-vs-model", witness=dict(value=vsrc(v), model_rule=mrule, real_rule=w_))
                    return
                if not p[3]:
                    ctx.count("twins:no-least-pattern")


# ----------------------------------------------------------------------------------------
# histories of register / dispatch on ONE dispatcher, through every front-end
# ----------------------------------------------------------------------------------------

FRONT_ENDS = {
    "PartialDispatcher": """
from funsor.registry import PartialDispatcher
_F = PartialDispatcher(lambda *a: "default")
def reg(name, *p): _F.register(*p)(lambda *a: name)
def call(*a): return _F(*a)
""",
    "KeyedRegistry": """
from funsor.registry import KeyedRegistry
from funsor.terms import Binary
_R = KeyedRegistry(default=lambda *a: "default")
def reg(name, *p): _R.register(Binary, *p)(lambda *a: name)
def call(*a): return _R.dispatch(Binary, *a)(*a)
""",
    "DispatchedInterpretation": """
from funsor.interpretations import DispatchedInterpretation
from funsor.terms import Binary
_I = DispatchedInterpretation("c16_history")
def reg(name, *p): _I.register(Binary, *p)(lambda *a: name)
def call(*a): return _I.dispatch(Binary, *a)(*a) or "default"
""",
    "StatefulInterpretation": """
from funsor.interpretations import StatefulInterpretation
from funsor.terms import Binary
class _S(StatefulInterpretation):
    pass
def reg(name, *p): _S.register(Binary, *p)(lambda *a: name)
def call(*a): return _S.dispatch(Binary, *a)(*a) or "default"
""",
    "UnaryOp.make": """
import funsor.ops as ops
def c16_history_op(x):
    return "default"
_OP = ops.UnaryOp.make(c16_history_op, name="c16_history_op_{uid}")
def reg(name, *p): _OP.register(*p)(lambda *a: name)
def call(*a): return _OP(*a)
""",
}

PY_HISTORY = """
# replay for C16: registrations interleaved with dispatches, front-end {fe}
import typing, numpy
from typing import Any, Tuple, FrozenSet, Union
import funsor; funsor.set_backend("numpy")
import funsor.ops, funsor.ops.op, funsor.terms, funsor.tensor, funsor.domains
from funsor.registry import PartialDispatcher
from funsor.typing import deep_type, typing_wrap
{setup}
STEPS = [{steps}]
def history_free(patterns, args):      # fresh dispatcher over the patterns registered so far, no cache
    d = PartialDispatcher(lambda *a: "default")
    for name, p in patterns:
        d.register(*p)(lambda *a, name=name: name)
    f = d.dispatch(*map(typing_wrap, map(deep_type, args)))
    return getattr(f, "default", f)(*args)
FAILS = False
so_far = []
for st in STEPS:
    if st[0] == "reg":
        reg(st[1], *st[2]); so_far.append((st[1], st[2]))
    else:
        got, want = call(*st[1]), history_free(so_far, st[1])
        if got != want:
            print("after registering", [n for n, _ in so_far], "args", st[1], "->", got, "but the registered patterns give", want)
            FAILS = True
"""


def history_families(U):
    import funsor.ops as ops
    from funsor.terms import Funsor, Number
    from funsor.tensor import Tensor
    T = typing
    c = lambda x: ("c", U.ids[x])                   # noqa: E731
    g = lambda x, *a: ("g", U.ids[x], tuple(a))     # noqa: E731
    nd, s_ = c(np.ndarray), c(str)
    import funsor.domains as Dm
    ten = g(Tensor, nd, ("t", (("t", (s_, c(Dm.BintType))),)), s_)
    num = g(Number, c(int), s_)
    numf = g(Number, c(float), s_)
    scal = dict(
        arity=1,
        patterns=[("int", (int,)), ("bool", (bool,)), ("float", (float,)), ("str", (str,)), ("tuple", (tuple,)),
                  ("ints", (T.Tuple[int, ...],)), ("pair", (T.Tuple[int, int],)), ("floats", (T.Tuple[float, ...],)),
                  ("bools", (T.Tuple[bool, ...],)), ("strset", (T.FrozenSet[str],)), ("frozenset", (frozenset,)),
                  ("intfloat", (T.Tuple[int, float],))],
        samples=[((3,), "3"), ((True,), "True"), ((2.5,), "2.5"), (("s",), "'s'"), (((1, 2),), "(1, 2)"),
                 (((1, 2, 3),), "(1, 2, 3)"), (((1, 2.5),), "(1, 2.5)"), (((True, False),), "(True, False)"),
                 ((frozenset(["a"]),), "frozenset(['a'])"), ((frozenset([1]),), "frozenset([1])"), (((),), "()"),
                 (((2.5, 1.5),), "(2.5, 1.5)")])
    two_trees = [(c(ops.AddOp), ten), (c(ops.MulOp), ten), (c(ops.AddOp), num), (c(ops.AddOp), numf),
                 (c(ops.ExpOp), ten), (c(ops.AddOp), g(Funsor))]
    two = dict(
        arity=2,
        patterns=[("generic", (ops.op.Op, Funsor)), ("op-tensor", (ops.op.Op, Tensor)), ("add-tensor", (ops.AddOp, Tensor)),
                  ("op-number", (ops.op.Op, Number)), ("add-funsor", (ops.AddOp, Funsor)), ("add-number", (ops.AddOp, Number)),
                  ("assoc-int-number", (ops.AssociativeOp, Number[int, str])), ("binary-tensor", (ops.op.BinaryOp, Tensor))],
        samples=[(tuple(fake_value(U, t)[0] for t in tr), "(" + "".join(pysrc_value(U, t) + ", " for t in tr) + ")") for tr in two_trees])
    return dict(scalars=scal, terms=two)


def part_register_histories(ctx, U, use_driver=True):
    """random interleavings of register(pattern) / dispatch(args) on one throw-away dispatcher per history,
    through each front-end; after EVERY step the chosen rule must be the history-free dispatch (fresh
    dispatcher, real) and the model's dispatch over the patterns registered SO FAR, for the true type key"""
    rng = ctx.rng
    fams = history_families(U)
    n_hist = 3 if ctx.tier == "quick" else 15
    uid = [rng.randrange(10 ** 9)]
    model_reqs, model_meta = [], []
    for fe, setup in FRONT_ENDS.items():
        for famname, fam in fams.items():
            if fe == "UnaryOp.make" and fam["arity"] != 1:
                continue
            for h in range(n_hist):
                uid[0] += 1
                ns = {}
                src = setup.replace("{uid}", str(uid[0]))
                try:
                    exec(src, ns)
                except Exception as e:   # noqa
                    ctx.infra_errors.append(f"front-end {fe} could not be set up: {type(e).__name__}: {e}")
                    return
                pats = list(fam["patterns"])
                rng.shuffle(pats)
                pats = pats[: rng.randint(3, min(7, len(pats)))]
                samples = list(fam["samples"])
                seen, so_far, steps = [], [], []
                ref = [PartialDispatcher(lambda *a: "default")]

                def check(args, asrc, label):
                    with warnings.catch_warnings():
                        warnings.simplefilter("ignore")
                        got = ns["call"](*args)
                        types = tuple(map(typing_wrap, map(deep_type, args)))
                        f = ref[0].dispatch(*types)
                    want = getattr(f, "default", f)(*args)
                    steps.append(f"('call', {asrc})")
                    ctx.count("history:dispatches")
                    ctx.count(f"history:{label}")
                    if got != want:
                        ctx.fail("input", "C16.dispatch-stale-after-registration",
                                 witness=dict(front_end=fe, family=famname, registered_so_far=[n for n, _ in so_far], args=asrc,
                                              seen_before_last_registration=(label == "seen-before"), got_rule=got, rule_for_registered_patterns=want,
                                              steps=steps[-12:]),
                                 expected=want, got=got,
                                 python=PY_HISTORY.format(fe=fe, setup=src, steps=", ".join(steps)))
                        return False
                    if use_driver and rng.random() < 0.25:
                        sigs = list(ref[0].funcs)
                        try:
                            enc = [U.enc_sig(x) for x in sigs]
                            tt = [U.enc_alt(t) for t in types]
                        except Unsupported:
                            return True
                        with warnings.catch_warnings():
                            warnings.simplefilter("ignore")
                            order = [sigs.index(x) for x in ref[0].ordering]
                        model_reqs.append(f"C16 dispatchx ({' '.join(sigsx(e) for e in enc)}) ({' '.join(map(str, order))}) ({' '.join(tsx(t) for t in tt)})")
                        model_meta.append(([getattr(ref[0].funcs[x], "default", ref[0].funcs[x])(*args) for x in sigs], want, fe, asrc))
                    return True
                todo = list(pats)
                nsteps = 0
                while todo and nsteps < 40:
                    nsteps += 1
                    if rng.random() < 0.4 or not seen:
                        args, asrc = rng.choice(samples)      # a dispatch before the next registration
                        if (args, asrc) not in seen:
                            seen.append((args, asrc))
                        if not check(args, asrc, "between-registrations"):
                            return
                        continue
                    name, p = todo.pop()
                    with warnings.catch_warnings():
                        warnings.simplefilter("ignore")
                        ns["reg"](name, *p)
                        ref[0].register(*p)((lambda name: (lambda *a: name))(name))
                    so_far.append((name, p))
                    psrc = "(" + "".join((pyrepr(U, U.enc(x)) if not isinstance(x, type) or isinstance(x, GenericTypeMeta) else (cname(x).replace("builtins.", ""))) + ", " for x in p) + ")"
                    steps.append(f"('reg', {name!r}, {psrc})")
                    ctx.count("history:registrations")
                    # gate right after the registration: every argument seen before, and a fresh one
                    for args, asrc in list(seen):
                        if not check(args, asrc, "seen-before"):
                            return
                    fresh_ = [x for x in samples if x not in seen]
                    if fresh_:
                        args, asrc = rng.choice(fresh_)
                        seen.append((args, asrc))
                        if not check(args, asrc, "fresh-after"):
                            return
                ctx.case(sample=dict(front_end=fe, family=famname, steps=steps[:8]) if h == 0 else None,
                         nontrivial_key=("history", fe, famname, tuple(steps)))
    if use_driver and model_reqs:
        ans = ctx.driver.ask(model_reqs)
        for a, (rules, want, fe, asrc) in zip(ans, model_meta):
            p = parse_sx("(" + a[3:] + ")") if a.startswith("ok ") else None
            ctx.count("history:dispatch-vs-model")
            if p is None or isinstance(p[0], str) or rules[int(p[0][1])] != want:
                ctx.fail("correspondence", "C16.dispatch-vs-model", witness=dict(front_end=fe, args=asrc, model=a, real_rule=want, rules=rules))
                return


# ----------------------------------------------------------------------------------------
# the relation the DISPATCHER uses: issubclass on typing_wrap'ed elements
# ----------------------------------------------------------------------------------------

PY_ADAPTER = """
# replay for C16: the relation multipledispatch sees (issubclass on typing_wrap'ed pattern entries / argument types)
import typing, collections.abc, itertools
from typing import Any, Tuple, FrozenSet, Union
import numpy
import funsor; funsor.set_backend("numpy")
import funsor.ops, funsor.ops.op, funsor.terms, funsor.tensor, funsor.domains, funsor.gaussian, funsor.delta, funsor.cnf
from funsor.typing import typing_wrap, deep_issubclass
from funsor.registry import PartialDispatcher
{body}
"""


def adapter_view(a, b):
    """issubclass as multipledispatch calls it on adapted elements: 'T' | 'F' | 'E'"""
    try:
        return "T" if issubclass(typing_wrap(a), typing_wrap(b)) else "F"
    except TypeError:
        return "E"


def intended_alt(U, tr):
    """the adapter as specified: GenericTypeMeta classes stay, everything else is wrapped"""
    if tr == ("c", U.kObject):
        return ("w", ("any",))          # _type_to_typing: object is treated as typing.Any
    return ("n", tr) if tr[0] == "g" else ("w", tr)


def part_adapter_relation(ctx, U, D, use_driver=True):
    import collections.abc as cabc
    import funsor.ops as ops
    from funsor.terms import Funsor, Number
    from funsor.tensor import Tensor
    rng = ctx.rng
    T = typing
    pool = set()
    for it in D.items:
        for sig in it["enc"]:
            for s_ in sig:
                for a in (s_[1] if s_[0] == "v" else [s_]):
                    pool.add(a[1])
    pool = sorted(pool, key=repr)
    rng.shuffle(pool)
    pool = pool[: (60 if ctx.tier == "quick" else 200)]
    gen = [T.Union[ops.AddOp, ops.MulOp], T.Union[ops.AddOp, ops.ExpOp], T.Union[ops.LogaddexpOp, ops.NullOp], ops.AssociativeOp, ops.AddOp,
           ops.op.Op, ops.op.BinaryOp, T.Tuple[int, int], T.Tuple[int, ...], T.Tuple[Tensor, ...], T.Tuple, tuple, T.FrozenSet[str],
           T.FrozenSet, frozenset, cabc.Sequence, object, int, str, bool, T.Union[int, str], T.Union[Number, Tensor], Funsor, Tensor,
           T.Tuple[T.Union[Number, Tensor], ...], T.Any, np.ndarray, T.Union[T.Tuple[int, int], frozenset]]
    trees = list(pool)
    for x in gen:
        try:
            trees.append(U.enc(x))
        except Unsupported:
            ctx.count("adapter:generated-not-in-table")
    trees = sorted(set(trees), key=repr)
    real = {}
    reqs = []
    for a in trees:
        ra = U.dec(a)
        for b in trees:
            rb = U.dec(b)
            v = adapter_view(ra, rb)
            real[(a, b)] = v
            ctx.count(f"adapter:{v}")
            # ---- property-level oracles (python only) --------------------------------------
            exp = None
            if b[0] == "c" and b[1] not in (U.kTuple, U.kFs):
                if a[0] == "u" and all(m[0] in ("c", "g") for m in a[1]):
                    exp = all(U.L(m[1], b[1]) for m in a[1])           # a union of classes is below their common base
                elif a[0] in ("t", "tv", "tb", "f", "fb"):
                    exp = U.L(org(U, a), b[1])                          # a tuple/frozenset type is below the ABCs/bases of its origin
                elif a[0] in ("c", "g"):
                    exp = U.L(a[1], b[1])
            if exp is not None and v != "E" and (v == "T") != exp:
                ctx.fail("input", "C16.matching-relation-inconsistent",
                         witness=dict(sub=tshow(U, a), sup=tshow(U, b), dispatcher_sees=v, members_or_origin_below=exp, tree=[a, b]),
                         expected=f"issubclass(typing_wrap(a), typing_wrap(b)) is {exp}", got=v,
                         python=PY_ADAPTER.format(body=f"a = {pyrepr(U, a)}\nb = {pyrepr(U, b)}\n"
                                                  f"got = issubclass(typing_wrap(a), typing_wrap(b))\nprint(got, deep_issubclass(a, b))\nFAILS = (got is not {exp})"))
                return
            if a == b and v == "F" and union_ok(a):
                ctx.fail("input", "C16.reflexivity", witness=dict(type=tshow(U, a), relation="issubclass on typing_wrap'ed types"),
                         expected="True", got="False",
                         python=PY_ADAPTER.format(body=f"a = {pyrepr(U, a)}\nFAILS = not issubclass(typing_wrap(a), typing_wrap(a))"))
                return
            reqs.append(f"C16 slot {tsx(intended_alt(U, a))} {tsx(intended_alt(U, b))}")
    if use_driver:
        ans = ctx.driver.ask(reqs)
        i = 0
        for a in trees:
            for b in trees:
                m = ans[i][3:]
                i += 1
                ctx.count("adapter:pairs-vs-model")
                if m != real[(a, b)]:
                    ctx.fail("correspondence", "C16.adapter-relation-vs-model",
                             witness=dict(sub=tshow(U, a), sup=tshow(U, b), dispatcher_sees=real[(a, b)], model_slotSubE=m, tree=[a, b]),
                             expected=m, got=real[(a, b)],
                             python=PY_ADAPTER.format(body=f"a = {pyrepr(U, a)}\nb = {pyrepr(U, b)}\nprint(issubclass(typing_wrap(a), typing_wrap(b)))\nFAILS = True"))
                    return
                ctx.case(nontrivial_key=("adapter", a, b) if a[0] not in ("c",) or b[0] not in ("c",) else None)
    # ---- registration-order independence when a most specific pattern exists -------------------
    scenarios = [
        ("union-vs-base", [("union", (T.Union[ops.AddOp, ops.MulOp],)), ("assoc", (ops.AssociativeOp,)), ("op", (ops.op.Op,))],
         [((ops.add,), "funsor.ops.add"), ((ops.mul,), "funsor.ops.mul"), ((ops.logaddexp,), "funsor.ops.logaddexp"), ((ops.exp,), "funsor.ops.exp")]),
        ("container-vs-abc", [("seq", (cabc.Sequence,)), ("ints", (T.Tuple[int, ...],)), ("str", (str,))],
         [(((1, 2),), "(1, 2)"), ((("a", 1),), "('a', 1)"), (("s",), "'s'"), ((3,), "3"), ((frozenset([1]),), "frozenset([1])")]),
        ("union-second-arg", [("u", (ops.op.Op, T.Union[int, bool])), ("o", (ops.op.Op, object)), ("a", (ops.AddOp, object)), ("au", (ops.AddOp, T.Union[int, bool]))],
         [((ops.add, 1), "funsor.ops.add, 1"), ((ops.mul, True), "funsor.ops.mul, True"), ((ops.add, "s"), "funsor.ops.add, 's'"), ((ops.exp, 2.5), "funsor.ops.exp, 2.5")]),
    ]
    for scname, pats, samples in scenarios:
        def oracle(args):
            """least matching pattern by the RAW relation (deep_isinstance / deep_issubclass), or None"""
            m = [(n, p) for n, p in pats if len(p) == len(args) and all(deep_isinstance(x, q) for x, q in zip(args, p))]
            def raw_sub(x, y):
                try:
                    return deep_issubclass(x, y)
                except TypeError:       # a typing generic against a plain class: answered by its origin
                    return deep_issubclass(get_origin(x), y)
            best = [n for n, p in m if all(all(raw_sub(x, y) for x, y in zip(p, q)) for _, q in m)]
            return ("default" if not m else best[0] if len(best) == 1 else None)
        for order in itertools.permutations(range(len(pats))):
            d = PartialDispatcher(lambda *a: "default")
            for i in order:
                n, p = pats[i]
                d.register(*p)((lambda n: (lambda *a: n))(n))
            for args, asrc in samples:
                want = oracle(args)
                with warnings.catch_warnings():
                    warnings.simplefilter("ignore")
                    got = d(*args)
                ctx.count("adapter:order-dispatches")
                if want is not None and got != want:
                    ctx.fail("input", "C16.chosen-rule-depends-on-registration-order",
                             witness=dict(scenario=scname, registration_order=[pats[i][0] for i in order], args=asrc, got_rule=got, most_specific=want),
                             expected=want, got=got,
                             python=PY_ADAPTER.format(body="import funsor.ops as ops\nPATS = [" + ", ".join(
                                 f"({n!r}, (" + "".join((pyrepr(U, U.enc(x))) + ", " for x in p) + "))" for n, p in pats) + "]\n"
                                 f"d = PartialDispatcher(lambda *a: 'default')\nfor i in {list(order)}:\n    n, p = PATS[i]\n"
                                 f"    d.register(*p)((lambda n: (lambda *a: n))(n))\ngot = d({asrc})\nprint(got)\nFAILS = (got != {want!r})"))
                    return


# ----------------------------------------------------------------------------------------
# op classes created DURING the run from every `.make` base (MRO depth 1, 2, 3, 4)
# ----------------------------------------------------------------------------------------

PY_USEROP = """
# replay for C16: an op made after import from base {base} must inherit the subclass_register'ed patterns of its whole MRO
import inspect
import funsor; funsor.set_backend("numpy")
import funsor.ops as ops
from funsor.terms import Variable, Funsor
from funsor.domains import Real
from funsor.interpretations import lazy
ran = []
{mk}
x, y = Variable("x", Real), Variable("y", Real)
with lazy:
    r = {call}
want = [p for k in reversed(inspect.getmro(type(op))) for p, _ in vars(k).get("_subclass_registry", ())]
print(type(r), ran, len(type(op).dispatcher.funcs), "patterns; the MRO holds", len(want))
FAILS = bool(ran) or not isinstance(r, Funsor) or getattr(r, "op", None) is not op
"""


def part_user_ops(ctx, U):
    import inspect
    import funsor.ops as ops
    from funsor.ops.op import Op
    from funsor.terms import Variable, Funsor, Unary, Binary, Finitary
    from funsor.domains import Real
    from funsor.interpretations import lazy, eager
    x, y = Variable("x", Real), Variable("y", Real)
    uid = ctx.rng.randrange(10 ** 8)
    bases = [c for c in [Op] + all_subclasses(Op) if "dispatcher" not in vars(c) and isinstance(getattr(c, "arity", None), int)
             and c.arity in (1, 2) and c.__module__.startswith("funsor.ops") and not issubclass(c, ops.op.FinitaryOp)]
    plans = []     # (description, python source creating `op`, arity, finitary)
    for B in sorted(bases, key=lambda c: c.__name__):
        fin = issubclass(B, ops.op.FinitaryOp)
        plans.append((B.__name__, f"op = ops.{B.__name__}.make(lambda *a: ran.append(a) or 'RAW', name='c16u_{B.__name__.lower()}_{{uid}}')"
                      if hasattr(ops, B.__name__) else
                      f"op = ops.op.{B.__name__}.make(lambda *a: ran.append(a) or 'RAW', name='c16u_{B.__name__.lower()}_{{uid}}')", B.arity, fin))
        if not fin:
            nm = B.__name__ if hasattr(ops, B.__name__) else "op." + B.__name__
            # one level deeper: through an already made op class (a user-defined abstract base without
            # its own dispatcher is not supported by OpMeta on the pinned tree either)
            plans.append((B.__name__ + ">made>made", f"op0 = ops.{nm}.make(lambda *a: 'RAW0', name='c16m0_{B.__name__.lower()}_{{uid}}')\n"
                          f"op = type(op0).make(lambda *a: ran.append(a) or 'RAW', name='c16m1_{B.__name__.lower()}_{{uid}}')", B.arity, fin))
    for desc, mk, arity, fin in plans:
        uid += 1
        src = mk.replace("{uid}", str(uid))
        ns = dict(ops=ops, ran=[])
        try:
            exec(src, ns)
        except Exception as e:   # noqa
            ctx.count(f"user-ops:make-raised:{desc}")
            continue
        op = ns["op"]
        depth = len(inspect.getmro(type(op))) - 2
        ctx.count(f"user-ops:made:mro-depth-{depth}")
        # model: pattern set of a new op class = union over its WHOLE MRO of the subclass_register'ed patterns
        want = [tuple(map(typing_wrap, p)) if not any(isinstance(t, list) for t in p) else None
                for k in reversed(inspect.getmro(type(op))) for p, _ in vars(k).get("_subclass_registry", ())]
        have = set(type(op).dispatcher.funcs)
        missing = [p for p in want if p is not None and p not in have]
        calls = ([("op((x, y))", lambda: op((x, y)), Finitary)] if fin else
                 [("op(x)", lambda: op(x), Unary)] if arity == 1 else
                 [("op(x, y)", lambda: op(x, y), Binary), ("op(x, 2.0)", lambda: op(x, 2.0), Binary), ("op(2.0, y)", lambda: op(2.0, y), Binary)])
        for csrc, call, cls in calls:
            for interp, iname in ((lazy, "lazy"), (eager, "eager")):
                ns["ran"].clear()
                try:
                    with interp:
                        r = call()
                except Exception as e:   # noqa
                    r = e
                ctx.count("user-ops:calls")
                if iname == "lazy":
                    ok = isinstance(r, cls) and getattr(r, "op", None) is op and not ns["ran"]
                else:       # eager may normalise the term (e.g. an associative Binary becomes a Contraction)
                    ok = isinstance(r, Funsor) and not ns["ran"]
                if not ok or missing:
                    ctx.fail("input", "C16.user-op-misses-inherited-patterns",
                             witness=dict(made_from=desc, mro=[k.__name__ for k in inspect.getmro(type(op))][:6], call=csrc, interpretation=iname,
                                          result=repr(r)[:120], raw_default_body_ran=bool(ns["ran"]),
                                          patterns_registered=len(have), patterns_missing=[repr(p)[:80] for p in missing][:4]),
                             expected=f"a lazy {cls.__name__} term with .op is op (rule inherited through the MRO); the default body does not run",
                             got=repr(r)[:120],
                             python=PY_USEROP.format(base=desc, mk=src, call=csrc))
                    return
        ctx.case(nontrivial_key=("user-op", desc))


def part_known_ambiguity(ctx, U, D, kf_cases):
    """dedicated stream for KF-precondition-ambiguous-patterns: two registered patterns overlap, neither
    is more specific, nothing more specific covers the overlap"""
    it = next((i for i in D.items if i["name"] == KF_AMBIG_DISPATCHER), None)
    rep, wit = False, None
    if it is not None:
        idx = [i for i, f in enumerate(it["funcs"]) if fname(f) in KF_AMBIG_RULES]
        if not kf_cases and len(idx) == 2:
            # build a witness deterministically: instantiate below the narrower tuple pattern
            import random as _r
            rng = _r.Random(16)
            argpool = [("c", U.ids[c]) for c in (int, str, float, np.ndarray)]
            for _ in range(400):
                si = idx[_ % 2]
                try:
                    tys = tuple(canon(U, instantiate(U, rng, s[1], argpool)) for s in it["enc"][si])
                    rt = tuple(typing_wrap(U.dec(t)) for t in tys)
                except Exception:
                    continue
                if kf_ambiguity_region(it, rt):
                    with warnings.catch_warnings():
                        warnings.simplefilter("ignore")
                        f = it["disp"].dispatch(*rt)
                    kf_cases.append((it, tys, rt, f, real_most_specific(it, rt, f)[3]))
                    break
        for it_, tys, rt, f, least in kf_cases:
            ctx.count("known:" + KF_AMBIG + ":cases")
            if not least:
                rep = True
                wit = dict(dispatcher=it_["name"], types=[tshow(U, t) for t in tys], chosen=fname(f))
    ctx.count(f"known:{KF_AMBIG}:{'reproduced' if rep else 'absent'}")
    what = ("Precondition[Approximate]: the patterns of precondition_approximate_contraction and "
            "precondition_approximate_gaussian_mixture both match e.g. " + (str(wit["types"]) if wit else "-") +
            ", neither supercedes the other and no more specific pattern covers the overlap; multipledispatch's "
            "ambiguity check misses it, the rule that runs is decided by toposort order")
    if not ctx.known(KF_AMBIG, reproduced=rep, what=what) and rep:
        it_, tys, rt, f, least = next(c for c in kf_cases if not c[4])
        ctx.fail("input", "C16.no-most-specific-rule", witness=dict(wit, tree=list(tys)),
                 expected="a matching pattern at least as specific as every other matching pattern",
                 got=f"two incomparable minimal matching patterns; {fname(f)} runs",
                 python=dispatch_python(U, it_, tys).replace("FAILS = bool(M) and not ok",
                                                            "FAILS = bool(M) and not any(all(supercedes(s, o) for o in M) for s in cand)"))


def part_known_finding(ctx, U):
    """dedicated stream for KF-tuple-subclass"""
    T = typing
    a, b, c = T.Tuple[int, int], T.Tuple, T.Tuple[T.Any]
    rep = (deep_issubclass(a, b) is True and deep_issubclass(b, c) is True and deep_issubclass(a, c) is False
           and deep_isinstance((), c) is True)
    what = ("deep_issubclass(Tuple, Tuple[Any]) is True while Tuple[int,int] <= Tuple and not Tuple[int,int] <= Tuple[Any] "
            "(transitivity fails); deep_isinstance((), Tuple[Any]) is True")
    ctx.count("known:KF-tuple-subclass:reproduced" if rep else "known:KF-tuple-subclass:absent")
    if not ctx.known("KF-tuple-subclass", reproduced=rep, what=what) and rep:
        ctx.fail("input", "C16.transitivity", witness=dict(a="Tuple[int, int]", b="Tuple", c="Tuple[Any]"),
                 expected="a<=b and b<=c imply a<=c", got="a<=b, b<=c, not a<=c",
                 python=PY_SUB.format(what="transitivity (bare Tuple)", body="a, b, c = Tuple[int, int], Tuple, Tuple[Any]\n"
                                      "FAILS = (R(a, b) is True and R(b, c) is True and R(a, c) is False)"))
    # model side of the same corner (run-time echo of the witness theorems)
    i_ = ("c", U.ids[int])
    ans = ctx.driver.ask([f"C16 sub tb (t any)", f"C16 subc tb (t any)", f"C16 sub (t {tsx(i_)} {tsx(i_)}) (t any)"]) if ctx.driver.available() else None
    if ans is not None and rep and ans != ["ok T", "ok F", "ok F"]:
        ctx.infra_errors.append(f"model does not reproduce KF-tuple-subclass: {ans}")
    # dedicated stream for KF-union-any-reflexivity
    u = T.Union[T.Any, int]
    r = deep_issubclass(u, u)
    rep2 = (r is False)
    ctx.count("known:KF-union-any-reflexivity:" + ("reproduced" if rep2 else "absent"))
    if not ctx.known("KF-union-any-reflexivity", reproduced=rep2,
                     what="deep_issubclass(Union[Any, int], Union[Any, int]) is False (reflexivity fails for a Union containing Any)") and rep2:
        ctx.fail("input", "C16.reflexivity", witness=dict(type="Union[Any, int]"), expected="deep_issubclass(t, t) is True", got="False",
                 python=PY_SUB.format(what="reflexivity", body="a = Union[Any, int]\nprint(R(a, a))\nFAILS = (R(a, a) is False)"))
    if ctx.driver.available():
        a2 = ctx.driver.ask([f"C16 sub (u any {tsx(i_)}) (u any {tsx(i_)})"])
        if rep2 and a2 != ["ok F"]:
            ctx.infra_errors.append(f"model does not reproduce KF-union-any-reflexivity: {a2}")
    return rep


# ----------------------------------------------------------------------------------------
# entry points
# ----------------------------------------------------------------------------------------

def guarded(ctx, name, fn, *a, **kw):
    """run one part; anything the harness cannot follow (a representation the translator does not know,
    an exception out of the code under test) becomes a broken correspondence — the runner then searches
    for a concrete failing input with the python-side oracles — never an infrastructure error"""
    import traceback
    try:
        return fn(*a, **kw)
    except Exception as e:   # noqa
        ctx.fail("correspondence", f"C16.cannot-follow:{name}", detail=f"{type(e).__name__}: {e}\n" + traceback.format_exc()[-1500:])
        return None


def correspond(ctx):
    try:
        _correspond(ctx)
    except Exception as e:   # noqa
        import traceback
        ctx.fail("correspondence", "C16.cannot-follow:correspond", detail=f"{type(e).__name__}: {e}\n" + traceback.format_exc()[-1500:])


def _correspond(ctx):
    ctx.rule = ("(1) all ordered pairs of a pool of type expressions = every type (and sub-expression) in any registered "
                "signature + argument types observed in a workload of real funsor computations + random compositions "
                "(Tuple fixed/variadic/bare, FrozenSet, Union, parametrised funsor classes, plain classes): real "
                "deep_issubclass (True/False/TypeError) vs Lean subE, reflexivity and ALL triples for transitivity on the "
                "real relation; (2) fabricated instances of argument types vs every pool type: own type, upward closure, "
                "soundness against a set-theoretic membership oracle, deep_type vs model; (3) per registered signature "
                "6 (thorough 40) synthesised argument tuples (instantiated below the pattern, with near-misses) + observed "
                "tuples: real dispatch vs model first-match, chosen rule most specific (python oracle), repeated after "
                "cache clearing in shuffled order and in fresh subprocesses; (4) REAL terms from multi-step histories (built under "
                "reflect/lazy, rebuilt by reinterpret/normalize/moment_matching/optimizer so that a child changes class under a "
                "parent without a rule; with / without a live copy / after gc): every node's class parameters = deep types of its "
                "actual args, own type, upward closure, dispatch on the live term = dispatch on freshly computed types, deep_type "
                "vs model.  Non-trivial = a pair that is not two plain "
                "classes and does not raise / a structured value / a dispatch with >= 2 matching signatures; distinct by content.")
    U, D = state()
    if U.dropped:
        ctx.assumptions.append(f"leaf classes left out of the table (duplicate qualified names or odd metaclass): {U.dropped[:5]}")
    with warnings.catch_warnings():
        warnings.simplefilter("ignore")
        observed, errs = observe_workload(D)
    ctx.count("workload:dispatches-observed", len(observed))
    ctx.count("workload:steps-raised", errs)
    clean = guarded(ctx, "subtype", part_subtype, ctx, U, D, observed)
    if clean is None or ctx.infra_errors:
        return
    guarded(ctx, "values", part_values, ctx, U, D, clean, observed)
    guarded(ctx, "rebuilt-terms", part_rebuilt_terms, ctx, U, D, clean)
    guarded(ctx, "adapter-relation", part_adapter_relation, ctx, U, D)
    guarded(ctx, "supercedes", part_supercedes, ctx, U, D)
    guarded(ctx, "container-registries", part_container_registries, ctx, U)
    guarded(ctx, "deep-type-values", part_deep_type_values, ctx, U)
    guarded(ctx, "register-histories", part_register_histories, ctx, U)
    guarded(ctx, "user-ops", part_user_ops, ctx, U)
    kf_cases = []
    r = guarded(ctx, "dispatch", part_dispatch, ctx, U, D, observed, kf_cases=kf_cases)
    guarded(ctx, "known-ambiguity", part_known_ambiguity, ctx, U, D, kf_cases)
    if r is not None:
        cases, results = r
        cu = guarded(ctx, "cache-and-order", part_cache_and_order, ctx, U, D, cases, results)
        if cu is not None:
            usable, base = cu
            guarded(ctx, "subprocess", part_subprocess, ctx, U, D, cases, usable, base)
    part_known_finding(ctx, U)
    ctx.assumptions.append("multipledispatch._toposort is taken as 'returns some linear extension'; the ordering it produced in this "
                           "process is checked against the model's supercedes (Props/C16/Reg.lean, by decide)")
    ctx.assumptions.append("TypeError raised inside issubclass is modelled as a third truth value; theorems speak about the Bool "
                           "relation `sub`, tied to the raising one by subE_sound")


def search(ctx, broken):
    """a proof / table obligation / correspondence broke: hunt for a concrete failing input using only
    python-side oracles (real relation axioms, set-theoretic membership, most-specific oracle)."""
    try:
        U, D = state()
        with warnings.catch_warnings():
            warnings.simplefilter("ignore")
            observed, _ = observe_workload(D)
    except Exception:   # noqa
        ctx.count("search:setup-raised")
        return
    before = len([f for f in ctx.failures if f.witness is not None and f.kind == "input"])

    def found():
        return len([f for f in ctx.failures if f.witness is not None and f.kind == "input"]) > before
    old_tier = ctx.tier
    ctx.tier = "thorough"
    def quiet(fn, *a, **kw):
        try:
            return fn(*a, **kw)
        except Exception:   # noqa
            ctx.count("search:part-raised")
            return None
    try:
        clean = quiet(part_subtype, ctx, U, D, observed, use_driver=False)
        if found():
            return
        quiet(part_adapter_relation, ctx, U, D, use_driver=False)
        if found():
            return
        if clean:
            quiet(part_values, ctx, U, D, clean, observed, use_driver=False)
        if found():
            return
        if clean:
            quiet(part_rebuilt_terms, ctx, U, D, clean, use_driver=False)
        if found():
            return
        quiet(part_container_registries, ctx, U, use_driver=False)
        if found():
            return
        quiet(part_deep_type_values, ctx, U, use_driver=False)
        if found():
            return
        quiet(part_register_histories, ctx, U, use_driver=False)
        if found():
            return
        quiet(part_user_ops, ctx, U)
        if found():
            return
        r = quiet(part_dispatch, ctx, U, D, observed, use_driver=False)
        if found() or r is None:
            return
        cases, results = r
        quiet(part_cache_and_order, ctx, U, D, cases, results)
    finally:
        ctx.tier = old_tier
