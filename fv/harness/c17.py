"""
C17 — Interpretation contexts nest and unwind like a stack.

Correspondence: well-nested programs (with-blocks, decorator use, raise, try/except, probes, the
temporary pushes made by `substitute` and by `AdjointTape.interpret`) are run against the REAL funsor
and against the Lean model `FV.C17.exec` (Props/C17.lean proves `exec_restores_stack`,
`depth_never_below_base`, `innermost_interprets`, `partial_falls_through`,
`enter_failure_leaves_stack` about it).  After every step the real `funsor.interpreter._STACK`
(canonicalised by identity for module-level objects, by structure for layered ones), the handler of
every freshly built probe term and the stack at the moment a harness rule fires are compared with
the model's prediction.  Independently of the model a direct oracle checks, by object identity, that
every block leaves `_STACK` exactly as it found it (normal exit, exception, refused entry) and that
the base `[reflect, eager]` is never popped.

A program is a nested tuple:
    ("skip",) ("obs",) ("raise",) ("probe", k, armed, tok) ("with", ctx, body) ("deco", ctx, body)
    ("seq", [p…]) ("catch", body)
    ("def", f, ctx, body)  `@ctx def f(): body` applied at this point (stack state S1);
    ("call", f)            `f()` at this point (stack state S2); f is visible to the later items of the
                           sequence containing its def (and everything nested in them).  For the model a call is
                           `(deco ctx body)` at the CALL site (`inline`): entering happens at call time            
    ctx = "memoize" (fresh cache) | "memoS1" | "memoS2" (memoize(cache=d1/d2): the user's own dict) | "tape" |
          "tapeR" | "subst0" | <name>;  (k, tok) names the probe TERM: equal (k, tok) = same class and arguments
          = same Memoize key, so the fixed families build the same terms at every position of a program.
    ("with", "subst", ("probe", "S", armed, tok)) is a
    call of funsor.terms.substitute on a fresh MarkS term (its eager_subs is the probe)
"""
import ast
import itertools
from collections import OrderedDict

from ..common import REPO, LEAN
from .. import futil  # noqa: F401  (imports funsor from FUNSOR_REPO before c17_rt does)

from .c17_rt import (FI, OPT, MODULES, named_obj, STACK, BASE, PROBES, PROBE_CLASS, OBSERVABLE, USER_LEAVES, USER_CHAINS,
                     USER_RULES, CANON, CATCHABLE, ProbeError, RealRun, probe_args, live_names, adjoint_ops,
                     DispatchedInterpretation, PrioritizedInterpretation, LEAF_PROBES, LEAF_TREES, REBUILDERS,
                     leaf_tree_case)

# --------------------------------------------------------------------------------------
# tables read from /repo (AST + live objects) -> Gen/C17Interps.lean
# --------------------------------------------------------------------------------------

def read_ast_tables():
    leaves, chains, total, base, callables = [], OrderedDict(), [], [], []
    for fname in ("interpretations.py", "optimizer.py"):
        tree = ast.parse((REPO / "funsor" / fname).read_text())
        for node in tree.body:
            if isinstance(node, ast.Assign) and len(node.targets) == 1:
                tgt, val = node.targets[0], node.value
                if isinstance(tgt, ast.Name) and isinstance(val, ast.Call) and isinstance(val.func, ast.Name):
                    if val.func.id == "DispatchedInterpretation":
                        leaves.append(tgt.id)
                    elif val.func.id == "PrioritizedInterpretation" and all(isinstance(a, ast.Name) for a in val.args):
                        chains[tgt.id] = [a.id for a in val.args]
                elif (isinstance(tgt, ast.Attribute) and tgt.attr == "is_total" and isinstance(tgt.value, ast.Name)
                      and isinstance(val, ast.Constant) and val.value is True):
                    total.append(tgt.value.id)
            elif isinstance(node, ast.FunctionDef):
                if any(isinstance(d, ast.Name) and d.id == "CallableInterpretation" for d in node.decorator_list):
                    callables.append(node.name)
            elif isinstance(node, ast.Expr) and isinstance(node.value, ast.Call):
                c = node.value
                if isinstance(c.func, ast.Name) and c.func.id == "push_interpretation" and len(c.args) == 1 \
                        and isinstance(c.args[0], ast.Name):
                    base.append(c.args[0].id)
    flat = OrderedDict()
    for name, args in chains.items():
        out = []
        for a in args:
            out += flat.get(a, [a])
        flat[name] = out
    return dict(leaves=leaves, chains=flat, total=[t for t in total if t in callables], base=base)


def read_entry_point_form():
    """How `funsor.optimizer.apply_optimizer` chooses the interpretations it pushes: the context expression
    of every `with` in its body, in order, and the number of branching statements (AST, normalised by
    ast.unparse).  The model of the entry point (`FV.C17.applyOpt`) assumes exactly
    [unfold, PrioritizedInterpretation(optimize_base, get_interpretation())] and no branches."""
    tree = ast.parse((REPO / "funsor" / "optimizer.py").read_text())
    fn = next((n for n in tree.body if isinstance(n, ast.FunctionDef) and n.name == "apply_optimizer"), None)
    if fn is None:
        return ["<apply_optimizer not found>"], 0
    withs, branches = [], 0
    for node in ast.walk(fn):
        if isinstance(node, ast.With):
            withs += [(node.lineno, ast.unparse(i.context_expr)) for i in node.items]
        elif isinstance(node, (ast.If, ast.IfExp, ast.Try, ast.While, ast.For, ast.Match)):
            branches += 1
    return [w for _, w in sorted(withs)], branches


def read_memoize_init_form():
    """`Memoize.__init__` (interpretations.py): every name it calls, and what it stores as its base.
    Constructing must be pure w.r.t. the stack: no get_interpretation(), no layering; the base is the argument."""
    tree = ast.parse((REPO / "funsor" / "interpretations.py").read_text())
    cls = next((n for n in tree.body if isinstance(n, ast.ClassDef) and n.name == "Memoize"), None)
    fn = cls and next((n for n in cls.body if isinstance(n, ast.FunctionDef) and n.name == "__init__"), None)
    if fn is None:
        return ["<Memoize.__init__ not found>"], "<none>"
    calls = sorted({ast.unparse(n.func) for n in ast.walk(fn) if isinstance(n, ast.Call)})
    base = [ast.unparse(n.value) for n in ast.walk(fn) if isinstance(n, ast.Assign)
            and any(ast.unparse(t) == "self.base_interpretation" for t in n.targets)]
    return calls, " | ".join(base)


def read_stateful_meta_form():
    """`StatefulInterpretationMeta.__init__`: every assignment to `cls.registry` — its right-hand side
    (ast.unparse) and whether it sits under a branch/loop.  A fresh registry per class, unconditionally."""
    tree = ast.parse((REPO / "funsor" / "interpretations.py").read_text())
    cls = next((n for n in tree.body if isinstance(n, ast.ClassDef) and n.name == "StatefulInterpretationMeta"), None)
    fn = cls and next((n for n in cls.body if isinstance(n, ast.FunctionDef) and n.name == "__init__"), None)
    if fn is None:
        return ["<StatefulInterpretationMeta.__init__ not found>"]
    out = []

    def walk(node, nested):
        for ch in ast.iter_child_nodes(node):
            if isinstance(ch, ast.Assign) and any(ast.unparse(t) == "cls.registry" for t in ch.targets):
                out.append(("branch: " if nested else "") + ast.unparse(ch.value))
            walk(ch, nested or isinstance(ch, (ast.If, ast.For, ast.While, ast.Try, ast.With)))
    walk(fn, False)
    return out


def read_live_tables():
    names = live_names()
    leaves, chains, total = [], OrderedDict(), []
    for name in sorted(set(names.values())):
        obj = named_obj(name)
        if names.get(id(obj)) != name:
            continue
        if isinstance(obj, PrioritizedInterpretation):
            chains[name] = [names.get(id(s), "?" + repr(s)) for s in obj.subinterpretations]
        elif isinstance(obj, DispatchedInterpretation):
            (total if obj.is_total else leaves).append(name)
        else:
            (total if obj.is_total else leaves).append(name)
    base = [names.get(id(o), "?" + repr(o)) for o in BASE]
    return dict(leaves=leaves, chains=chains, total=total, base=base)


def measure_probe_rules(leaves):
    """leaf -> probes it has an accepting rule for, measured live (with reflect active so that
    nothing is evaluated).  A raising rule (die) counts as accepting."""
    rules = OrderedDict()
    saved = list(STACK)
    try:
        STACK.append(FI.reflect)
        for name in leaves:
            leaf = named_obj(name)
            ks = []
            for k in PROBES + ["S"]:
                cls, args = probe_args(k, 0)
                try:
                    hit = leaf.interpret(cls, *args) is not None
                except Exception:
                    hit = True
                if hit:
                    ks.append(k)
            rules[name] = ks
    finally:
        STACK[:] = saved
    return rules


def lean_str_list(xs):
    return "[" + ", ".join('"%s"' % x for x in xs) + "]"


def lean_table(t):
    return "[" + ",\n   ".join('("%s", %s)' % (k, lean_str_list(v)) for k, v in t.items()) + "]"


def tables():
    live = read_live_tables()
    live["rules"] = measure_probe_rules(live["leaves"])
    live["adjoint"] = [k for k in PROBES + ["S"] if PROBE_CLASS[k] in adjoint_ops]
    live["apply_optimizer_with"], live["apply_optimizer_branches"] = read_entry_point_form()
    live["memoize_init_calls"], live["memoize_init_base"] = read_memoize_init_form()
    live["stateful_registry"] = read_stateful_meta_form()
    return live


def extract(ctx):
    live = tables()
    try:
        src = read_ast_tables()
        diff = {}
        if sorted(src["leaves"]) != sorted(live["leaves"]):
            diff["leaves"] = [src["leaves"], live["leaves"]]
        if {k: v for k, v in src["chains"].items()} != dict(live["chains"]):
            diff["chains"] = [src["chains"], live["chains"]]
        if src["base"] != live["base"]:
            diff["base"] = [src["base"], live["base"]]
        if sorted(src["total"]) != sorted(live["total"]):
            diff["total"] = [src["total"], live["total"]]
        ctx.extra["ast_vs_live"] = diff or "identical"
    except SyntaxError as e:
        ctx.extra["ast_vs_live"] = f"ast failed: {e}"
    text = f"""/-
  GENERATED by fv/harness/c17.py `extract` from {{REPO}}/funsor/interpretations.py (AST of the module-level
  assignments and push_interpretation calls, cross-checked against the live objects) — do not edit.
-/
namespace FV.Gen.C17

/-- module-level partial leaves (DispatchedInterpretation objects) -/
def leaves : List String := {lean_str_list(live["leaves"])}

/-- module-level total leaves (CallableInterpretation with `is_total = True`) -/
def totalLeaves : List String := {lean_str_list(live["total"])}

/-- module-level PrioritizedInterpretation objects: (name, flattened sub-interpretations) -/
def chains : List (String × List String) :=
  {lean_table(live["chains"])}

/-- `push_interpretation(...)` calls executed at import, in order (`_STACK` after `import funsor`) -/
def baseStack : List String := {lean_str_list(live["base"])}

/-- (leaf, probe kinds for which the leaf has an accepting rule), measured on the live registries -/
def probeRules : List (String × List String) :=
  {lean_table(live["rules"])}

/-- probe kinds whose class is registered in `funsor.adjoint.adjoint_ops` -/
def adjointProbes : List String := {lean_str_list(live["adjoint"])}

/-- `funsor.optimizer.apply_optimizer`: the context expression of every `with` in its body, in source
    order (ast.unparse), and the number of branching statements in it -/
def applyOptimizerWith : List String := {lean_str_list(live["apply_optimizer_with"])}
def applyOptimizerBranches : Nat := {live["apply_optimizer_branches"]}

/-- `Memoize.__init__`: every callee in its body (ast.unparse), and the expression(s) it assigns to
    `self.base_interpretation` -/
def memoizeInitCalls : List String := {lean_str_list(live["memoize_init_calls"])}
def memoizeInitBase : String := "{live["memoize_init_base"]}"

/-- `StatefulInterpretationMeta.__init__`: the right-hand side of every assignment to `cls.registry`
    (prefixed "branch: " when it sits under an if/for/while/try/with) -/
def statefulRegistryAssign : List String := {lean_str_list(live["stateful_registry"])}

end FV.Gen.C17
"""
    path = LEAN / "FunsorVerif" / "Gen" / "C17Interps.lean"
    path.parent.mkdir(exist_ok=True)
    if not path.exists() or path.read_text() != text:
        path.write_text(text)
    ctx.extra["gen_tables"] = {"base": live["base"], "chains": len(live["chains"]), "leaves": len(live["leaves"])}
    return live


# --------------------------------------------------------------------------------------
# Python port of the Lean model (oracle for `search`/`replay`, consistency echo for `correspond`)
# --------------------------------------------------------------------------------------

class PyModel:
    def __init__(self, tb):
        self.leaves = set(tb["leaves"]) | set(USER_LEAVES)
        self.chains = dict(tb["chains"])
        self.chains.update(dict(USER_CHAINS))
        self.rules = {k: set(v) for k, v in tb["rules"].items()}
        self.rules.update({k: set(v) for k, v in USER_RULES})
        self.raising = set(USER_LEAVES)
        self.adj = set(tb["adjoint"])
        self.base_names = list(tb["base"])

    # I: ("reflect",) ("disp", n) ("prio", tag, subs) ("memo", b) ("tape", o) ("subst", b) ("subst0", b)
    def named(self, n):
        if n == "reflect":
            return ("reflect",)
        if n in self.leaves:
            return ("disp", n)
        if n in self.chains:
            return ("prio", n, tuple(self.named(x) for x in self.chains[n]))
        raise KeyError(n)

    def total(self, i):
        t = i[0]
        if t == "reflect":
            return True
        if t in ("disp", "tape"):
            return False
        if t == "prio":
            return any(self.total(x) for x in i[2])
        return self.total(i[-1])

    @staticmethod
    def subs(i):
        return i[2] if i[0] == "prio" else (i,)

    def mk_prio(self, l):
        flat = tuple(x for i in l for x in self.subs(i))
        if not flat:
            raise AssertionError
        if not len(flat) < 10:
            raise AssertionError
        if any(self.total(x) for x in flat[:-1]):
            raise AssertionError
        return ("prio", None, flat)

    def enter(self, i, s):
        if self.total(i):
            s.append(i)
        else:
            if not s:
                raise IndexError
            s.append(self.mk_prio([i, s[-1]]))

    def canon(self, i):
        t = i[0]
        if t == "reflect":
            return "reflect"
        if t == "disp":
            return i[1]
        if t == "prio":
            return i[1] if i[1] is not None else "[" + " ".join(self.canon(x) for x in i[2]) + "]"
        if t == "memo":
            return ("memoS%d(" % i[1] if i[2] else "memo(") + self.canon(i[3]) + ")"
        return t + "(" + self.canon(i[1]) + ")"

    def cstack(self, s):
        return ",".join(self.canon(x) for x in s)

    def interp(self, i, s, k, armed, tok=0):
        """returns fired (name, stack snapshot) or None; raises ProbeError etc.; s restored by with-discipline"""
        t = i[0]
        if t == "reflect":
            return ("reflect", tuple(s))
        if t == "disp":
            if k in self.rules.get(i[1], ()):
                self.fired = (i[1], tuple(s))
                if armed and i[1] in self.raising:
                    raise ProbeError(i[1])
                return self.fired
            return None
        if t == "prio":
            for x in i[2]:
                r = self.interp(x, s, k, armed, tok)
                if r is not None:
                    return r
            return None
        if t == "memo":
            _, cid, sh, b = i
            cache = self.caches.setdefault((cid, sh, None if sh else b), {})
            h = cache.get((k, tok))
            if h is not None:
                self.hit = True
                return (h, tuple(s))
            r = self.interp(b, s, k, armed, tok)
            if r is not None:
                cache[(k, tok)] = r[0]
            return r
        if t == "tape":
            old = i[1]
            if k in self.adj:
                self.enter(old, s)
                try:
                    r = self.interp(old, s, k, armed, tok)
                finally:
                    s.pop()
            else:
                r = self.interp(old, s, k, armed, tok)
            self.enter(old, s)
            s.pop()
            return r
        if t in ("subst", "subst0"):
            self.enter(i[1], s)
            try:
                r = self.interp(i[1], s, k, armed, tok)
                if k == "S" and t == "subst":
                    self.hit = False
                    r = self.fired = ("subst", tuple(s))
                    if armed:
                        raise ProbeError("subst")
                return r
            finally:
                s.pop()
        raise ValueError(i)

    def run(self, prog):
        s = [self.named(n) for n in self.base_names]
        self.log = []
        self.caches = {}
        self.next = 0
        out = "normal"
        try:
            self.ex(prog, s)
        except ProbeError:
            out = "ProbeError"
        except AssertionError:
            out = "AssertionError"
        except IndexError:
            out = "IndexError"
        return out, self.cstack(s), self.log

    def ctx_obj(self, c, s):
        if isinstance(c, tuple):
            if c[0] == "memoof":
                return ("memo", c[1], False, self.named(c[2]))
            return self.mk_prio([self.named(c[1]), self.named(c[2])])
        if c in ("memoize", "memoS1", "memoS2", "tape", "tapeR", "subst", "subst0"):
            if not s:
                raise IndexError
            if c == "memoize":
                self.next += 1
                return ("memo", self.next - 1, False, s[-1])
            if c.startswith("memoS"):
                return ("memo", int(c[-1]), True, s[-1])
            return ({"tape": "tape", "tapeR": "tape", "subst": "subst", "subst0": "subst0"}[c], s[-1])
        return self.named(c)

    def ex(self, p, s):
        t = p[0]
        if t == "obs":
            self.log.append("@" + self.cstack(s))
        elif t == "probe":
            if not s:
                raise IndexError
            k = p[1]
            self.fired = None
            self.hit = False
            try:
                r = self.interp(s[-1], s, k, p[2], p[3])
                self.fired = r
            finally:
                f = self.fired
                if f is None:
                    self.log.append("?%s=-@*" % k)
                elif f[0] not in OBSERVABLE:
                    self.log.append("?%s=%s@*" % (k, f[0]))
                else:
                    self.log.append("?%s=%s@%s" % (k, f[0], "cached" if self.hit else self.cstack(f[1])))
        elif t == "seq":
            for q in p[1]:
                self.ex(q, s)
        elif t == "reinterp":
            self.ex(("probe", p[1], p[2], p[3]), s)
        elif t == "applyopt":
            self.ex(("with", "unfold", ("quiet", ("probe", p[1], False, p[3]))), s)
            self.ex(("with", "optimize_base", ("probe", p[1], p[2], p[3])), s)
        elif t == "fb":
            self.ex(("with", "tape", ("probe", p[1], False, p[2])), s)
        elif t == "quiet":
            n = len(self.log)
            try:
                self.ex(p[1], s)
            finally:
                del self.log[n:]
        elif t in ("with", "deco"):
            i = self.ctx_obj(p[1], s)
            self.enter(i, s)
            try:
                self.ex(p[2], s)
            finally:
                s.pop()
        elif t == "catch":
            try:
                self.ex(p[1], s)
            except CATCHABLE:
                pass
        elif t == "raise":
            raise ProbeError("raise")
        elif t == "skip":
            pass
        else:
            raise ValueError(p)


# --------------------------------------------------------------------------------------
# serialisation
# --------------------------------------------------------------------------------------

def static_ctx(ctor, cid):
    """A prebuilt object holds only its constructor arguments, so the model can name it statically."""
    if ctor.startswith("memo:"):
        return ("memoof", cid, ctor[5:])
    if ctor.startswith("prio:"):
        a, b = ctor[5:].split(",")
        return ("prioof", a, b)
    if ctor in ("Q", "Shift", "Traced", "Other"):
        return ctor
    if ctor == "tape":
        return "tape"       # AdjointTape captures `_old_interpretation` in __enter__
    raise ValueError(ctor)


def inline(p, env=None):
    """The model's view.  (1) A call of a decorated function is `with ctx:` around its body AT CALL TIME;
    the decoration itself does nothing to the stack.  (2) Constructing an interpretation object
    (("mk", name, ctor)) does nothing to the stack either and the object holds only its arguments: entering
    it later ("@name") is entering that object, at ENTER time.  Names are resolved in textual order
    (generators guarantee that a def / mk has been executed before its uses).  KeyError = use before def."""
    env = {} if env is None else env
    t = p[0]
    if t == "seq":
        return ("seq", [inline(q, env) for q in p[1]])
    if t == "def":
        env[p[1]] = (ctx_of(p[2], env), inline(p[3], env))
        return ("skip",)
    if t == "mk":
        n = env["#mk"] = env.get("#mk", 0) + 1
        env["@" + p[1]] = static_ctx(p[2], 1000 + n)
        return ("skip",)
    if t == "call":
        c, body = env[p[1]]
        return ("deco", c, body)
    if t in ("with", "deco"):
        return (t, ctx_of(p[1], env), inline(p[2], env))
    if t == "catch":
        return ("catch", inline(p[1], env))
    return p


def ctx_of(c, env):
    return env[c] if isinstance(c, str) and c[0] == "@" else c


def sx_ctx(c):
    if isinstance(c, tuple):
        return "(" + " ".join(str(x) for x in c) + ")"
    return "tape" if c == "tapeR" else c


def sx_prog(p):
    t = p[0]
    if t == "def":
        return "(def %s %s %s)" % (p[1], sx_ctx(p[2]), sx_prog(p[3]))
    if t == "mk":
        return "(mk %s %s)" % (p[1], p[2])
    if t == "call":
        return "(call %s)" % p[1]
    if t in ("obs", "raise", "skip"):
        return t
    if t in ("probe", "reinterp"):      # reinterpret(lazy term) = rebuilding the term where it stands
        return "(probe %s %s %d)" % (p[1], "true" if p[2] else "false", p[3])
    if t == "applyopt":
        return "(applyopt %s %s %d)" % (p[1], "true" if p[2] else "false", p[3])
    if t == "fb":
        return "(fb %s %d)" % (p[1], p[2])
    if t == "seq":
        return "(seq " + " ".join(sx_prog(q) for q in p[1]) + ")" if p[1] else "skip"
    if t in ("with", "deco"):
        # "tapeR" (one tape object re-entered sequentially, never nested in itself) is a tape to the model
        return "(%s %s %s)" % (t, sx_ctx(p[1]), sx_prog(p[2]))
    if t == "catch":
        return "(catch %s)" % sx_prog(p[1])
    raise ValueError(p)


def to_python(p, ind=0, lines=None, fn=None):
    """Straight-line Python source of a program (used in the replay snippet)."""
    top = lines is None
    if top:
        lines, fn = [], [0]
    pad = "    " * ind
    t = p[0]
    if t == "obs":
        lines.append(pad + "obs()")
    elif t == "probe":
        lines.append(pad + "probe(%r, %r, %r)" % (p[1], bool(p[2]), p[3]))
    elif t == "applyopt":
        lines.append(pad + "apply_optimizer(lazy_probe(%r, %r))   # armed=%r" % (p[1], p[3], bool(p[2])))
    elif t == "reinterp":
        fn_ = {"": "reinterpret", "s": "stack_reinterpret", "r": "recursion_reinterpret"}[p[4] if len(p) > 4 else ""]
        lines.append(pad + "%s(lazy_probe(%r, %r))   # armed=%r" % (fn_, p[1], p[3], bool(p[2])))
    elif t == "fb":
        lines.append(pad + "forward_backward(ops.logaddexp, ops.add, lazy_probe(%r, %r))" % (p[1], p[2]))
    elif t == "seq":
        if not p[1]:
            lines.append(pad + "pass")
        for q in p[1]:
            to_python(q, ind, lines, fn)
    elif t == "with":
        if p[1] == "subst" and p[2][0] == "probe" and p[2][1] == "S":
            lines.append(pad + "do_substitute(%r, %r)" % (bool(p[2][2]), p[2][3]))
        else:
            lines.append(pad + "with ctx(%r):" % p[1])
            to_python(p[2], ind + 1, lines, fn)
    elif t == "deco":
        fn[0] += 1
        name = "f%d" % fn[0]
        lines.append(pad + "@ctx(%r)" % p[1])
        lines.append(pad + "def %s():" % name)
        to_python(p[2], ind + 1, lines, fn)
        lines.append(pad + "%s()" % name)
    elif t == "mk":
        lines.append(pad + "%s = construct(%r)" % (p[1], p[2]))
    elif t == "def":
        lines.append(pad + "@ctx(%r)" % p[2])
        lines.append(pad + "def %s():" % p[1])
        to_python(p[3], ind + 1, lines, fn)
    elif t == "call":
        lines.append(pad + "%s()" % p[1])
    elif t == "catch":
        lines.append(pad + "try:")
        to_python(p[1], ind + 1, lines, fn)
        lines.append(pad + "except CATCHABLE:")
        lines.append(pad + "    pass")
    elif t == "raise":
        lines.append(pad + "raise ProbeError('raise')")
    elif t == "skip":
        lines.append(pad + "pass")
    return "\n".join(lines) if top else None


SNIPPET = '''
# replay for C17: run one well-nested program against funsor; check that funsor.interpreter._STACK is
# restored around every block (object identity) and that every observation equals the stack model's
# prediction (`expected` = outcome|final stack|observations…).
import sys
sys.path.insert(0, "/verif/fv/harness")
import c17_rt as H
prog = {prog!r}
inv = {inv!r}      # probe kind -> result class -> handler leaf (measured under single with-blocks)
expected = {expected!r}
# the program, written out  (obs() = look at _STACK; probe(k, armed) = build a probe term):
{source}
FAILS = H.replay(prog, inv, expected)
print("FAILS =", FAILS)
'''


def source_comment(p):
    return "\n".join("#   " + l for l in to_python(p).splitlines())


# --------------------------------------------------------------------------------------
# program generators
# --------------------------------------------------------------------------------------

ALPHABET = ["eager", "lazy", "reflect", "normalize", "sequential", "moment_matching", "memoize", "P", "tape", "W"]
# every probe carries a token: the same (kind, token) is the same term (same Memoize key).  The fixed
# families build the SAME terms (token 1) at every position of a program — that is what a cache can get wrong.
FULL = [("probe", k, False, 1) for k in PROBES] + [("probe", "a", False, 1)]
LIGHT = [("probe", "a", False, 1)]
# library entry points that push interpretations internally, called on lazy probe terms
ENTRY = [("applyopt", "a", False, 1), ("applyopt", "bin", False, 1), ("applyopt", "b", False, 1),
         ("reinterp", "a", False, 1)]
APPLY_KINDS = ["a", "b", "bin"]      # kinds `unfold` leaves alone (checked: gen_unfold_leaves_probes_alone)


def nest(chain, kinds, inner, after=None):
    """with c0: obs; with c1: obs; … inner …; [after_i]  — `after(i)` is placed after block i closes."""
    body = inner
    for i in range(len(chain) - 1, -1, -1):
        blk = (kinds[i], chain[i], ("seq", [("obs",)] + LIGHT + body))
        body = [blk] + (after(i) if after else [])
    return body


def prog_chain(chain, kinds):
    """family A: enter the chain, observe and probe at every level, leave normally."""
    inner = (FULL + ENTRY) if chain else (LIGHT + ENTRY)
    body = nest(chain, kinds, list(inner), after=lambda i: [("obs",)] + (LIGHT if i == 0 else []))
    return ("seq", [("obs",)] + body)


def prog_raise(chain, kinds, j, how):
    """family B: raise at the innermost position of the chain; the try/except sits around block j
    (i.e. inside blocks 0..j-1); observe after the unwinding, inside the surviving blocks."""
    if how == "raise":
        boom = [("raise",)]
    elif how == "subst":
        boom = [("with", "subst", ("probe", "S", True, 1)), ("raise",)]
    else:
        boom = [("probe", how, True, 2), ("raise",)]  # raises inside the rule if a harness rule handles it
    inner = nest(chain[j:], kinds[j:], boom)
    mid = [("catch", ("seq", inner)), ("obs",)] + LIGHT
    outer = nest(chain[:j], kinds[:j], mid, after=lambda i: [("obs",)])
    return ("seq", outer + [("obs",)])


def prog_raise_after(chain, kinds, i, j):
    """family B2: blocks i..k-1 are entered and left normally, then an exception is raised inside
    block i-1 (an `unwinding' position); the try/except sits around block j <= i."""
    done = nest(chain[i:], kinds[i:], [])
    inner = nest(chain[j:i], kinds[j:i], done + [("obs",), ("raise",)])
    mid = [("catch", ("seq", inner)), ("obs",)] + LIGHT
    outer = nest(chain[:j], kinds[:j], mid, after=lambda i_: [("obs",)])
    return ("seq", outer + [("obs",)])


def prog_entry_points(chain, kinds):
    """family G: apply_optimizer / reinterpret / forward_backward called at the innermost position of the
    chain, normally and with a harness rule raising inside apply_optimizer's second phase."""
    inner = ENTRY + [("fb", "num", 1), ("obs",),
                     ("catch", ("applyopt", "a", True, 2)), ("obs",),
                     ("catch", ("applyopt", "bin", True, 2)), ("obs",)] + LIGHT
    body = nest(chain, kinds, inner, after=lambda i: [("obs",)] + (ENTRY[:1] if i == 0 else []))
    return ("seq", body + [("obs",)])


CTORS = ["memo:P", "memo:W", "memo:eager", "memo:lazy", "prio:P,lazy", "prio:P,W", "Q", "tape",
         "Shift", "Traced", "Other", "memo:Shift"]
HIER_CTX = ["Shift", "Traced", "Other"]


def prog_prebuilt(s1, ctor, s2, kinds):
    """family H: an interpretation object is CONSTRUCTED inside the blocks `s1` (stack state S1), and — after
    those have exited — ENTERED inside the blocks `s2` (S2): as a with-block, again as a decorated call, and
    once with an exception; and once more at top level.  The model enters it at enter time."""
    n1, n2 = len(s1), len(s2)
    use = [("with", "@m", ("seq", [("obs",)] + FULL)), ("obs",),
           ("def", "f", "@m", ("seq", [("obs",)] + LIGHT)), ("catch", ("call", "f")), ("obs",),
           ("catch", ("with", "@m", ("seq", [("obs",), ("probe", "b", False, 1), ("raise",)]))), ("obs",)] + LIGHT
    return ("seq", nest(s1, kinds[:n1], [("mk", "m", ctor)]) + [("obs",)]
            + nest(s2, kinds[n1:n1 + n2], use)
            + [("obs",), ("catch", ("with", "@m", ("seq", [("obs",)] + FULL))), ("obs",)])


def prog_tape_reuse(c1, c2, kinds):
    """family D: one AdjointTape object entered, left, and entered again under a different context
    (its `_old_interpretation` must be the one active at the *latest* entry)."""
    blk = lambda c, k: (k, c, ("seq", [("obs",), (kinds[2], "tapeR", ("seq", [("obs",)] + FULL)), ("obs",)]))
    return ("seq", [blk(c1, kinds[0]), ("obs",), ("catch", blk(c2, kinds[1])), ("obs",)] + LIGHT)


def prog_decorate_call(dchain, k, cchain, k2, kinds):
    """family E: `@k def f` / `@k def g` (g raises) are DECORATED inside the blocks `dchain` (stack state S1)
    and CALLED inside the blocks `cchain` (stack state S2), and once more at top level; `@k2 def h` calls f
    (nested decorated functions).  The model enters k at call time, on the call-time stack."""
    nd, nc = len(dchain), len(cchain)
    defs = [("def", "f", k, ("seq", [("obs",)] + FULL)),
            ("def", "g", k, ("seq", [("obs",)] + LIGHT + [("raise",)]))]
    calls = [("catch", ("call", "f")), ("obs",), ("catch", ("call", "g")), ("obs",),
             ("catch", ("call", "h")), ("obs",)] + LIGHT
    return ("seq", nest(dchain, kinds[:nd], defs)
            + [("obs",), ("def", "h", k2, ("seq", [("obs",), ("call", "f"), ("obs",)] + LIGHT))]
            + nest(cchain, kinds[nd:nd + nc], calls)
            + [("obs",), ("catch", ("call", "f")), ("obs",)])


def random_prog(rng, depth, budget):
    """family C: arbitrary well-nested programs (sequences, nested try/except, decorators,
    substitution, armed probes), deeper than the exhaustive bound."""
    fresh = itertools.count(1)
    uniq = itertools.count(100)
    objs = []        # [(name, ctor)] visible prebuilt objects (lexical scope, like defs)

    def tok():
        # mostly REPEATED terms (tokens 1, 2), sometimes a term never built before
        return rng.choice([1, 1, 1, 2, 2, 0]) or next(uniq)

    def go(d, shared_open=False, visible=()):
        n = rng.choice([1, 1, 2, 2, 3])
        items = []
        visible = list(visible)     # lexical scope: a def is visible to later items of this list and below
        for _ in range(n):
            if budget[0] <= 0:
                break
            budget[0] -= 1
            r = rng.random()
            if d < depth and r < 0.50:
                pre = [n for n in visible if n[0] == "@" and not (shared_open and n.endswith("T"))]
                c = rng.choice(ALPHABET + HIER_CTX + ["P", "P", "W", "subst0", "tape", "memoize", "memoize", "memoS1", "memoS1", "memoS2"]
                               + ([] if shared_open else ["tapeR"] * 3) + pre * 3)
                kind = "deco" if rng.random() < 0.3 else "with"
                blk = (kind, c, ("seq", go(d + 1, shared_open or c == "tapeR" or c.endswith("T"), visible)))
                items.append(("catch", blk) if rng.random() < 0.35 else blk)
            elif d < depth and r < 0.56:
                # decorator form: decorate here, call later (under a different stack)
                name = "f%d" % next(fresh)
                items.append(("def", name, rng.choice(ALPHABET + HIER_CTX + ["P", "P", "W", "memoS1"]),
                              ("seq", go(d + 1, True, visible))))
                visible.append(name)
            elif r < 0.60:
                ctor = rng.choice(CTORS)
                name = "m%d%s" % (next(fresh), "T" if ctor == "tape" else "")
                items.append(("mk", name, ctor))
                visible.append("@" + name)
            elif [v for v in visible if v[0] != "@"] and r < 0.66:
                call = ("call", rng.choice([v for v in visible if v[0] != "@"]))
                items.append(("catch", call) if rng.random() < 0.4 else call)
            elif r < 0.70:
                items.append(("obs",))
            elif r < 0.76:
                items.append(rng.choice([("applyopt", rng.choice(APPLY_KINDS), rng.random() < 0.3, tok()),
                                         ("applyopt", rng.choice(APPLY_KINDS), rng.random() < 0.3, tok()),
                                         ("reinterp", rng.choice(PROBES), rng.random() < 0.3, tok()),
                                         ("fb", "num", tok())]))
            elif r < 0.80:
                items.append(("probe", rng.choice(PROBES + ["S"]), rng.random() < 0.3, tok()))
            elif r < 0.88:
                items.append(("with", "subst", ("probe", "S", rng.random() < 0.4, tok())))
            elif r < 0.94:
                items.append(("raise",))
            else:
                items.append(("catch", ("seq", go(d, shared_open, visible))))
        items.append(("obs",))
        return items
    return ("seq", [("obs",)] + go(0))


def deep_partial_prog(rng, n):
    """n nested partial interpretations (reaches the `< 10` refusal with P alone) + catch levels."""
    chain = [rng.choice(["P", "P", "W", "tape", "memoize", "lazy"]) for _ in range(n)]
    kinds = [rng.choice(["with", "with", "deco"]) for _ in range(n)]
    j = rng.randrange(n)
    inner = nest(chain[j:], kinds[j:], [("obs",)] + LIGHT)
    mid = [("catch", ("seq", inner)), ("obs",)] + LIGHT
    outer = nest(chain[:j], kinds[:j], mid, after=lambda i: [("obs",)])
    return ("seq", [("catch", ("seq", outer)), ("obs",)])


def shape(p):
    """(max nesting depth, number of blocks)"""
    t = p[0]
    if t == "seq":
        ds = [shape(q) for q in p[1]]
        return (max([d for d, _ in ds] + [0]), sum(n for _, n in ds))
    if t in ("with", "deco"):
        d, n = shape(p[2])
        return d + 1, n + 1
    if t == "catch":
        return shape(p[1])
    if t == "def":
        d, n = shape(p[3])
        return d + 1, n + 1
    return 0, 0


# --------------------------------------------------------------------------------------
# comparison
# --------------------------------------------------------------------------------------

class Checker:
    def __init__(self, ctx, tb, use_driver=True):
        self.ctx = ctx
        self.tb = tb
        self.py = PyModel(tb)
        self.use_driver = use_driver
        self.inv = self.class_table()
        self.pending = []      # (prog, label, real outcome, real final, real obs, viol)
        self.n_fail = 0

    def class_table(self):
        """probe kind -> {result class name -> handler leaf}: measured under single-level with-blocks
        of the module-level interpretations, keyed by the handler the model predicts there."""
        inv = {k: {} for k in PROBES + LEAF_PROBES + ["S"]}
        clash = []
        for name in self.tb["chains"]:
            if name in ("eager_or_die",):
                continue
            i = self.py.named(name)
            if not self.py.total(i):
                continue
            obj = named_obj(name)
            saved = list(STACK)
            try:
                STACK.append(obj)
                for k in PROBES + LEAF_PROBES:
                    cls, args = probe_args(k, 7)
                    r = cls(*args)
                    h = self.py.interp(i, [], k, False)
                    h = h[0] if h else "-"
                    cn = type(r).__name__
                    if inv[k].setdefault(cn, h) != h:
                        clash.append((k, cn, h, inv[k][cn]))
            finally:
                STACK[:] = saved
        inv["S"] = {"MarkS": "reflect"}
        if clash:
            self.ctx.infra_errors.append(f"C17 probe classes do not determine the handler: {clash}")
        return inv

    def add(self, prog, label):
        r = RealRun(self.inv)
        out, fin = r.run(prog)
        if r.refused:
            self.ctx.count("refused-entries", r.refused)
            self.ctx.count("programs-with-refused-entry")
        self.pending.append((prog, label, out, fin, r.obs, r.viol))
        if len(self.pending) >= 20000:
            self.flush()

    def flush(self):
        pend, self.pending = self.pending, []
        if not pend:
            return
        answers = None
        if self.use_driver:
            answers = self.ctx.driver.ask(["C17 exec " + sx_prog(inline(p[0])) for p in pend])
        for idx, (prog, label, out, fin, obs, viol) in enumerate(pend):
            real_line = out + "|" + fin + "|" + "|".join(obs)
            if answers is not None:
                a = answers[idx]
                if not a.startswith("ok "):
                    self.ctx.infra_errors.append(f"driver answered {a[:200]} for {sx_prog(prog)[:300]}")
                    continue
                model_line = a[3:]
                if self.echo(idx):
                    po, pf, pl = self.py.run(inline(prog))
                    if po + "|" + pf + "|" + "|".join(pl) != model_line:
                        self.ctx.infra_errors.append(
                            f"python port of the model disagrees with Lean on {sx_prog(prog)[:300]}")
                        continue
            else:
                po, pf, pl = self.py.run(inline(prog))
                model_line = po + "|" + pf + "|" + "|".join(pl)
            self.account(prog, label, out, obs)
            if viol or real_line != model_line:
                self.report(prog, label, real_line, model_line, viol)

    def echo(self, idx):
        return idx % (3 if self.ctx.tier == "quick" else 8) == 0

    def account(self, prog, label, out, obs):
        ctx = self.ctx
        d, n = shape(prog)
        ctx.count("family:" + label)
        ctx.count("depth:%d" % d)
        ctx.count("outcome:" + out)
        for o in obs:
            if o[0] == "?":
                ctx.count("handler:" + o[1:o.index("@")])
                if o.endswith("@cached"):
                    ctx.count("observed-cache-hit(harness rule's value returned without firing)")
        ctx.case(sample={"family": label, "prog": sx_prog(prog)} if ctx.evaluations % 9973 == 0 else None,
                 nontrivial_key=sx_prog(prog) if d >= 2 else None)

    def report(self, prog, label, real_line, model_line, viol):
        self.n_fail += 1
        if self.n_fail > 5:
            return
        small, s_real, s_model, s_viol = shrink(self, prog)
        exp = s_model.split("|")
        got = s_real.split("|")
        first = next((i for i, (a, b) in enumerate(zip(got, exp)) if a != b), min(len(got), len(exp)))
        if s_viol:
            name = "C17.stack-not-restored" if s_viol[0][0] != "base-popped" else "C17.base-popped"
            detail = "; ".join(f"{w}: before [{b}] after [{a}]" for w, b, a in s_viol[:3])
        elif first == 0:
            name, detail = "C17.outcome", f"outcome {got[0]} vs model {exp[0]}"
        elif first == 1:
            name, detail = "C17.final-stack", f"final stack [{got[1]}] vs model [{exp[1]}]"
        else:
            g = got[first] if first < len(got) else "<missing>"
            e = exp[first] if first < len(exp) else "<missing>"
            name = "C17.active-interpretation" if (g + e)[0] == "@" else "C17.probe-handler"
            detail = f"observation #{first - 2}: real {g} vs model {e}"
        self.ctx.fail("input", name,
                      witness={"family": label, "prog": sx_prog(small), "python": to_python(small).splitlines()},
                      expected=s_model, got=s_real + (" ;; " + detail),
                      python=SNIPPET.format(prog=small, inv=self.inv, expected=s_model,
                                            source=source_comment(small)))


def run_both(chk, prog):
    r = RealRun(chk.inv)
    out, fin = r.run(prog)
    po, pf, pl = chk.py.run(inline(prog))
    return out + "|" + fin + "|" + "|".join(r.obs), po + "|" + pf + "|" + "|".join(pl), r.viol


def shrink(chk, prog):
    """Greedy structural shrinking against the Python port of the model + the identity oracle."""
    def bad(p):
        try:
            inline(p)
        except KeyError:        # the candidate dropped a def that is still called
            return False, "", "", []
        a, b, v = run_both(chk, p)
        if a.startswith("!ScopeError"):     # the candidate made a def unreachable
            return False, a, b, v
        return (a != b or bool(v)), a, b, v

    ok, a, b, v = bad(prog)
    if not ok:
        # not reproducible standalone against the python port (Lean-only disagreement): keep as is
        return prog, a, b, v
    cur = prog
    improved = True
    steps = 0
    while improved and steps < 400:
        improved = False
        for cand in candidates(cur):
            steps += 1
            ok2, a2, b2, v2 = bad(cand)
            if ok2:
                cur, a, b, v = cand, a2, b2, v2
                improved = True
                break
    return cur, a, b, v


def candidates(p):
    """Smaller programs: drop a sequence item, unwrap a catch / block, replace a block by its body."""
    t = p[0]
    if t == "seq":
        items = p[1]
        if len(items) == 1:
            yield items[0]
        for i in range(len(items)):
            yield ("seq", items[:i] + items[i + 1:])
        for i, q in enumerate(items):
            for c in candidates(q):
                yield ("seq", items[:i] + [c] + items[i + 1:])
    elif t == "with" and p[1] == "subst":
        # a call of funsor.terms.substitute: atomic
        if p[2][2]:
            yield ("with", "subst", ("probe", "S", False, p[2][3]))
    elif t in ("with", "deco"):
        yield p[2]
        if p[2] != ("skip",):
            yield (t, p[1], ("skip",))
        if t == "deco":
            yield ("with", p[1], p[2])
        for c in candidates(p[2]):
            yield (t, p[1], c)
    elif t == "catch":
        yield p[1]
        for c in candidates(p[1]):
            yield ("catch", c)
    elif t == "def":
        for c in candidates(p[3]):
            yield ("def", p[1], p[2], c)
    elif t in ("probe", "applyopt", "reinterp") and p[2]:
        yield (t, p[1], False) + tuple(p[3:])


# --------------------------------------------------------------------------------------
# entry points
# --------------------------------------------------------------------------------------

def base_check(ctx, tb):
    names = CANON.stack(BASE)
    if names != "reflect,eager":
        ctx.fail("input", "C17.default-not-eager", witness={"prog": "obs"},
                 expected="@reflect,eager", got="@" + names,
                 python="import funsor, funsor.interpreter as I\n"
                        "FAILS = [repr(x) for x in I._STACK] != ['reflect', 'eager/normalize/reflect']\n")
        return False
    return True


def kinds_for(rng, n):
    return [("deco" if rng.random() < 0.25 else "with") for _ in range(n)]


def enumerate_all(ctx, chk, D):
    rng = ctx.rng
    hows = ["a", "bin", "subst", "b"]
    for k in range(0, D + 1):
        for chain in itertools.product(ALPHABET, repeat=k):
            chain = list(chain)
            chk.add(prog_chain(chain, kinds_for(rng, k)), "A:chain")
            for j in range(k):
                chk.add(prog_raise(chain, kinds_for(rng, k), j, "raise"), "B:raise")
            if k:
                chk.add(prog_raise(chain, kinds_for(rng, k), rng.randrange(k), rng.choice(hows)), "B:raise-in-rule")
            for i in range(1, k):
                chk.add(prog_raise_after(chain, kinds_for(rng, k), i, rng.randrange(i + 1)), "B2:raise-after-exit")


def enumerate_shared_cache(ctx, chk):
    """family F: the explicit-cache form memoize(cache=d) as a context of its own: every chain of depth <= 3
    over the alphabet + memoS1 that contains memoS1 (the same dict possibly under several bases: the model
    predicts the stale answers exactly)."""
    rng = ctx.rng
    alpha = ALPHABET + ["memoS1"]
    for k in (1, 2, 3):
        for chain in itertools.product(alpha, repeat=k):
            if "memoS1" not in chain:
                continue
            chain = list(chain)
            chk.add(prog_chain(chain, kinds_for(rng, k)), "F:shared-cache")
            chk.add(prog_raise(chain, kinds_for(rng, k), rng.randrange(k), rng.choice(["raise", "a", "bin"])),
                    "F:shared-cache")


def enumerate_entry_points(ctx, chk, D):
    for k in range(0, D + 1):
        for chain in itertools.product(ALPHABET, repeat=k):
            chk.add(prog_entry_points(list(chain), kinds_for(ctx.rng, k)), "G:entry-points")


def enumerate_prebuilt(ctx, chk, thorough):
    chains = {n: [list(c) for c in itertools.product(ALPHABET, repeat=n)] for n in (0, 1, 2)}
    for n1, n2 in [(0, 0), (0, 1), (1, 0), (1, 1), (0, 2), (1, 2)] + ([(2, 1), (2, 2)] if thorough else []):
        for s1 in chains[n1]:
            for s2 in chains[n2]:
                # quick, depth sum 3: the constructors the seeded class needs (a partial base / partial parts)
                ctors = CTORS if (thorough or n1 + n2 <= 1) else (
                    ["memo:P", "prio:P,W", "Shift"] if n1 + n2 == 3 else CTORS[:8] + ["Shift"])
                for ctor in ctors:
                    chk.add(prog_prebuilt(s1, ctor, s2, kinds_for(ctx.rng, n1 + n2)), "H:prebuilt-object")


def enumerate_hierarchy(ctx, chk, D):
    """family I: instances of the two-level StatefulInterpretation hierarchy Shift / Traced(Shift) / Other(Shift)
    as contexts: every chain of depth <= D over the alphabet + the three that contains one of them, with the
    probes for all three patterns (a, b, bin) at every position, leaving normally and by exception."""
    rng = ctx.rng
    alpha = ALPHABET + HIER_CTX
    for k in range(1, D + 1):
        for chain in itertools.product(alpha, repeat=k):
            if not any(c in HIER_CTX for c in chain):
                continue
            chain = list(chain)
            chk.add(prog_chain(chain, kinds_for(rng, k)), "I:stateful-hierarchy")
            chk.add(prog_raise(chain, kinds_for(rng, k), rng.randrange(k), rng.choice(["raise", "a", "b", "bin"])),
                    "I:stateful-hierarchy")


J_ALPHA = ALPHABET + ["K"]
# family J never builds `num` probes: K's Number rule would also see the results of eager arithmetic
J_LEAF = ([("probe", k, False, 1) for k in LEAF_PROBES]
          + [("reinterp", k, False, 1) + w for k in LEAF_PROBES for w in ((), ("s",), ("r",))]
          + [("applyopt", k, False, 1) for k in LEAF_PROBES]
          + [("probe", k, False, 1) for k in ("a", "b", "bin")] + [("reinterp", "bin", False, 1, "s")])


def prog_leaf_chain(chain, kinds, rng):
    """family J: inside the chain, every LEAF term (Number, input-less Tensor, Tensor with inputs) is built directly
    and re-built from a lazy copy by reinterpret / stack_reinterpret / recursion_reinterpret / apply_optimizer; a leaf
    is re-built after every enter and after every exit too."""
    leaf = lambda: ("reinterp", rng.choice(LEAF_PROBES), False, 1) + rng.choice([(), ("s",), ("r",)])
    body = list(J_LEAF)
    for i in range(len(chain) - 1, -1, -1):
        blk = (kinds[i], chain[i], ("seq", [("obs",), leaf()] + LIGHT + body))
        body = [blk, ("obs",), leaf()]
    return ("seq", [("obs",)] + body)


def prog_leaf_raise(chain, kinds, j, k, which):
    """family J: K's rule raises while a leaf is being re-built at the innermost position; try/except around block j;
    then the same leaf is re-built inside the surviving blocks."""
    boom = [("reinterp", k, True, 2) + which, ("raise",)]
    inner = nest(chain[j:], kinds[j:], boom)
    mid = [("catch", ("seq", inner)), ("obs",), ("reinterp", k, False, 2) + which] + LIGHT
    outer = nest(chain[:j], kinds[:j], mid, after=lambda i: [("obs",), ("reinterp", k, False, 2) + which])
    return ("seq", outer + [("obs",)])


def enumerate_leaf(ctx, chk, D):
    """family J (model) + J2 (textbook rebuild): every chain of depth <= D over the alphabet + K that contains K."""
    rng = ctx.rng
    for k in range(1, D + 1):
        for chain in itertools.product(J_ALPHA, repeat=k):
            if "K" not in chain:
                continue
            chain = list(chain)
            chk.add(prog_leaf_chain(chain, kinds_for(rng, k), rng), "J:leaf-terms")
            chk.add(prog_leaf_raise(chain, kinds_for(rng, k), rng.randrange(k), rng.choice(LEAF_PROBES),
                                    rng.choice([(), ("s",), ("r",)])), "J:leaf-terms")
            # J2: compound terms with constant leaves; oracle = rebuilding node by node through the constructors
            trees = list(LEAF_TREES) if k <= 2 else rng.sample(list(LEAF_TREES), 3 if k == 3 else 1)
            for tree in trees:
                for how in REBUILDERS:
                    leaf_tree(ctx, chk, chain, tree, how)


LEAF_SNIPPET = '''
# replay for C17 (family J2): inside the nested contexts `chain`, `how`(term) must equal the term re-built node by
# node through the constructors in the same contexts (every node, leaves included, interpreted by the innermost one).
import sys
sys.path.insert(0, "/verif/fv/harness")
import c17_rt as H
FAILS = H.leaf_tree_replay({chain!r}, {tree!r}, {how!r})
print("FAILS =", FAILS)
'''


def leaf_tree(ctx, chk, chain, tree, how):
    st, detail = leaf_tree_case(chain, tree, how)
    ctx.count("family:J2:leaf-trees")
    ctx.count("J2:" + st)
    ctx.count("J2-rebuilder:" + how)
    ctx.case(sample={"family": "J2", "chain": chain, "tree": tree, "how": how} if ctx.evaluations % 9973 == 0 else None,
             nontrivial_key=("J2", tuple(chain), tree, how) if len(chain) >= 2 and st == "ok" else None)
    if st == "VIOLATION":
        chk.n_leaf_fail = getattr(chk, "n_leaf_fail", 0) + 1
        if chk.n_leaf_fail <= 3:
            ctx.fail("input", "C17.leaf-not-interpreted-by-innermost",
                     witness={"family": "J2", "chain": chain, "tree": tree, "rebuilder": how},
                     expected="the term re-built node by node in the same contexts", got=detail[:600],
                     python=LEAF_SNIPPET.format(chain=chain, tree=tree, how=how))


def enumerate_reuse(ctx, chk):
    for c1 in ALPHABET:
        for c2 in ALPHABET:
            chk.add(prog_tape_reuse(c1, c2, kinds_for(ctx.rng, 3)), "D:tape-reuse")


def enumerate_decorate_call(ctx, chk, thorough):
    rng = ctx.rng
    chains = {n: [list(c) for c in itertools.product(ALPHABET, repeat=n)] for n in (0, 1, 2)}
    combos = [(0, 0), (0, 1), (0, 2), (1, 0), (1, 1), (1, 2), (2, 0), (2, 1)] + ([(2, 2)] if thorough else [])
    for nd, nc in combos:
        for dchain in chains[nd]:
            for cchain in chains[nc]:
                # quick, depth sum 3: only decorators with a fall-through / call-time state (the total ones are
                # covered at depth sum <= 2)
                ks = ALPHABET if (thorough or nd + nc <= 2) else ["P", "W", "memoize", "tape"]
                for k in ks:
                    chk.add(prog_decorate_call(dchain, k, cchain, rng.choice(ALPHABET), kinds_for(rng, nd + nc)),
                            "E:decorate-then-call")


def correspond(ctx, use_driver=True, volume=1):
    tb = tables()
    ctx.rule = ("EXHAUSTIVE: every chain of nested blocks of depth 0..D (D=4 quick, 5 thorough) over the 10 contexts "
                "{eager, lazy, reflect, normalize, sequential, moment_matching, memoize(), P (DispatchedInterpretation with "
                "one rule per probe class), AdjointTape(), W (a 3-leaf partial PrioritizedInterpretation, so that the `< 10` "
                "refusal is reachable within the depth bound)}: (A) entered and left normally with an observation at every "
                "position and probes at the innermost one and after the exit; (B) ProbeError raised at the innermost position "
                "with the try/except at every level j; (B2) raised after inner blocks i.. closed, for every i; one extra per "
                "chain raising inside a rule / inside substitute(); (D) one AdjointTape object re-entered under every pair of contexts; (E) DECORATOR form with decoration and call at "
                "different stack states: `@k def f` decorated inside every block chain of depth <= 2 and called (normally, raising, "
                "and from inside another decorated function) inside every block chain of depth <= 2 (quick: depth sum <= 3), for every k "
                "— the model enters k at call time.  with-vs-decorator per block is drawn from the PRNG.  "
                "(H) PREBUILT interpretation objects (Memoize(P|W|eager|lazy), PrioritizedInterpretation(P, lazy|W), a StatefulInterpretation "
                "instance, AdjointTape()) constructed inside every chain of depth <= 1 and, after that chain has exited, entered (with-block, "
                "decorated call, with an exception, re-entered) inside every chain of depth <= 2 (thorough: both <= 2); "
                "(I) a two-level StatefulInterpretation hierarchy Shift / Traced(Shift) / Other(Shift) (rules for a / b / bin), instances as contexts "
                "(inline in every chain of depth <= 2 containing one, prebuilt, decorator), each class answering only its own table; "
                "(G) library entry points that push interpretations internally — apply_optimizer(lazy term), reinterpret(lazy term), "
                "forward_backward — called at the innermost position of every chain of depth <= 3 (thorough 4), also with a rule raising "
                "inside apply_optimizer, and at the innermost position of every family-A chain; (F) memoize(cache=d) (explicit shared dict) in every chain of depth <= 3 containing it.  The SAME probe terms (token 1) are built at "
                "every position of every program (after each enter, at the innermost position, after each exit), so Memoize caches are hit; "
                "RANDOM (C): general programs with sequences, nested try/except, substitution, armed probes, depth <= 7, and "
                "7..9 nested partial interpretations.  Non-trivial = nesting depth >= 2; distinct by program text.")
    if not base_check(ctx, tb):
        return
    chk = Checker(ctx, tb, use_driver=use_driver)
    for k in APPLY_KINDS:
        h = chk.py.interp(chk.py.named("unfold"), [], k, False)
        if not h or h[0] != "reflect":
            ctx.infra_errors.append(f"unfold rewrites probe kind {k!r} ({h}): the model of apply_optimizer does not apply")
            return
    D = 4 if ctx.tier == "quick" else 5
    enumerate_all(ctx, chk, D)
    enumerate_reuse(ctx, chk)
    enumerate_shared_cache(ctx, chk)
    enumerate_entry_points(ctx, chk, 3 if ctx.tier == "quick" else 4)
    enumerate_prebuilt(ctx, chk, ctx.tier != "quick")
    enumerate_hierarchy(ctx, chk, 2 if ctx.tier == "quick" else 3)
    enumerate_decorate_call(ctx, chk, ctx.tier != "quick")
    ctx.exhaustive = True
    n_rand = (3000 if ctx.tier == "quick" else 40000) * volume
    for _ in range(n_rand):
        chk.add(random_prog(ctx.rng, ctx.rng.choice([3, 4, 5, 6, 7]), [ctx.rng.choice([8, 14, 24])]), "C:random")
    for _ in range((300 if ctx.tier == "quick" else 3000) * volume):
        chk.add(deep_partial_prog(ctx.rng, ctx.rng.choice([6, 7, 8, 9])), "C:deep-partial")
    # family J / J2 last: it draws from ctx.rng, and the streams of the families above stay what they were
    for k in LEAF_PROBES:
        if PROBE_CLASS[k] in adjoint_ops:
            ctx.infra_errors.append(f"leaf class of probe {k!r} is an adjoint op: family J's model does not apply")
    enumerate_leaf(ctx, chk, 3 if ctx.tier == "quick" else 4)
    chk.flush()
    ctx.coverage["exhaustive_depth"] = D
    ctx.assumptions.append("Memoize caches are modelled as explicit state keyed by the probe term; a cached funsor is "
                           "identified by the leaf whose rule produced it (its class / sentinel), not by its value")
    ctx.assumptions.append("`_STACK` is a process-global list; threads are outside the property's quantifier")
    ctx.assumptions.append("an AdjointTape object is entered once (re-entering the same tape object recurses in "
                           "AdjointTape.interpret and is not a well-nested use)")


def search(ctx, broken):
    """A proof, the build or the correspondence broke: hunt with the Python-side oracle only (identity of
    `_STACK` around every block + the Python port of the model), at 10x the random volume."""
    tb = tables()
    if not base_check(ctx, tb):
        return
    chk = Checker(ctx, tb, use_driver=False)
    have = lambda: sum(1 for f in ctx.failures if f.witness is not None)
    before = have()
    enumerate_all(ctx, chk, 3)
    enumerate_reuse(ctx, chk)
    enumerate_entry_points(ctx, chk, 2)
    enumerate_hierarchy(ctx, chk, 2)
    enumerate_leaf(ctx, chk, 2)
    chains1 = [[]] + [[c] for c in ALPHABET]
    for s1 in chains1:
        for s2 in chains1:
            for ctor in CTORS:
                chk.add(prog_prebuilt(s1, ctor, s2, kinds_for(ctx.rng, 2)), "H:prebuilt-object")
    chk.flush()
    if have() > before:
        return
    chains1 = [[]] + [[c] for c in ALPHABET]
    for dchain in chains1:
        for cchain in chains1:
            for k in ALPHABET:
                chk.add(prog_decorate_call(dchain, k, cchain, ctx.rng.choice(ALPHABET), kinds_for(ctx.rng, 2)),
                        "E:decorate-then-call")
    chk.flush()
    if have() > before:
        return
    for _ in range(30000):
        chk.add(random_prog(ctx.rng, ctx.rng.choice([3, 4, 5, 6, 7]), [ctx.rng.choice([8, 14, 24])]), "C:random")
        if len(chk.pending) >= 2000:
            chk.flush()
            if have() > before:
                return
    for _ in range(3000):
        chk.add(deep_partial_prog(ctx.rng, ctx.rng.choice([6, 7, 8, 9])), "C:deep-partial")
    chk.flush()


def replay(ctx, doc):
    """Re-run a replay document: the embedded snippet for an input witness, the Lean build for an obligation."""
    py = doc.get("python")
    if py:
        g = {}
        exec(py, g)
        return bool(g.get("FAILS", False))
    extract(ctx)
    ctx.build()
    return not ctx.build_ok
