"""
C17 runtime: everything needed to run one well-nested program against the REAL funsor and observe
`funsor.interpreter._STACK`.  Imports funsor only (no fv.*), so replay snippets can use it stand-alone:
    import sys; sys.path.insert(0, "/verif/fv/harness"); import c17_rt
"""
import itertools
from collections import OrderedDict

import funsor.ops as ops
from funsor.domains import Real

import funsor.interpretations as FI
import funsor.interpreter as INTERP
import funsor.optimizer as OPT
from funsor.adjoint import forward_backward
from funsor.interpreter import reinterpret, recursion_reinterpret, stack_reinterpret
from funsor.optimizer import apply_optimizer
from funsor.adjoint import AdjointTape, adjoint_ops  # noqa: F401
from funsor.interpretations import (DispatchedInterpretation, PrioritizedInterpretation, Memoize,
                                    StatefulInterpretation)
from funsor.terms import Binary, Funsor, Number, Subs, SubstituteInterpretation, Unary, Variable, substitute
from funsor.tensor import Tensor
import numpy as _np
from funsor.domains import Bint

STACK = INTERP._STACK
BASE = tuple(STACK)          # the stack as funsor's import left it

# --------------------------------------------------------------------------------------
# harness-defined probe classes and partial interpretations
# --------------------------------------------------------------------------------------

EVENTS = []          # (leaf name, tuple(_STACK)) at the moment a harness rule fires
ARMED = [False]


class ProbeError(Exception):
    pass


class ScopeError(Exception):
    """a program called a decorated function whose def was never executed (generator / shrinker artefact)"""


class MarkA(Funsor):
    def __init__(self, name):
        super().__init__(OrderedDict([(name, Real)]), Real, frozenset({name}))
        self.name = name


class MarkB(Funsor):
    def __init__(self, name):
        super().__init__(OrderedDict([(name, Real)]), Real, frozenset({name}))
        self.name = name


class MarkC(Funsor):
    def __init__(self, name):
        super().__init__(OrderedDict([(name, Real)]), Real, frozenset({name}))
        self.name = name


class MarkS(Funsor):
    def __init__(self, name):
        super().__init__(OrderedDict([(name, Real)]), Real, frozenset({name}))
        self.name = name

    def eager_subs(self, subs):
        EVENTS.append(("subst", tuple(STACK)))
        if ARMED[0]:
            raise ProbeError("subst")
        return subs[0][1]


_reflect = FI.reflect.interpret     # direct constructor: does not look at the stack
SENT = {n: _reflect(Variable, "sentinel_" + n, Real) for n in ("P", "W2", "W3", "Q", "Shift", "Traced", "Other", "K")}
SUBST_VALUE = _reflect(Number, 1.0, "real")


def _rule(name):
    def rule(*args):
        EVENTS.append((name, tuple(STACK)))
        if ARMED[0]:
            raise ProbeError(name)
        return SENT[name]
    return rule


P = DispatchedInterpretation("P")
P.register(MarkA, str)(_rule("P"))
P.register(Binary, ops.PowOp, MarkC, MarkC)(_rule("P"))
W1 = DispatchedInterpretation("W1")
W2 = DispatchedInterpretation("W2")
W3 = DispatchedInterpretation("W3")
W2.register(MarkB, str)(_rule("W2"))
W3.register(MarkA, str)(_rule("W3"))
W3.register(MarkB, str)(_rule("W3"))
W = PrioritizedInterpretation(W1, W2, W3)

# K: a user-defined partial interpretation with rules for the LEAF classes (ground constants): every Number and every
# Tensor (with or without named inputs) built or re-built while K is the innermost context must go through it.
# No stock interpretation is keyed on Number/Tensor, so only K observes whether leaves are interpreted at all.
# K is used in family J only (a Number rule also sees the results of eager arithmetic, so `num` probes are kept out).
K = DispatchedInterpretation("K")
K.register(Number, object, object)(_rule("K"))
K.register(Tensor, object, object, object)(_rule("K"))

class QInterp(StatefulInterpretation):
    """a user-defined StatefulInterpretation (partial): instances are built by ("mk", name, "Q")"""

    def __init__(self):
        super().__init__("Q")


@QInterp.register(MarkB, str)
def _q_rule(state, name):
    return _rule("Q")(name)


# A two-level StatefulInterpretation hierarchy.  In funsor every class gets its OWN registry
# (StatefulInterpretationMeta.__init__: `cls.registry = KeyedRegistry(...)`): a class answers only the
# patterns registered on that very class — the parent does not see its subclasses' or siblings' rules (and, in
# the pinned code, a subclass does not inherit its parent's either).  Shift's rule is registered BEFORE the
# subclasses are defined.
class Shift(StatefulInterpretation):
    def __init__(self, name="Shift"):
        super().__init__(name)


@Shift.register(MarkA, str)
def _shift_rule(state, name):
    return _rule("Shift")(name)


class Traced(Shift):
    def __init__(self):
        super().__init__("Traced")


@Traced.register(MarkB, str)
def _traced_rule(state, name):
    return _rule("Traced")(name)


class Other(Shift):
    def __init__(self):
        super().__init__("Other")


@Other.register(Binary, ops.PowOp, MarkC, MarkC)
def _other_rule(state, op, lhs, rhs):
    return _rule("Other")(op, lhs, rhs)


HIER = {"Shift": Shift, "Traced": Traced, "Other": Other}
SHIFT0, TRACED0, OTHER0 = Shift(), Traced(), Other()

USER_LEAVES = ["P", "W1", "W2", "W3", "Q", "Shift", "Traced", "Other", "K"]
USER_CHAINS = [("W", ["W1", "W2", "W3"])]
USER_RULES = [("P", ["a", "bin"]), ("W2", ["b"]), ("W3", ["a", "b"]), ("Q", ["b"]),
              ("Shift", ["a"]), ("Traced", ["b"]), ("Other", ["bin"]),      # rules_of class: its own table only
              ("K", ["n", "t", "tn"])]
USER_OBJ = {"P": P, "W1": W1, "W2": W2, "W3": W3, "W": W, "Shift": SHIFT0, "Traced": TRACED0, "Other": OTHER0,
            "K": K}
PROBES = ["num", "a", "b", "bin"]
# leaf probes (family J): n = Number, t = Tensor without inputs (a ground constant), tn = Tensor with a named input
LEAF_PROBES = ["n", "t", "tn"]
PROBE_CLASS = {"num": Binary, "a": MarkA, "b": MarkB, "bin": Binary, "S": MarkS, "n": Number, "t": Tensor, "tn": Tensor}
_ARRAYS = {}        # (kind, token) -> the ndarray (one object per term: Memoize keys arrays by identity)
OBSERVABLE = set(USER_LEAVES) | {"subst"}

_counter = itertools.count(1)


def probe_args(k, n):
    """(cls, args) of the probe term of kind k with token n: the same (k, n) gives the same class and the
    same (cons-hashed) arguments, hence the same Memoize key; operands are built without touching the stack."""
    if k == "num":
        return Binary, (ops.add, _reflect(Number, float(n) + 0.5, "real"), _reflect(Number, 3.0, "real"))
    if k == "a":
        return MarkA, ("a%d" % n,)
    if k == "b":
        return MarkB, ("b%d" % n,)
    if k == "bin":
        return Binary, (ops.pow, _reflect(MarkC, "u%d" % n), _reflect(MarkC, "v%d" % n))
    if k == "S":
        return MarkS, ("s%d" % n,)
    if k == "n":
        return Number, (float(n) + 0.25, "real")
    if k == "t":
        a = _ARRAYS.setdefault((k, n), _np.array(float(n) + 0.75))
        return Tensor, (a, (), "real")
    if k == "tn":
        a = _ARRAYS.setdefault((k, n), _np.array([float(n), float(n) + 1.5]))
        return Tensor, (a, (("i", Bint[2]),), "real")
    raise ValueError(k)



MODULES = [FI, OPT]     # where module-level interpretation objects are looked up, in this order


def named_obj(name):
    for m in MODULES:
        o = getattr(m, name, None)
        if isinstance(o, FI.Interpretation):
            return o
    raise AttributeError(name)


def live_names():
    """id(obj) -> module-level variable name for every Interpretation object in funsor.interpretations
    and funsor.optimizer."""
    out = {}
    for m in MODULES:
        for name in sorted(vars(m)):
            obj = getattr(m, name)
            if isinstance(obj, FI.Interpretation) and id(obj) not in out:
                out[id(obj)] = name
    return out


# --------------------------------------------------------------------------------------
# canonical form of real interpretation objects (same strings as FV.C17.I.canon)
# --------------------------------------------------------------------------------------

class Canon:
    def __init__(self):
        self.names = live_names()
        for n, o in USER_OBJ.items():
            self.names[id(o)] = n
        self.cache = {}     # id -> (obj kept alive, canon)
        self.shared = {}    # id(dict) -> c for the current run's explicit cache dicts
        self.tmp_names = {} # id -> name of objects constructed during the current run

    def one(self, o):
        i = id(o)
        hit = self.cache.get(i)
        if hit is not None and hit[0] is o:
            return hit[1]
        n = self.names.get(i) or self.tmp_names.get(i)
        if n is not None:
            c = n
        elif isinstance(o, PrioritizedInterpretation):
            c = "[" + " ".join(self.one(s) for s in o.subinterpretations) + "]"
        elif isinstance(o, Memoize):
            sh = self.shared.get(id(o.cache))
            c = ("memo(" if sh is None else "memoS%d(" % sh) + self.one(o.base_interpretation) + ")"
        elif isinstance(o, AdjointTape):
            # `_old_interpretation` is assigned once per entry; tapes are never re-entered here
            return "tape(" + self.one(o._old_interpretation) + ")"
        elif isinstance(o, SubstituteInterpretation):
            c = ("subst(" if o.subs else "subst0(") + self.one(o.base_interpretation) + ")"
        else:
            c = "!" + type(o).__name__ + ":" + repr(o)
        self.cache[i] = (o, c)
        return c

    def stack(self, s):
        one = self.one
        return ",".join([one(o) for o in s])


CANON = Canon()
EXC_NAMES = {ProbeError: "ProbeError", AssertionError: "AssertionError", IndexError: "IndexError"}
CATCHABLE = (ProbeError, AssertionError, IndexError)


def same(a, b):
    return len(a) == len(b) and all(x is y for x, y in zip(a, b))


# --------------------------------------------------------------------------------------
# running a program against the real funsor
# --------------------------------------------------------------------------------------

class RealRun:
    """One run.  `obs` mirrors the model's log; `viol` are direct (identity-level) property violations."""

    def __init__(self, inv):
        self.obs = []
        self.viol = []
        self.refused = 0     # blocks whose __enter__ raised
        self.shared_tape = None   # ctx "tapeR": one AdjointTape object re-entered sequentially
        self.funcs = {}           # name -> function decorated by ("def", name, ctx, body)
        self.prebuilt = {}        # name -> interpretation object constructed by ("mk", name, ctor)
        self.shared = {1: {}, 2: {}}   # the user's own dicts for memoize(cache=d): ctx "memoS1", "memoS2"
        self.keep = []            # probe operands (kept alive so that cons-hashing returns the same objects)
        self.inv = inv       # probe kind -> {class name -> handler leaf}

    def run(self, prog):
        if not same(tuple(STACK), BASE):
            STACK[:] = list(BASE)
        CANON.cache.clear()
        CANON.tmp_names = {}
        CANON.shared = {id(d): c for c, d in self.shared.items()}
        out = "normal"
        try:
            try:
                self.ex(prog)
            except CATCHABLE as e:
                out = EXC_NAMES[type(e)]
            except Exception as e:        # anything else is a finding of its own
                out = "!" + type(e).__name__ + ":" + str(e)[:80]
            final = tuple(STACK)
            if not same(final, BASE):
                self.viol.append(("final-stack", CANON.stack(BASE), CANON.stack(final)))
            fin = CANON.stack(final)
        finally:
            ARMED[0] = False
            STACK[:] = list(BASE)      # never poison later cases
        return out, fin

    def block_check(self, what, before):
        after = tuple(STACK)
        if not same(after, before):
            self.viol.append((what, CANON.stack(before), CANON.stack(after)))
        if len(after) < len(BASE) or not same(after[:len(BASE)], BASE):
            self.viol.append(("base-popped", CANON.stack(BASE), CANON.stack(after)))

    def make_ctx(self, c):
        if c == "memoize":
            return FI.memoize()
        if c in ("memoS1", "memoS2"):
            return FI.memoize(self.shared[int(c[-1])])
        if c == "tape":
            return AdjointTape()
        if c == "tapeR":
            if self.shared_tape is None:
                self.shared_tape = AdjointTape()
            CANON.cache.pop(id(self.shared_tape), None)
            return self.shared_tape
        if c[0] == "@":
            o = self.prebuilt.get(c[1:])
            if o is None:
                raise ScopeError(c)
            CANON.cache.pop(id(o), None)
            return o
        if c == "subst0":
            return SubstituteInterpretation((), INTERP.get_interpretation())
        if c == "subst":
            raise ValueError("ctx subst only as (with subst (probe S armed))")
        o = USER_OBJ.get(c)
        return o if o is not None else named_obj(c)

    def ex(self, p):
        t = p[0]
        if t == "obs":
            s = tuple(STACK)
            self.obs.append("@" + CANON.stack(s))
            if len(s) < len(BASE) or not same(s[:len(BASE)], BASE):
                self.viol.append(("base-popped", CANON.stack(BASE), CANON.stack(s)))
        elif t == "probe":
            self.probe(p[1], p[2], p[3])
        elif t in ("applyopt", "reinterp"):
            # library entry points that push interpretations internally, called HERE on a lazy term
            # ("reinterp", k, armed, tok[, "s" | "r"]): the dispatching front end, or one of its two implementations
            self.probe(p[1], p[2], p[3], via=apply_optimizer if t == "applyopt" else REINTERP[p[4] if len(p) > 4 else ""])
        elif t == "fb":
            self.probe(p[1], False, p[2],
                       via=lambda x: forward_backward(ops.logaddexp, ops.add, x)[0])
        elif t == "seq":
            for q in p[1]:
                self.ex(q)
        elif t == "with":
            before = tuple(STACK)
            try:
                if p[1] == "subst" and p[2][0] == "probe" and p[2][1] == "S":
                    self.substitute(p[2][2], p[2][3])       # the real call site: funsor.terms.substitute
                else:
                    cm = self.make_ctx(p[1])
                    entered = False
                    try:
                        with cm:
                            entered = True
                            inside = tuple(STACK)
                            if not (len(inside) == len(before) + 1 and same(inside[:-1], before)):
                                self.viol.append(("enter-not-a-push", CANON.stack(before), CANON.stack(inside)))
                            self.ex(p[2])
                    finally:
                        if not entered:
                            self.refused += 1
            finally:
                self.block_check("with-block", before)
        elif t == "deco":
            before = tuple(STACK)
            try:
                cm = self.make_ctx(p[1])

                @cm
                def f():
                    self.ex(p[2])
                f()
            finally:
                self.block_check("decorated-call", before)
        elif t == "mk":
            # construct an interpretation object HERE (stack state S1); it is entered elsewhere (S2)
            before = tuple(STACK)
            try:
                self.prebuilt[p[1]] = self.construct(p[2])
            finally:
                self.block_check("construction", before)
        elif t == "def":
            # decorator form, applied HERE (stack state S1); the function is called elsewhere (S2)
            cm = self.make_ctx(p[2])
            body = p[3]
            before = tuple(STACK)
            try:
                @cm
                def f():
                    self.ex(body)
                self.funcs[p[1]] = f
            finally:
                self.block_check("decoration", before)
        elif t == "call":
            before = tuple(STACK)
            try:
                f = self.funcs.get(p[1])
                if f is None:
                    raise ScopeError(p[1])
                f()
            finally:
                self.block_check("decorated-call", before)
        elif t == "catch":
            try:
                self.ex(p[1])
            except CATCHABLE:
                pass
        elif t == "raise":
            raise ProbeError("raise")
        elif t == "skip":
            pass
        else:
            raise ValueError(p)

    def construct(self, ctor):
        g = lambda n: USER_OBJ.get(n) or named_obj(n)
        if ctor.startswith("memo:"):
            return Memoize(g(ctor[5:]))
        if ctor.startswith("prio:"):
            a, b = ctor[5:].split(",")
            return PrioritizedInterpretation(g(a), g(b))
        if ctor == "Q":
            o = QInterp()
            CANON.tmp_names[id(o)] = "Q"      # (the run keeps `o` alive; cleared at the next run)
            return o
        if ctor == "tape":
            return AdjointTape()
        if ctor in HIER:
            o = HIER[ctor]()
            CANON.tmp_names[id(o)] = ctor
            return o
        raise ValueError(ctor)

    def record(self, k, r, raised):
        ev = list(EVENTS)
        if len(ev) == 1:
            name, st = ev[0]
            ok = raised or (r is SENT.get(name)) or (name == "subst" and r is SUBST_VALUE)
            self.obs.append("?%s=%s@%s" % (k, name if ok else "!" + name + "-but-result-" + repr(r), CANON.stack(st)))
        elif not ev:
            hit = next((n for n, v in SENT.items() if r is v), None)
            if raised:
                self.obs.append("?%s=!raised-without-rule@*" % k)
            elif hit is not None:
                # a harness rule's sentinel came back without the rule firing: a Memoize cache hit
                self.obs.append("?%s=%s@cached" % (k, hit))
            else:
                cn = type(r).__name__
                self.obs.append("?%s=%s@*" % (k, self.inv.get(k, {}).get(cn, "!class:" + cn)))
        else:
            self.obs.append("?%s=!%d-firings:%s@*" % (k, len(ev), "+".join(n for n, _ in ev)))

    def probe(self, k, armed, tok, via=None):
        cls, args = probe_args(k, tok)
        self.keep.append(args)
        if via is not None:
            lazy_term = _reflect(cls, *args)       # built without touching the stack
            self.keep.append(lazy_term)
            cls, args = via, (lazy_term,)
        before = tuple(STACK)
        del EVENTS[:]
        ARMED[0] = bool(armed)
        r, raised = None, False
        try:
            try:
                r = cls(*args)
            except BaseException:
                raised = True
                raise
            finally:
                ARMED[0] = False
                if not (via is not None and raised and not EVENTS):
                    # (an entry point whose own internal `with` was refused never reached the term)
                    self.record(k, r, raised)
        finally:
            self.block_check("probe", before)

    def substitute(self, armed, tok):
        name = "s%d" % tok
        expr = _reflect(MarkS, name)
        self.keep.append(expr)
        del EVENTS[:]
        ARMED[0] = bool(armed)
        r, raised = None, False
        try:
            r = substitute(expr, ((name, SUBST_VALUE),))
        except BaseException:
            raised = True
            raise
        finally:
            ARMED[0] = False
            self.record("S", r, raised)




# --------------------------------------------------------------------------------------
# family J2: compound terms with constant leaves, re-built by the reinterpreters inside nested contexts;
# oracle = the textbook bottom-up rebuild through the constructors, in the same contexts
# --------------------------------------------------------------------------------------

REINTERP = {"": reinterpret, "s": stack_reinterpret, "r": recursion_reinterpret}
REBUILDERS = OrderedDict([
    ("reinterpret", reinterpret), ("recursion_reinterpret", recursion_reinterpret),
    ("stack_reinterpret", stack_reinterpret),
    ("forward_backward", lambda x: _fb(x))])


def _fb(x):
    with _np.errstate(all="ignore"):
        return forward_backward(ops.logaddexp, ops.add, x)[0]


def _leaf_trees():
    r = _reflect
    x = r(Variable, "x", Real)
    n2, n3 = r(Number, 2.0, "real"), r(Number, 3.0, "real")
    t2 = r(*((Tensor,) + probe_args("t", 2)[1]))
    t3 = r(*((Tensor,) + probe_args("t", 3)[1]))
    tn = r(*((Tensor,) + probe_args("tn", 2)[1]))
    i5 = r(Number, 1, 2)        # a bounded-integer constant
    a1 = r(MarkA, "a1")
    B = lambda op, a, b: r(Binary, op, a, b)
    return OrderedDict([
        ("x*2-3", B(ops.sub, B(ops.mul, x, n2), n3)),
        ("x*T2-T3", B(ops.sub, B(ops.mul, x, t2), t3)),
        ("2+2", B(ops.add, n2, n2)),
        ("(Ti*2)+T2", B(ops.add, B(ops.mul, tn, n2), t2)),
        ("-3", r(Unary, ops.neg, n3)),
        ("A+2", B(ops.add, a1, n2)),
        ("Ti[1]", r(Subs, tn, (("i", i5),))),
        ("x+(x+3)", B(ops.add, x, B(ops.add, x, n3))),
    ])


LEAF_TREES = _leaf_trees()


def brute_force(x):
    """Textbook reinterpretation: rebuild bottom-up through the constructors (each node is *built* in the
    current context, so it is interpreted by the innermost one)."""
    if not isinstance(x, Funsor):
        if isinstance(x, tuple):
            return tuple(brute_force(c) for c in x)
        return x
    return type(x)(*(brute_force(c) for c in x._ast_values))


def skey(x):
    """structural key of a result (eager arithmetic makes fresh arrays, so identity is too strong)"""
    if isinstance(x, Funsor):
        return (type(x).__name__,) + tuple(skey(c) for c in x._ast_values)
    if isinstance(x, (tuple, frozenset)):
        return (type(x).__name__,) + tuple(sorted((skey(c) for c in x), key=repr) if isinstance(x, frozenset)
                                           else (skey(c) for c in x))
    if isinstance(x, _np.ndarray):
        return ("ndarray", str(x.dtype), x.shape, repr(x.tolist()))
    return repr(x)


def leaf_tree_case(chain, tree, how):
    """Enter `chain` (outermost first), rebuild the tree by `how` and by hand.
    -> (status, detail): status in ok | refused | declined | VIOLATION"""
    from contextlib import ExitStack
    if not same(tuple(STACK), BASE):
        STACK[:] = list(BASE)
    run = RealRun({})
    term = LEAF_TREES[tree]
    fn = REBUILDERS[how]
    chain = list(chain) + (["tape"] if how == "forward_backward" else [])
    try:
        try:
            with ExitStack() as es:
                for c in chain[:len(chain) - (how == "forward_backward")]:
                    es.enter_context(run.make_ctx(c))
                before = tuple(STACK)
                del EVENTS[:]
                try:
                    got = fn(term)
                except CATCHABLE:
                    raise
                except Exception as e:
                    got = e
                ev_got = {(n, CANON.stack(st[:len(before)])) for n, st in EVENTS if n == "K"}
                after = tuple(STACK)
                if not same(before, after):
                    return "VIOLATION", "stack not restored by %s: [%s] -> [%s]" % (how, CANON.stack(before), CANON.stack(after))
                del EVENTS[:]
                if how == "forward_backward":
                    # forward_backward rebuilds the term inside its own AdjointTape block
                    with AdjointTape():
                        want = brute_force(term)
                else:
                    want = brute_force(term)
                ev_want = {(n, CANON.stack(st[:len(before)])) for n, st in EVENTS if n == "K"}
                del EVENTS[:]
                if isinstance(got, Exception):
                    return "declined", repr(got)[:100]
                if got is not want and skey(got) != skey(want):
                    return "VIOLATION", "%s gave %r, rebuilding node by node in the same contexts gives %r" % (how, got, want)
                memo = any(c.startswith("memo") for c in chain)
                if not memo and how != "forward_backward" and ev_got != ev_want:
                    return "VIOLATION", "K's rule fired at %r, by hand at %r" % (sorted(ev_got), sorted(ev_want))
                return "ok", ""
        except CATCHABLE as e:
            return "refused", type(e).__name__
    finally:
        del EVENTS[:]
        STACK[:] = list(BASE)


def leaf_tree_replay(chain, tree, how):
    st, detail = leaf_tree_case(chain, tree, how)
    print(st, detail)
    return st == "VIOLATION"


def replay(prog, inv, expected):
    """True iff the program still misbehaves: a block did not restore `_STACK`, or an observation differs
    from the model's prediction `expected`."""
    if CANON.stack(BASE) != "reflect,eager":
        print("default stack is", CANON.stack(BASE))
        return True
    r = RealRun(inv)
    out, fin = r.run(prog)
    line = out + "|" + fin + "|" + "|".join(r.obs)
    for w, b, a in r.viol:
        print(f"{w}: _STACK before [{b}] after [{a}]")
    if line != expected:
        got, exp = line.split("|"), expected.split("|")
        for i in range(max(len(got), len(exp))):
            x = got[i] if i < len(got) else "<missing>"
            y = exp[i] if i < len(exp) else "<missing>"
            if x != y:
                print(f"first difference at field {i}: real {x}   model {y}")
                break
    return bool(r.viol) or line != expected
