"""
C18 — compiled and traced programs compute what interpretation computes.

Correspondence.  Lazy expressions of the compiler's fragment are generated as DAG specs (constants as
Number / Tensor, real and integer inputs, Unary, Binary, Contraction without reduction, Tuple incl. nested,
empty and element-sharing tuples, shared sub-expressions), built under `reflect` / `lazy`, and then

  gate (property)   compile_funsor(expr)(**data)            ==  expr(**data)           exact / 1e-12
                    exec(program.as_code())(**data)         ==  same                   (SyntaxError for `(,)` and
                                                                 printed ndarray constants is an allowed decline)
                    pickle round trip of the program        ==  same
                    missing / extra keyword                 ->  rejected (program and printed function)
                    Tensor constant with named inputs       ->  declined (NotImplementedError) or right
                    trace_function(fn, data)(**data)        ==  fn(**data)   (KeyError of the dag extraction = decline)
  gate (model tie)  Lean `run` of the REAL program triple   ==  Lean `eval` of the expression (exact rationals /
                    free terms for ops without exact model)  ==  the real value (rel 1e-9; inexact float products)
                    Lean `execCode (asCode prog)`           ==  the same
                    Lean rejects exactly the missing / extra bindings the real program rejects
  counted (fidelity, not gated: a harmless renumbering must not alarm)
                    real anf order == model anf order; real (constants, inputs, operations) == model
                    `compileWith` on the real order and on the model's own anf; expr.inputs order;
                    tracer: real triple == model `traceCompile`, real KeyError <=> model KeyError.
"""
import json
import pickle
import re
from collections import OrderedDict
from fractions import Fraction

import numpy as np

from ..common import sx, parse_sx, Q
from ..futil import funsor, Tensor, Number, Variable, Bint, Real, Reals, ops

from funsor.terms import Unary, Binary, Tuple, Funsor
from funsor.cnf import Contraction
from funsor.compiler import compile_funsor, lower
from funsor.interpretations import lazy, reflect, eager
from funsor.interpreter import anf as real_anf, reinterpret
from funsor.ops.program import OpProgram, make_tuple
from funsor.ops.tracer import trace_function, is_variable
from funsor.ops.op import trace_ops

EXACT_UN = ["neg", "abs"]
TRANS_UN = ["exp", "sigmoid", "tanh", "log1p", "log", "atanh", "sqrt"]
# partner applied DIRECTLY on top of an op with probability 0.35 (op . inverse chains; filled at import from the
# `.inv` attributes of the TransformOps and from ops.UNARY_INVERSES, see inverse_pairs())
WILD_VALS = [-30.0, -3.0, 3.0, 18.0, 40.0, 800.0, -800.0, 1e-3, -1.0, 1.0]
EXACT_BIN = ["add", "sub", "mul", "max", "min"]
OTHER_BIN = ["truediv"]
NAMES = ["x", "y", "z", "w", "a_b", "i", "j", "k", "value", "V1", "x1", "u_v"]
# names that look like as_code()'s temporaries / imports: "decline or right value"
TEMP_NAMES = ["v0", "v1", "v2", "v3", "_v0", "_v1", "v", "_v", "__v2", "v10", "vv", "ops", "set_backend"]
RESERVED = ("ops", "set_backend")
VALS = [-2.0, -1.5, -1.0, -0.5, 0.5, 1.0, 1.5, 2.0, 3.0, 0.0, 0.25]


class Decline(Exception):
    pass


# ---------------------------------------------------------------------------------------------
# case specs  (json-able):  nodes = list of
#   ["var", name, "real"|"reals"|"bint", size]   ["num", value]   ["tensor", [values] | value]
#   ["btensor", [values], input_name]            ["un", op, i]     ["bin", op, i, j]
#   ["contr", op, [i…]]                          ["tuple", [i…]]
# root = index; interp = "reflect" | "lazy"; n = common array length (0 = all scalars)
# ---------------------------------------------------------------------------------------------

def gen_spec(rng, tier, batched=False, names=None):
    n = rng.choice([0, 0, 2, 3])
    names = list(names or NAMES)
    rng.shuffle(names)
    if rng.random() < 0.15:
        extra = [t for t in TEMP_NAMES if t not in RESERVED or rng.random() < 0.25]
        rng.shuffle(extra)
        names = names + extra[:rng.choice([1, 2, 4])]      # popped first
    nvars = rng.choice([0, 1, 1, 2, 2, 3, 4])
    nodes = []
    scal = []      # indices of scalar-valued (non tuple) nodes
    tup = []
    used_names = []
    for _ in range(nvars):
        name = names.pop()
        kind = rng.choice(["real", "real", "reals", "bint"]) if n else rng.choice(["real", "real", "bint"])
        size = n if kind == "reals" else (rng.choice([2, 3, 4]) if kind == "bint" else 0)
        nodes.append(["var", name, kind, size])
        scal.append(len(nodes) - 1)
        used_names.append(name)
    nconst = rng.choice([0, 1, 1, 2, 3]) if nvars else rng.choice([1, 2])
    for _ in range(nconst):
        r = rng.random()
        if r < 0.45:
            v = rng.choice(VALS + [1, 2, 3, -1])
            nodes.append(["num", v])
        elif r < 0.7 or not n:
            nodes.append(["tensor", rng.choice(VALS)])
        elif rng.random() < 0.15:
            nodes.append(["tensor", [rng.choice(VALS)]])                       # 1-element array
        else:
            nodes.append(["tensor", [rng.choice(VALS) for _ in range(n)]])
        scal.append(len(nodes) - 1)
    if batched:
        iname = names.pop()
        size = rng.choice([2, 3])
        nodes.append(["btensor", [rng.choice(VALS) for _ in range(size)], iname])
        scal.append(len(nodes) - 1)
    nops = rng.randint(0, 9 if tier == "quick" else 14)
    trans = rng.random() < 0.3
    for _ in range(nops):
        r = rng.random()
        pick = lambda: scal[-1 - min(int(rng.expovariate(0.5)), len(scal) - 1)]   # prefer recent nodes: deep DAGs
        if r < 0.25:
            op = rng.choice(EXACT_UN + (TRANS_UN if trans else []))
            nodes.append(["un", op, pick()])
            partner = dict(inverse_pairs()).get(op)
            if partner and rng.random() < 0.35:
                scal.append(len(nodes) - 1)
                nodes.append(["un", partner, len(nodes) - 1])          # op . inverse, directly
        elif r < 0.9:
            op = rng.choice(EXACT_BIN + EXACT_BIN + OTHER_BIN + ["logaddexp"])
            a, b = pick(), pick()
            if rng.random() < 0.15:
                b = a                                  # x*x: the same child twice
            nodes.append(["bin", op, a, b])
        else:
            op = rng.choice(["add", "mul", "max", "min", "logaddexp", "logaddexp", "sample"])
            k = rng.choice([2, 3, 4])
            terms = [pick() for _ in range(k)]
            if rng.random() < 0.4:
                terms[-1] = terms[0]                   # the same cons-hashed operand twice
            nodes.append(["contr", op, terms])
        scal.append(len(nodes) - 1)
    # a comparison (constant on either side, or two nodes) reduced by all / any
    if scal and rng.random() < 0.12:
        a, b = scal[-1 - min(int(rng.expovariate(0.5)), len(scal) - 1)], rng.choice(scal)
        nodes.append(["bin", rng.choice(["lt", "le", "gt", "ge", "eq", "ne"]), a, b])
        nodes.append(["un", rng.choice(["all", "any"]), len(nodes) - 1])
        scal.append(len(nodes) - 1)
    # tuples on top
    r = rng.random()
    if r < 0.45:
        root = scal[-1]
    else:
        ntup = rng.choice([1, 1, 2, 3, 4])
        for t in range(ntup):
            k = rng.choice([1, 2, 2, 3, 4]) if rng.random() < 0.92 else 0
            pool = scal[-4:] + scal[-2:] + tup + tup      # recent nodes; nested tuples are likely
            elems = [rng.choice(pool) for _ in range(k)]
            if elems and rng.random() < 0.3:
                elems.append(elems[0])                    # a tuple sharing an element with itself
            nodes.append(["tuple", elems])
            tup.append(len(nodes) - 1)
        root = tup[-1]
    # logaddexp / sample are float-only ops (numpy's finfo rejects integer arrays): keep them away from specs with
    # integer inputs or integer Number constants
    if any(nd[0] == "var" and nd[2] == "bint" for nd in nodes) or any(nd[0] == "num" and isinstance(nd[1], int) for nd in nodes):
        for nd in nodes:
            if nd[0] in ("bin", "contr") and nd[1] in ("logaddexp", "sample"):
                nd[1] = "max"
    interp = rng.choice(["reflect", "reflect", "lazy", "eager"])
    return {"nodes": nodes, "root": root, "interp": interp, "n": n, "wild": trans and rng.random() < 0.5}


def gen_data(rng, spec):
    data = {}
    n = spec["n"]
    # boundary values: the literal constants of the expression (ties for comparisons / clamps), 0 and +-1
    consts = [float(nd[1]) for nd in spec["nodes"] if nd[0] in ("num", "tensor") and not isinstance(nd[1], list)]
    VALS = globals()["VALS"] + (WILD_VALS if spec.get("wild") else []) + (consts * 3 + [0.0, 1.0, -1.0] if consts else [])
    for nd in spec["nodes"]:
        if nd[0] == "var":
            _, name, kind, size = nd
            if kind == "real":
                data[name] = rng.choice(VALS)
            elif kind == "reals":
                data[name] = [rng.choice(VALS) for _ in range(size)]
            else:
                data[name] = rng.randrange(size)
        elif nd[0] == "btensor":
            data[nd[2]] = rng.randrange(len(nd[1]))
    return data


def np_data(spec, data):
    out = {}
    kinds = {nd[1]: nd[2] for nd in spec["nodes"] if nd[0] == "var"}
    for k, v in data.items():
        if kinds.get(k, "bint") == "bint":
            out[k] = np.array(v, dtype=np.int64)
        else:
            out[k] = np.array(v, dtype=np.float64)
    return out


def build(spec):
    """spec -> (funsor, [funsor per node])."""
    interp = {"reflect": reflect, "lazy": lazy, "eager": eager}[spec["interp"]]
    built = []
    with interp:
        for nd in spec["nodes"]:
            k = nd[0]
            if k == "var":
                dom = {"real": Real, "reals": Reals[nd[3]] if nd[2] == "reals" else None,
                       "bint": Bint[nd[3]] if nd[2] == "bint" else None}[nd[2]]
                f = Variable(nd[1], dom)
            elif k == "num":
                f = Number(nd[1])
            elif k == "tensor":
                f = Tensor(np.array(nd[1], dtype=np.float64))
            elif k == "btensor":
                f = Tensor(np.array(nd[1], dtype=np.float64), OrderedDict([(nd[2], Bint[len(nd[1])])]))
            elif k == "un":
                f = Unary(getattr(ops, nd[1]), built[nd[2]])
            elif k == "bin":
                f = Binary(getattr(ops, nd[1]), built[nd[2]], built[nd[3]])
            elif k == "contr":
                f = Contraction(ops.null, getattr(ops, nd[1]), frozenset(), tuple(built[i] for i in nd[2]))
            elif k == "tuple":
                f = Tuple(tuple(built[i] for i in nd[1]))
            else:
                raise ValueError(k)
            built.append(f)
    return built[spec["root"]], built


NP_UN = {"all": lambda x: np.asarray(np.all(x), dtype=np.float64), "any": lambda x: np.asarray(np.any(x), dtype=np.float64),
         "neg": np.negative, "abs": np.abs, "exp": np.exp, "tanh": np.tanh, "log1p": np.log1p,
         "sigmoid": lambda x: 1.0 / (1.0 + np.exp(-x)), "log": np.log, "atanh": np.arctanh,
         "reciprocal": np.reciprocal, "sqrt": np.sqrt}
def _intop(f):
    return lambda a, b: f(np.asarray(a).astype(np.int64), np.asarray(b).astype(np.int64)).astype(np.float64)


def _cmpop(f):
    return lambda a, b: f(a, b).astype(np.float64)


NP_BIN = {"lt": _cmpop(np.less), "le": _cmpop(np.less_equal), "gt": _cmpop(np.greater), "ge": _cmpop(np.greater_equal),
          "eq": _cmpop(np.equal), "ne": _cmpop(np.not_equal),
          "add": np.add, "sub": np.subtract, "mul": np.multiply, "max": np.maximum, "min": np.minimum,
          "truediv": np.true_divide, "logaddexp": np.logaddexp, "sample": np.logaddexp,
          "and_": _intop(np.bitwise_and), "or_": _intop(np.bitwise_or), "xor": _intop(np.bitwise_xor)}
ASSOC_REAL = ["add", "mul", "max", "min", "logaddexp", "sample"]
ASSOC_INT = ["add", "mul", "max", "min", "and_", "or_", "xor", "sample"]


def spec_eval(spec, npd):
    """Independent numpy evaluation of every node of the spec (used to keep the clean stream inside the ops'
    domains: division by zero is evaluated differently by eager funsor (clamped reciprocal) and by numpy)."""
    vals = []
    for nd in spec["nodes"]:
        k = nd[0]
        if k == "var":
            v = np.asarray(npd.get(nd[1], np.nan), dtype=np.float64)
        elif k == "num":
            v = np.asarray(nd[1], dtype=np.float64)
        elif k == "tensor":
            v = np.asarray(nd[1], dtype=np.float64)
        elif k == "btensor":
            v = np.asarray(nd[1], dtype=np.float64)[int(npd.get(nd[2], 0))]
        elif k == "un":
            v = NP_UN[nd[1]](vals[nd[2]])
        elif k == "bin":
            v = NP_BIN[nd[1]](vals[nd[2]], vals[nd[3]])
        elif k == "contr":
            v = vals[nd[2][0]]
            for i in nd[2][1:]:
                v = NP_BIN[nd[1]](v, vals[i])
        else:
            v = tuple(vals[i] for i in nd[1])
        vals.append(v)
    return vals


def extract_data(x):
    if isinstance(x, (Number, Tensor)):
        if isinstance(x, Tensor) and x.inputs:
            raise Decline("result has inputs")
        return x.data
    if isinstance(x, Tuple):
        return tuple(extract_data(a) for a in x.args)
    raise Decline(f"lazy result {type(x).__name__}")


def same_value(a, b, tol):
    """Nested tuples of arrays/scalars: same nesting, same shape, same numbers (nan == nan)."""
    if isinstance(a, tuple) or isinstance(b, tuple):
        return (isinstance(a, tuple) and isinstance(b, tuple) and len(a) == len(b)
                and all(same_value(x, y, tol) for x, y in zip(a, b)))
    a = np.asarray(a, dtype=np.float64)
    b = np.asarray(b, dtype=np.float64)
    if a.shape != b.shape:
        return False
    if tol:
        return bool(np.allclose(a, b, rtol=tol, atol=tol, equal_nan=True))
    return bool(np.array_equal(a, b, equal_nan=True))


def jsonable(v):
    if isinstance(v, tuple):
        return [jsonable(x) for x in v]
    return np.asarray(v).tolist()


# ---------------------------------------------------------------------------------------------
# serialisation of the lowered expression for the Lean model
# ---------------------------------------------------------------------------------------------

class Ser:
    def __init__(self):
        self.memo = {}
        self.consts = []        # funsor constants in first-visit order
        self.cid = {}

    def expr(self, f):
        key = id(f)
        if key in self.memo:
            return self.memo[key]
        if isinstance(f, (Number, Tensor)):
            if id(f) not in self.cid:
                self.cid[id(f)] = len(self.consts)
                self.consts.append(f)
            s = f"(c {self.cid[id(f)]})"
        elif isinstance(f, Variable):
            s = f'(v "{f.name}")'
        elif isinstance(f, Unary):
            s = f"(u {f.op.__name__} {self.expr(f.arg)})"
        elif isinstance(f, Binary):
            s = f"(b {f.op.__name__} {self.expr(f.lhs)} {self.expr(f.rhs)})"
        elif isinstance(f, Tuple):
            s = "(t" + "".join(" " + self.expr(a) for a in f.args) + ")"
        else:
            raise Decline(f"outside the model's fragment: {type(f).__name__}")
        self.memo[key] = s
        return s

    def src(self, f):
        """the expression BEFORE lowering: Contraction without reduced variables as (k op E…)"""
        key = ("src", id(f))
        if key in self.memo:
            return self.memo[key]
        if isinstance(f, Contraction):
            if f.reduced_vars:
                raise Decline("contraction with reduced variables")
            s = f"(k {f.bin_op.__name__}" + "".join(" " + self.src(a) for a in f.terms) + ")"
        elif isinstance(f, Unary):
            s = f"(u {f.op.__name__} {self.src(f.arg)})"
        elif isinstance(f, Binary):
            s = f"(b {f.op.__name__} {self.src(f.lhs)} {self.src(f.rhs)})"
        elif isinstance(f, Tuple):
            s = "(t" + "".join(" " + self.src(a) for a in f.args) + ")"
        else:
            s = self.expr(f)
        self.memo[key] = s
        return s

    def node(self, f):
        if isinstance(f, tuple):
            return "(raw" + "".join(" " + self.expr(a) for a in f) + ")"
        return f"(fn {self.expr(f)})"


def prog_triple(program, ser):
    """Real OpProgram -> wire triple (constants as model constant ids)."""
    cs = []
    for c in program.constants:
        hit = [k for k, f in enumerate(ser.consts) if f.data is c]
        if not hit:
            hit = [k for k, f in enumerate(ser.consts)
                   if type(f.data) is type(c) and np.shape(f.data) == np.shape(c) and np.array_equal(f.data, c)]
        if not hit:
            raise Decline("program constant not found among the expression's constants")
        cs.append(hit[0])
    opsl = []
    for op, arg_ids in program.operations:
        name = "mk" if op is make_tuple else op.__name__
        opsl.append("(" + " ".join([name] + [str(int(i)) for i in arg_ids]) + ")")
    return "((" + " ".join(map(str, cs)) + ") (" + " ".join(f'"{n}"' for n in program.inputs) + ") (" + " ".join(opsl) + "))"


def positions(spec):
    return [None] if not spec["n"] else list(range(spec["n"]))


def at(v, p):
    a = np.asarray(v)
    if a.ndim > 1 or (a.ndim == 1 and p is None):
        raise Decline("array rank beyond the per-position model")
    if a.ndim == 0:
        return a[()]
    return a[0] if a.shape[0] == 1 else a[p]


def wire_num(x):
    x = x.item() if hasattr(x, "item") else x
    if isinstance(x, (bool, int)):
        return str(int(x))
    if x != x or x in (float("inf"), float("-inf")):
        return None
    f = Fraction(x)
    return str(f.numerator) if f.denominator == 1 else f"{f.numerator}/{f.denominator}"


def wire_consts(ser, p):
    out = []
    for f in ser.consts:
        w = wire_num(at(f.data, p))
        if w is None:
            raise Decline("non-finite constant")
        out.append(w)
    return "(" + " ".join(out) + ")"


def wire_kw(npd, p, order=None):
    items = []
    for k in (order or list(npd)):
        w = wire_num(at(npd[k], p))
        items.append(f'("{k}" {w})')
    return "(" + " ".join(items) + ")"


def lean_value_matches(v, real, p, tol=1e-9):
    """Parsed Lean value (atoms / ['t', …] / ['s', …]) vs the real value at position p.
    Returns True / False / None (None = not comparable: uninterpreted op or non-finite)."""
    if isinstance(v, list):
        if v and v[0] == "t":
            if not isinstance(real, tuple) or len(real) != len(v) - 1:
                return False
            res = [lean_value_matches(x, r, p, tol) for x, r in zip(v[1:], real)]
            if False in res:
                return False
            return None if None in res else True
        if v and v[0] == "s":
            return None
        if v == []:
            return False
        return None
    if isinstance(real, tuple):
        return False
    r = float(at(real, p))
    if r != r or r in (float("inf"), float("-inf")):
        return None
    q = float(Fraction(v))
    return abs(q - r) <= tol * max(1.0, abs(q), abs(r))


# ---------------------------------------------------------------------------------------------
# replay snippet
# ---------------------------------------------------------------------------------------------

PY_TEMPLATE = '''
# replay for C18 ({what}): compile_funsor(expr)(**data) vs expr(**data) (and as_code / pickle)
import json, pickle, numpy as np
from collections import OrderedDict
import funsor, funsor.ops as ops
funsor.set_backend("numpy")
from funsor.terms import Variable, Number, Unary, Binary, Tuple
from funsor.tensor import Tensor
from funsor.cnf import Contraction
from funsor.domains import Real, Reals, Bint
from funsor.interpretations import reflect, lazy, eager
from funsor.compiler import compile_funsor
spec = json.loads({spec!r})
data = json.loads({data!r})
def build(spec):
    b = []
    with {{"reflect": reflect, "lazy": lazy, "eager": eager}}[spec["interp"]]:
        for nd in spec["nodes"]:
            k = nd[0]
            if k == "var": f = Variable(nd[1], Real if nd[2] == "real" else (Reals[nd[3]] if nd[2] == "reals" else Bint[nd[3]]))
            elif k == "num": f = Number(nd[1])
            elif k == "tensor": f = Tensor(np.array(nd[1], dtype=np.float64))
            elif k == "btensor": f = Tensor(np.array(nd[1], dtype=np.float64), OrderedDict([(nd[2], Bint[len(nd[1])])]))
            elif k == "un": f = Unary(getattr(ops, nd[1]), b[nd[2]])
            elif k == "bin": f = Binary(getattr(ops, nd[1]), b[nd[2]], b[nd[3]])
            elif k == "contr": f = Contraction(ops.null, getattr(ops, nd[1]), frozenset(), tuple(b[i] for i in nd[2]))
            elif k == "tuple": f = Tuple(tuple(b[i] for i in nd[1]))
            b.append(f)
    return b[spec["root"]]
def extract(x):
    return tuple(extract(a) for a in x.args) if isinstance(x, Tuple) else x.data
def same(a, b):
    if isinstance(a, tuple) or isinstance(b, tuple):
        return isinstance(a, tuple) and isinstance(b, tuple) and len(a) == len(b) and all(same(x, y) for x, y in zip(a, b))
    a, b = np.asarray(a, dtype=float), np.asarray(b, dtype=float)
    return a.shape == b.shape and bool(np.allclose(a, b, rtol=1e-11, atol=1e-11, equal_nan=True))
kinds = {{nd[1]: nd[2] for nd in spec["nodes"] if nd[0] == "var"}}
npd = {{k: np.array(v, dtype=(np.int64 if kinds.get(k, "bint") == "bint" else np.float64)) for k, v in data.items()}}
expr = build(spec)
FAILS = False
with np.errstate(all="ignore"):
    expected = extract(funsor.reinterpret(expr(**npd)))
    try:
        program = compile_funsor(expr)
    except NotImplementedError:
        program = None                      # a decline is allowed
    except Exception as e:
        program = None; FAILS = True; print("compile_funsor raised", repr(e))
    if program is not None:
        try:
            variants = [("program", program), ("pickle", pickle.loads(pickle.dumps(program)))]
            try:
                env = {{}}; exec(program.as_code(), None, env); variants.append(("as_code", env["program"]))
            except (SyntaxError, ValueError, NotImplementedError) as e:
                print("as_code declined:", repr(e))
            for nm, fn in variants:
                got = fn(**npd)
                print(nm, got, "expected", expected)
                FAILS = FAILS or not same(got, expected)
            for bad in {bad!r}:
                kw = dict(npd)
                if bad == "+":
                    kw["zz_extra"] = np.array(1.0)
                elif bad in kw:
                    del kw[bad]
                else:
                    continue
                try:
                    program(**kw); FAILS = True; print("accepted bad kwargs", sorted(kw))
                except (ValueError, TypeError):
                    pass
        except Exception as e:
            print("program raised", repr(e)); FAILS = True
print("FAILS =", FAILS)
'''


def snippet(what, spec, data, bad=()):
    return PY_TEMPLATE.format(what=what, spec=json.dumps(spec), data=json.dumps(data), bad=list(bad))




# ---------------------------------------------------------------------------------------------
# which lowering functions and which raw op defaults the cases execute (reported in the evidence)
# ---------------------------------------------------------------------------------------------

import sys as _sys
import contextlib as _contextlib

COVERAGE = {"lower": {}, "raw_ops": {}}


@_contextlib.contextmanager
def covered():
    """Record every function of funsor/compiler.py and funsor/ops/{builtin,array}.py entered inside the block."""
    def prof(frame, event, arg):
        if event == "call":
            fnm = frame.f_code.co_filename
            if fnm.endswith("funsor/compiler.py"):
                d = COVERAGE["lower"]
            elif fnm.endswith("funsor/ops/builtin.py") or fnm.endswith("funsor/ops/array.py"):
                d = COVERAGE["raw_ops"]
            else:
                return
            key = fnm.rsplit("/", 1)[1] + ":" + frame.f_code.co_name
            d[key] = d.get(key, 0) + 1
    old = _sys.getprofile()
    _sys.setprofile(prof)
    try:
        yield
    finally:
        _sys.setprofile(old)


def report_coverage(ctx):
    import ast
    from ..common import REPO
    tree = ast.parse((REPO / "funsor" / "compiler.py").read_text())
    lowering = [n.name for n in ast.walk(tree) if isinstance(n, ast.FunctionDef) and n.name.startswith("_lower")]
    fired = {k.split(":")[1]: v for k, v in COVERAGE["lower"].items()}
    ctx.extra["lowering_functions_fired"] = {nm: fired.get(nm, 0) for nm in lowering}
    ctx.extra["lowering_functions_never_fired"] = [nm for nm in lowering if not fired.get(nm)]
    ctx.extra["raw_op_defaults_fired"] = dict(sorted(COVERAGE["raw_ops"].items()))
    for nm in lowering:
        ctx.count(f"lowering:{nm}:" + ("fired" if fired.get(nm) else "NEVER-FIRED"))

# ---------------------------------------------------------------------------------------------
# extract: source-form table of OpProgram.__call__ (regenerated on every run)
# ---------------------------------------------------------------------------------------------

MUTATORS = {"append", "extend", "insert", "pop", "remove", "clear", "sort", "reverse", "update", "setdefault",
            "popitem", "add", "discard", "__setitem__", "__delitem__", "__setattr__", "__delattr__", "fill", "put",
            "resize", "itemset", "setflags", "sort", "partition", "appendleft", "popleft", "extendleft", "move_to_end"}


def scan_call_sites(src):
    """Every statement of OpProgram.__call__ that stores into / deletes from / calls a mutating method on an
    object, with whether that object is `self`, an attribute of `self`, or a local alias of one
    (`env = self._env`; a Call such as `list(self.constants)` makes a fresh object and breaks the alias)."""
    import ast
    tree = ast.parse(src)
    fn = None
    for node in ast.walk(tree):
        if isinstance(node, ast.ClassDef) and node.name == "OpProgram":
            for b in node.body:
                if isinstance(b, ast.FunctionDef) and b.name == "__call__":
                    fn = b
    if fn is None:
        raise RuntimeError("OpProgram.__call__ not found")
    selfname = fn.args.args[0].arg
    alias = {selfname}

    def root(e):
        while isinstance(e, (ast.Attribute, ast.Subscript, ast.Starred)):
            e = e.value
        return e.id if isinstance(e, ast.Name) else None

    def is_alias_expr(e):
        """expression that denotes (part of) the object's own state without copying"""
        if isinstance(e, ast.Name):
            return e.id in alias
        if isinstance(e, (ast.Attribute, ast.Subscript)):
            return root(e) in alias
        if isinstance(e, ast.IfExp):
            return is_alias_expr(e.body) or is_alias_expr(e.orelse)
        if isinstance(e, ast.BoolOp):
            return any(is_alias_expr(v) for v in e.values)
        if isinstance(e, ast.NamedExpr):
            return is_alias_expr(e.value)
        return False

    sites = []

    def site(node, kind, target):
        r = root(target)
        touches = r in alias
        sites.append((node.lineno, kind, ast.unparse(target), touches))

    def bind(target, value):
        if isinstance(target, ast.Name):
            if value is not None and is_alias_expr(value):
                alias.add(target.id)
            elif target.id != selfname:
                alias.discard(target.id)
        elif isinstance(target, (ast.Tuple, ast.List)):
            for t in target.elts:
                bind(t, value if value is not None and is_alias_expr(value) else None)

    def visit(stmts):
        for st in stmts:
            for node in ast.walk(st) if not isinstance(st, (ast.For, ast.While, ast.If, ast.With, ast.Try)) else [st]:
                pass
            if isinstance(st, ast.Assign):
                for t in st.targets:
                    if isinstance(t, (ast.Attribute, ast.Subscript)):
                        site(st, "store", t)
                    bind(t, st.value)
            elif isinstance(st, ast.AnnAssign) and st.value is not None:
                if isinstance(st.target, (ast.Attribute, ast.Subscript)):
                    site(st, "store", st.target)
                bind(st.target, st.value)
            elif isinstance(st, ast.AugAssign):
                site(st, "augstore", st.target)
            elif isinstance(st, ast.Delete):
                for t in st.targets:
                    if isinstance(t, (ast.Attribute, ast.Subscript)):
                        site(st, "delete", t)
            # mutating method calls and setattr/delattr anywhere in the statement's own expressions
            exprs = []
            if isinstance(st, (ast.For, ast.AsyncFor)):
                exprs = [st.iter]
                bind(st.target, st.iter if is_alias_expr(st.iter) else None)
            elif isinstance(st, ast.While):
                exprs = [st.test]
            elif isinstance(st, ast.If):
                exprs = [st.test]
            elif isinstance(st, (ast.With, ast.AsyncWith)):
                exprs = [i.context_expr for i in st.items]
            elif isinstance(st, ast.Try):
                exprs = []
            else:
                exprs = [st]
            for e in exprs:
                for node in ast.walk(e):
                    if isinstance(node, ast.Call):
                        f = node.func
                        if isinstance(f, ast.Attribute) and f.attr in MUTATORS:
                            site(node, "method:" + f.attr, f.value)
                        elif isinstance(f, ast.Name) and f.id in ("setattr", "delattr") and node.args:
                            site(node, f.id, node.args[0])
                    elif isinstance(node, ast.NamedExpr):
                        bind(node.target, node.value)
            for field in ("body", "orelse", "finalbody"):
                sub = getattr(st, field, None)
                if isinstance(sub, list) and sub and isinstance(sub[0], ast.stmt):
                    visit(sub)
            for h in getattr(st, "handlers", []) or []:
                visit(h.body)

    visit(fn.body)
    return sites


def scan_prefix_guard(src):
    """as_code's rename guard: the `while <test>: v = "_" + v` loop.  Source form of <test>: does it range over ALL of
    self.inputs, and does it test the prefix against the name itself (name.startswith(v))?  Also the initial prefix."""
    import ast
    tree = ast.parse(src)
    fn = None
    for node in ast.walk(tree):
        if isinstance(node, ast.FunctionDef) and node.name == "as_code":
            fn = node
    prefix, test = "v", None
    for node in ast.walk(fn):
        if isinstance(node, ast.While):
            for b in node.body:
                if (isinstance(b, ast.Assign) and isinstance(b.targets[0], ast.Name) and isinstance(b.value, ast.BinOp)
                        and isinstance(b.value.right, ast.Name) and b.value.right.id == b.targets[0].id):
                    test = node.test
                    var = b.targets[0].id
                    for a in ast.walk(fn):
                        if (isinstance(a, ast.Assign) and isinstance(a.targets[0], ast.Name) and a.targets[0].id == var
                                and isinstance(a.value, ast.Constant) and isinstance(a.value.value, str)):
                            prefix = a.value.value
    if test is None:
        return {"found": False, "all_inputs": False, "startswith": False, "source": "", "prefix": prefix}
    all_inputs = startswith = False
    if (isinstance(test, ast.Call) and isinstance(test.func, ast.Name) and test.func.id == "any" and test.args
            and isinstance(test.args[0], ast.GeneratorExp) and len(test.args[0].generators) == 1):
        gen = test.args[0].generators[0]
        it = gen.iter
        all_inputs = (isinstance(it, ast.Attribute) and it.attr == "inputs" and isinstance(it.value, ast.Name)
                      and it.value.id == "self" and not gen.ifs and isinstance(gen.target, ast.Name))
        e = test.args[0].elt
        startswith = (isinstance(e, ast.Call) and isinstance(e.func, ast.Attribute) and e.func.attr == "startswith"
                      and isinstance(e.func.value, ast.Name) and isinstance(gen.target, ast.Name)
                      and e.func.value.id == gen.target.id and len(e.args) == 1 and isinstance(e.args[0], ast.Name)
                      and e.args[0].id == var)
    return {"found": True, "all_inputs": bool(all_inputs), "startswith": bool(startswith), "source": ast.unparse(test),
            "prefix": prefix}


def extract(ctx):
    from ..common import REPO, LEAN
    src = (REPO / "funsor" / "ops" / "program.py").read_text()
    sites = scan_call_sites(src)
    guard = scan_prefix_guard(src)
    ctx.extra["prefix_guard"] = guard
    q = lambda t: t.replace("\\", "\\\\").replace('"', '\\"')
    body = ",\n".join(f'  ⟨{ln}, "{q(kind)}", "{q(tgt)}", {"true" if touches else "false"}⟩' for ln, kind, tgt, touches in sites)
    text = ("/-\n  Gen/C18CallSites.lean — GENERATED by fv/harness/c18.py (extract) from funsor/ops/program.py on every run of\n"
            "  ./check C18.  Do not edit.  One entry per statement of OpProgram.__call__ that stores into, deletes from or\n"
            "  calls a mutating method on an object; `touchesSelf` = the object is `self`, reached through `self`, or a local\n"
            "  alias of such an object (a Call like `list(self.constants)` makes a fresh object).\n-/\n"
            "namespace FV.Gen.C18\n\nstructure CallSite where\n  line : Nat\n  kind : String\n  target : String\n"
            "  touchesSelf : Bool\n  deriving Repr, DecidableEq\n\ndef callSites : List CallSite := [\n" + body + "\n]\n\n"
            "/-- Source form of as_code's rename guard `while <test>: v = \"_\" + v`. -/\n"
            "structure PrefixGuard where\n  found : Bool\n  rangesOverAllInputs : Bool\n  testsNameStartswithPrefix : Bool\n"
            "  initialPrefix : String\n  source : String\n  deriving Repr, DecidableEq\n\n"
            "def prefixGuard : PrefixGuard :=\n  ⟨" + ("true" if guard["found"] else "false") + ", "
            + ("true" if guard["all_inputs"] else "false") + ", " + ("true" if guard["startswith"] else "false")
            + ', "' + q(guard["prefix"]) + '", "' + q(guard["source"]) + '"⟩\n\nend FV.Gen.C18\n')
    f = LEAN / "FunsorVerif" / "Gen" / "C18CallSites.lean"
    if not f.exists() or f.read_text() != text:
        f.write_text(text)
    ctx.extra["call_sites"] = [list(x) for x in sites]

# ---------------------------------------------------------------------------------------------
# one compiler case
# ---------------------------------------------------------------------------------------------

def has_kind(spec, kind):
    return any(nd[0] == kind for nd in spec["nodes"])


def reachable_kinds(spec):
    seen = set()
    stack = [spec["root"]]
    while stack:
        i = stack.pop()
        if i in seen:
            continue
        seen.add(i)
        nd = spec["nodes"][i]
        if nd[0] == "un":
            stack.append(nd[2])
        elif nd[0] == "bin":
            stack += [nd[2], nd[3]]
        elif nd[0] in ("contr",):
            stack += nd[2]
        elif nd[0] == "tuple":
            stack += nd[1]
    return seen


def check_case(ctx, spec, data, use_driver=True, stream="clean"):
    """Returns True when the case was evaluated (not skipped)."""
    wit = {"spec": spec, "data": data, "stream": stream}
    try:
        expr, built = build(spec)
    except (NotImplementedError, ValueError, TypeError, AssertionError, ArithmeticError) as e:
        ctx.count("skip:build-" + type(e).__name__)
        return False
    npd_all = np_data(spec, data)
    npd = {k: v for k, v in npd_all.items() if k in expr.inputs}
    if set(npd) != set(expr.inputs):
        ctx.count("skip:data")
        return False
    reach = reachable_kinds(spec)
    rk = lambda kind: any(spec["nodes"][i][0] == kind for i in reach)
    has_trans = any(spec["nodes"][i][0] == "un" and spec["nodes"][i][1] not in EXACT_UN for i in reach)
    # exact comparison only where float arithmetic is exact whatever the evaluation order (dyadic data under
    # add/sub/neg/abs/max/min); eager funsor may evaluate x/y as x*reciprocal(y) and reassociate products
    inexact = has_trans or any(spec["nodes"][i][0] in ("bin", "contr")
                               and spec["nodes"][i][1] in ("mul", "truediv", "logaddexp", "sample")
                               for i in reach)
    tol = 1e-11 if inexact else 0.0
    batched = rk("btensor")
    with np.errstate(all="ignore"):
        oracle = spec_eval(spec, npd_all)
        # NaN and +-inf are VALUES the program must reproduce (nan == nan, inf == inf).  The only region kept
        # out is a division whose divisor is 0 or non-finite (eager funsor evaluates x/y through a clamped
        # reciprocal there, numpy's true_divide gives inf/nan: the two sides of the property are not comparable)
        for i in reach:
            nd = spec["nodes"][i]
            divisors = []
            if nd[0] == "bin" and nd[1] == "truediv":
                divisors = [oracle[nd[3]]]
            elif nd[0] == "un" and nd[1] == "reciprocal":
                divisors = [oracle[nd[2]]]
            for dv in divisors:
                if not (np.all(np.isfinite(dv)) and np.all(dv != 0) and np.all(np.abs(dv) > 1e-150)):
                    ctx.count("skip:division-by-zero-or-nonfinite")
                    return False
        nonfinite = any(not isinstance(oracle[i], tuple) and not np.all(np.isfinite(oracle[i])) for i in reach)
        # ---- compile -------------------------------------------------------------------------
        try:
            with covered():
                program = compile_funsor(expr)
        except NotImplementedError as e:
            ctx.count("declined:compile" + (":batched-tensor" if batched else ""))
            ctx.case(nontrivial_key=None)
            return True
        except Exception as e:
            # the model (and `compile_correct`) say every expression of this fragment compiles
            ctx.fail("input", "C18.compile-raises", witness=wit, got=repr(e), expected="an OpProgram",
                     python=snippet("compile", spec, data))
            return True
        # ---- specification value -------------------------------------------------------------
        try:
            r = expr(**npd)
            try:
                expected = extract_data(r)
            except Decline:
                # ground sub-terms built under reflect/lazy stay deferred: evaluate them eagerly
                expected = extract_data(reinterpret(r))
                ctx.count("spec:needed-reinterpret")
            if not same_value(expected, oracle[spec["root"]], 1e-9):
                # funsor's own interpreter normalises while substituting (cnf.unary_log_exp cancels exp(log(x)) of
                # a deferred argument, division goes through a clamped reciprocal): outside the ops' domains its
                # value differs from the plain numpy meaning of the expression (exp(log(-1598.)) -> -1598., numpy
                # nan).  That is C01/C02's subject; the two sides of C18 are only comparable where they agree.
                ctx.count("skip:substitution-value-ne-numpy-oracle(interpreter normalised outside the domain)")
                return False
            if nonfinite:
                ctx.count("has:nan-or-inf-value")
        except Decline:
            ctx.count("skip:lazy-result")
            return False
        except Exception as e:
            ctx.count("skip:eval-" + type(e).__name__)
            return False
        # ---- the program ---------------------------------------------------------------------
        variants = [("program", program)]
        try:
            variants.append(("pickle", pickle.loads(pickle.dumps(program))))
        except Exception as e:
            ctx.fail("input", "C18.pickle-raises", witness=wit, got=repr(e), expected="a program",
                     python=snippet("pickle", spec, data))
            return True
        reserved = any(nm in RESERVED for nm in program.inputs)
        array_const = any(np.ndim(c) >= 1 for c in program.constants)
        try:
            code = program.as_code()
        except (ValueError, NotImplementedError) as e:
            # allowed declines: inputs named ops / set_backend (ValueError), array constants (NotImplementedError)
            if not ((reserved and isinstance(e, ValueError)) or (array_const and isinstance(e, NotImplementedError))):
                ctx.fail("input", "C18.as_code-raises", witness=wit, got=repr(e), expected="python source",
                         python=snippet("as_code", spec, data))
                return True
            ctx.count("as_code:declined-" + ("reserved-name" if isinstance(e, ValueError) else "ndarray-const"))
            code = None
        empty_tuple = any(spec["nodes"][i][0] == "tuple" and not spec["nodes"][i][1] for i in reach)
        try:
            if code is not None:
                env = {}
                exec(code, None, env)
                variants.append(("as_code", env["program"]))
                ctx.count("as_code:exec")
        except SyntaxError as e:
            if empty_tuple:
                ctx.count("as_code:declined-syntax(empty-tuple)")
            else:
                ctx.fail("input", "C18.as_code-syntax", witness=wit, got=code, expected="valid python",
                         python=snippet("as_code", spec, data))
                return True
        for nm, fn in variants:
            try:
                with covered():
                    got = fn(**npd)
            except Exception as e:
                if nm == "as_code" and isinstance(e, (ArithmeticError, ValueError)) and "math domain" in (str(e) + "math domain" * isinstance(e, ArithmeticError)):
                    # a 0-d ndarray constant is printed as a python float: math.log1p(-1.0) raises where numpy gives -inf
                    ctx.count("as_code:python-float-arithmetic-raises")
                    continue
                if (nm == "as_code" and isinstance(e, NameError)
                        and any(np.ndim(c) == 0 and not np.isfinite(np.asarray(c, dtype=np.float64)) for c in program.constants)):
                    # a non-finite constant (folded by the eager interpretation) is printed as `nan` / `inf`
                    ctx.count("as_code:declined-nonfinite-constant(NameError)")
                    continue
                ctx.fail("input", f"C18.{nm}-raises", witness=wit, got=repr(e), expected=jsonable(expected),
                         python=snippet(nm, spec, data))
                return True
            if not same_value(got, expected, tol):
                if (nm == "as_code" and nonfinite
                        and any(isinstance(c, (np.ndarray, np.generic)) for c in program.constants)):
                    # a 0-d ndarray constant is printed as a python float, and funsor's scalar ops treat the
                    # out-of-domain points differently from numpy (ops.log(-2.0) = -inf, np.log(-2.0) = nan)
                    ctx.count("as_code:python-float-semantics-differs-outside-domain")
                    continue
                ctx.fail("input", f"C18.{nm}-ne-eval", witness=wit, got=jsonable(got), expected=jsonable(expected),
                         python=snippet(nm, spec, data))
                return True
        # ---- missing / unexpected inputs ---------------------------------------------------------
        bad = []
        names = list(npd)
        drop = ctx.rng.choice(names) if names else None
        for kind in ("missing", "extra"):
            kw = dict(npd)
            if kind == "missing":
                if drop is None:
                    continue
                del kw[drop]
                bad.append(drop)
            else:
                kw["zz_extra"] = np.array(1.0)
                bad.append("+")
            for nm, fn in variants:
                try:
                    r = fn(**kw)
                except (ValueError, TypeError):
                    ctx.count(f"rejected:{kind}")
                    continue
                except Exception as e:
                    ctx.count(f"rejected-other:{type(e).__name__}")
                    continue
                ctx.fail("input", f"C18.{nm}-accepts-{kind}-input", witness=dict(wit, kwargs=sorted(kw)),
                         got=jsonable(r), expected="ValueError", python=snippet(kind, spec, data, bad))
                return True
    # ---- distribution ----------------------------------------------------------------------------
    nops = len(program.operations)
    ctx.count(f"ops:{min(nops, 12)}")
    ctx.count(f"inputs:{len(program.inputs)}")
    ctx.count(f"consts:{len(program.constants)}")
    ctx.count("interp:" + spec["interp"])
    for kind in ("tuple", "contr", "btensor"):
        if rk(kind):
            ctx.count("has:" + kind)
    nested = any(spec["nodes"][i][0] == "tuple" and any(spec["nodes"][j][0] == "tuple" for j in spec["nodes"][i][1])
                 for i in reach)
    if nested:
        ctx.count("has:nested-tuple")
    if empty_tuple:
        ctx.count("has:empty-tuple")
    if any(k == "bint" for k in [nd[2] for nd in spec["nodes"] if nd[0] == "var" and nd[1] in npd]):
        ctx.count("has:int-input")
    if has_trans:
        ctx.count("has:transcendental")
    if any(nm in TEMP_NAMES for nm in program.inputs):
        ctx.count("has:temporary-like-input-name")
    shared = len(set(i for _, a in program.operations for i in a)) < sum(len(a) for _, a in program.operations)
    if shared:
        ctx.count("has:shared-node")
    # ---- the Lean model -----------------------------------------------------------------------------
    if use_driver:
        ok = model_tie(ctx, spec, data, wit, expr, program, npd, expected, bad, code)
        if not ok:
            return True
    nontrivial = nops >= 2
    ctx.case(sample={"spec": spec, "data": data} if nontrivial else None,
             nontrivial_key=json.dumps([spec, data]) if nontrivial else None)
    return True


def model_tie(ctx, spec, data, wit, expr, program, npd, expected, bad, code):
    try:
        lowered = lower(expr)
        ser = Ser()
        e = ser.expr(lowered)
        order = list(real_anf(lowered))
        real_ord = "(" + " ".join(ser.node(f) for f in order) + ")"
        triple = prog_triple(program, ser)
    except Decline as d:
        ctx.count("beyond-model:" + str(d)[:40])
        return True
    ins = "(" + " ".join(f'"{n}"' for n in program.inputs) + ")"
    try:
        src = ser.src(expr)
    except Decline:
        src = e
    reqs = [f"C18 compile {e}", f"C18 compilewith {real_ord} {ins}", f"C18 inputs {e}", f"C18 lower {src}"]
    pos = positions(spec)
    per = []
    try:
        for p in pos:
            cs = wire_consts(ser, p)
            kw = wire_kw(npd, p)
            if any(w is None for w in re.findall(r'" ([^)]*)\)', kw)) or "None" in kw:
                raise Decline("non-finite input")
            per.append((p, len(reqs)))
            reqs += [f"C18 eval {e} {cs} {kw}", f"C18 run {triple} {cs} {kw}", f"C18 exec {triple} {cs} {kw}",
                     f"C18 evalsrc {src} {cs} {kw}"]
        p0 = pos[0]
        cs0 = wire_consts(ser, p0)
        bad_at = len(reqs)
        for b in bad:
            kwd = dict(npd)
            if b == "+":
                kwd["zz_extra"] = np.array(1.0)
            else:
                del kwd[b]
            reqs.append(f"C18 run {triple} {cs0} {wire_kw(kwd, p0)}")
            reqs.append(f"C18 exec {triple} {cs0} {wire_kw(kwd, p0)}")
    except Decline as d:
        ctx.count("beyond-model:" + str(d)[:40])
        return True
    ans = ctx.driver.ask(reqs)
    for a, r in zip(ans, reqs):
        if not a.startswith("ok "):
            ctx.infra_errors.append(f"driver answered {a!r} to {r[:300]}")
            return False
    # fidelity (counted)
    body = ans[0][3:]
    model_ord, _, model_prog = body.rpartition(" ((") if False else (None, None, None)
    parsed = parse_sx("(" + body + ")")
    if len(parsed) == 2:
        m_ord, m_prog = parsed
        r_ord = parse_sx(real_ord)
        ctx.count("fidelity:anf-order-" + ("same" if m_ord == r_ord else "DIFFERENT"))
        r_trip = parse_sx(triple)
        ctx.count("fidelity:program(model anf)-" + ("same" if m_prog == r_trip else "DIFFERENT"))
    else:
        ctx.count("fidelity:model-compile-error")
    ctx.count("fidelity:program(real order)-" + ("same" if parse_sx(ans[1][3:]) == parse_sx(triple) else "DIFFERENT"))
    ctx.count("fidelity:lower(model)-vs-real-lower-" + ("same" if parse_sx(ans[3][3:]) == parse_sx(e) else "DIFFERENT"))
    ctx.count("fidelity:inputs-order-" + ("same" if parse_sx(ans[2][3:]) == [Q(n) for n in program.inputs] else "DIFFERENT"))
    # gates
    exec_ok = "as_code:exec" if True else None
    for p, i in per:
        ev, rn, ex, es = (parse_sx(a[3:]) for a in ans[i:i + 4])
        # the real lowering, read by the Lean semantics with UNINTERPRETED transcendental ops, must denote the
        # source expression (lower_denote): counted, a sound algebraic simplification would show up here too
        ctx.count("fidelity:lean-eval(real lowered)-vs-evalSrc(source)-" + ("same" if es == ev else "DIFFERENT"))
        if isinstance(ev, list) and ev and ev[0] == "error":
            ctx.infra_errors.append(f"Lean eval failed: {ans[i]} for {reqs[i][:300]}")
            return False
        if rn != ev:
            # the REAL program, run by the Lean model of OpProgram, disagrees with the Lean specification
            ctx.fail("input", "C18.lean-run(real program)-ne-lean-eval",
                     witness=dict(wit, program=triple, position=p), got=ans[i + 1], expected=ans[i],
                     python=snippet("program vs eval", spec, data))
            return False
        m = lean_value_matches(ev, expected, p)
        if m is False:
            ctx.fail("correspondence", "C18.lean-eval-ne-real-eval", witness=dict(wit, position=p),
                     got=jsonable(expected), expected=ans[i])
            return False
        ctx.count("lean-vs-real:" + ("numeric" if m else "symbolic-only"))
        if ex != ev:
            if code is None:
                ctx.count("lean-exec:declined-reserved-name")
            else:
                ctx.fail("correspondence", "C18.lean-exec(as_code)-ne-lean-eval",
                         witness=dict(wit, program=triple, position=p), got=ans[i + 2], expected=ans[i])
                return False
    j = bad_at
    for b in bad:
        for t, a in enumerate(ans[j:j + 2]):
            v = parse_sx(a[3:])
            want = "unrecognized" if b == "+" else "missing"
            ok_kinds = (want,) if t == 0 else (want, "reserved")       # the printed code may have been declined
            if not (isinstance(v, list) and len(v) >= 2 and v[0] == "error" and v[1] in ok_kinds):
                ctx.fail("correspondence", "C18.lean-model-accepts-bad-input", witness=dict(wit, bad=b),
                         got=a, expected=f"(error {want} …)")
                return False
        j += 2
    return True



# ---------------------------------------------------------------------------------------------
# parametrised ops (program._print_op): clamp, reductions (axis x keepdims x ddof), argmax/argmin, getslice,
# getitem(offset), reshape/transpose/permute/unsqueeze/expand, triangular_solve/inv.
# pspec nodes:  ["var", name, [shape]]  ["num", v]  ["ew", op, i, j]  ["un", op, i]
#               ["pop", op, [params], i]   (ops.<op>(arg, *params), lists = tuples)
#               ["pbin", op, [params], i, j]   ["slice", "<python index expr>", i]   ["getitem", offset, i, k, size]
#               ["tuple", [i…]]
# ---------------------------------------------------------------------------------------------

P_INPUTS = {"x": [3, 2], "y": [2], "s": [], "A": [2, 2], "B": [2, 1]}
P_DATA = {"x": [[1.0, -2.0], [0.5, 3.0], [-1.0, 0.25]], "y": [2.0, -0.5], "s": 1.5,
          "A": [[2.0, 0.0], [1.0, 4.0]], "B": [[1.0], [2.0]]}
REDUCTIONS = ["sum", "prod", "amax", "amin", "logsumexp", "mean"]
BOOL_REDUCTIONS = ["all", "any"]
ARG_REDUCTIONS = ["argmax", "argmin"]
MOMENT_REDUCTIONS = ["std", "var"]
SLICES = ["0", "(slice(None, None, None), 1)", "slice(1, 3, None)", "(Ellipsis, 0)", "(0, 1)", "slice(None, None, 2)",
          "(slice(0, 2, None), slice(None, None, None))", "-1"]


def _tup(v):
    return tuple(_tup(x) for x in v) if isinstance(v, list) else v


def pbuild(pspec):
    built = []
    with {"reflect": reflect, "lazy": lazy, "eager": eager}[pspec.get("interp", "reflect")]:
        for nd in pspec["nodes"]:
            k = nd[0]
            if k == "var":
                f = Variable(nd[1], Reals[tuple(nd[2])] if nd[2] else Real)
            elif k == "ivar":
                f = Variable(nd[1], Bint[nd[2]])
            elif k == "vindex":
                env = {"slice": slice, "Ellipsis": Ellipsis}
                env.update({nm: built[j] for nm, j in nd[3].items()})
                f = built[nd[2]][eval(nd[1], {"__builtins__": {}}, env)]
            elif k == "num":
                f = Number(nd[1])
            elif k == "tconst":
                f = Tensor(np.array(nd[1], dtype=np.float64))
            elif k == "ew":
                f = Binary(getattr(ops, nd[1]), built[nd[2]], built[nd[3]])
            elif k == "un":
                f = Unary(getattr(ops, nd[1]), built[nd[2]])
            elif k == "pop" and nd[1] == "reshape":
                f = built[nd[3]].reshape(_tup(nd[2][0]))
            elif k == "pop":
                f = getattr(ops, nd[1])(built[nd[3]], *[_tup(v) for v in nd[2]])
            elif k == "pbin":
                f = getattr(ops, nd[1])(built[nd[3]], built[nd[4]], *[_tup(v) for v in nd[2]])
            elif k == "slice":
                f = built[nd[2]][eval(nd[1], {"__builtins__": {}}, {"slice": slice, "Ellipsis": Ellipsis})]
            elif k == "getitem":
                f = Binary(ops.GetitemOp(nd[1]), built[nd[2]], Number(nd[3], nd[4]))
            elif k == "tuple":
                f = Tuple(tuple(built[i] for i in nd[1]))
            else:
                raise ValueError(k)
            built.append(f)
    return built[pspec["root"]]


P_TEMPLATE = """
# replay for C18 (parametrised ops, {what}): substitution vs program vs pickled program vs exec(as_code())
import json, pickle, numpy as np
import funsor, funsor.ops as ops
funsor.set_backend("numpy")
from funsor.terms import Variable, Number, Unary, Binary, Tuple
from funsor.tensor import Tensor
from funsor.domains import Real, Reals, Bint
from funsor.interpretations import reflect, lazy, eager
from funsor.compiler import compile_funsor
pspec = json.loads({spec!r})
ivars = {{nd[1] for nd in pspec["nodes"] if nd[0] == "ivar"}}
data = {{k: np.array(v, dtype=(np.int64 if k in ivars else np.float64)) for k, v in json.loads({data!r}).items()}}
tup = lambda v: tuple(tup(x) for x in v) if isinstance(v, list) else v
b = []
with {{"reflect": reflect, "lazy": lazy, "eager": eager}}[pspec.get("interp", "reflect")]:
    for nd in pspec["nodes"]:
        k = nd[0]
        if k == "var": f = Variable(nd[1], Reals[tuple(nd[2])] if nd[2] else Real)
        elif k == "ivar": f = Variable(nd[1], Bint[nd[2]])
        elif k == "vindex": f = b[nd[2]][eval(nd[1], {{"slice": slice, "Ellipsis": Ellipsis, **{{nm: b[j] for nm, j in nd[3].items()}}}})]
        elif k == "num": f = Number(nd[1])
        elif k == "tconst": f = Tensor(np.array(nd[1], dtype=np.float64))
        elif k == "ew": f = Binary(getattr(ops, nd[1]), b[nd[2]], b[nd[3]])
        elif k == "un": f = Unary(getattr(ops, nd[1]), b[nd[2]])
        elif k == "pop" and nd[1] == "reshape": f = b[nd[3]].reshape(tup(nd[2][0]))
        elif k == "pop": f = getattr(ops, nd[1])(b[nd[3]], *[tup(v) for v in nd[2]])
        elif k == "pbin": f = getattr(ops, nd[1])(b[nd[3]], b[nd[4]], *[tup(v) for v in nd[2]])
        elif k == "slice": f = b[nd[2]][eval(nd[1])]
        elif k == "getitem": f = Binary(ops.GetitemOp(nd[1]), b[nd[2]], Number(nd[3], nd[4]))
        elif k == "tuple": f = Tuple(tuple(b[i] for i in nd[1]))
        b.append(f)
expr = b[pspec["root"]]
def extract(x):
    return tuple(extract(a) for a in x.args) if isinstance(x, Tuple) else x.data
def same(a, b):
    if isinstance(a, tuple) or isinstance(b, tuple):
        return isinstance(a, tuple) and isinstance(b, tuple) and len(a) == len(b) and all(same(x, y) for x, y in zip(a, b))
    a, b = np.asarray(a, dtype=float), np.asarray(b, dtype=float)
    return a.shape == b.shape and bool(np.allclose(a, b, rtol=1e-11, atol=1e-11, equal_nan=True))
data = {{k: v for k, v in data.items() if k in expr.inputs}}
FAILS = False
with np.errstate(all="ignore"):
    expected = extract(funsor.reinterpret(expr(**data)))
    program = compile_funsor(expr)
    variants = [("program", program), ("pickle", pickle.loads(pickle.dumps(program)))]
    try:
        env = {{}}; exec(program.as_code(), None, env); variants.append(("as_code", env["program"]))
    except (SyntaxError, NotImplementedError, ValueError) as e:
        print("as_code declined:", repr(e))
    for nm, fn in variants:
        try:
            got = fn(**data)
        except Exception as e:
            print(nm, "raised", repr(e)); FAILS = True; continue
        print(nm, got, "expected", expected)
        FAILS = FAILS or not same(got, expected)
print("FAILS =", FAILS)
"""


def check_pcase(ctx, pspec, use_driver=True, label="param"):
    pdata = pspec.get("data", P_DATA)
    ivars = {nd[1] for nd in pspec["nodes"] if nd[0] == "ivar"}
    wit = {"pspec": pspec, "data": pdata, "stream": label}
    py = P_TEMPLATE.format(what=label, spec=json.dumps(pspec), data=json.dumps(pdata))
    try:
        expr = pbuild(pspec)
    except Exception as e:
        ctx.count(f"param:skip-build:{label}:{type(e).__name__}")
        return False
    data = {k: np.array(v, dtype=(np.int64 if k in ivars else np.float64)) for k, v in pdata.items() if k in expr.inputs}
    with np.errstate(all="ignore"):
        try:
            expected = extract_data(reinterpret(expr(**data)))
        except Exception as e:
            ctx.count(f"param:skip-eval:{label}:{type(e).__name__}")
            return False
        flat = []
        def fl(v):
            (flat.extend(np.ravel(np.asarray(v, dtype=np.float64))) if not isinstance(v, tuple) else [fl(x) for x in v])
        fl(expected)
        if not np.all(np.isfinite(flat)):
            ctx.count(f"param:skip-nonfinite:{label}")
            return False
        try:
            with covered():
                program = compile_funsor(expr)
        except NotImplementedError:
            ctx.count(f"param:declined-compile:{label}")
            return True
        except Exception as e:
            ctx.fail("input", "C18.compile-raises", witness=wit, got=repr(e), expected="an OpProgram", python=py)
            return True
        variants = [("program", program)]
        try:
            variants.append(("pickle", pickle.loads(pickle.dumps(program))))
        except Exception as e:
            ctx.fail("input", "C18.pickle-raises", witness=wit, got=repr(e), expected="a program", python=py)
            return True
        try:
            code = program.as_code()
            env = {}
            exec(code, None, env)
            variants.append(("as_code", env["program"]))
            ctx.count("param:as_code:exec")
        except (NotImplementedError, ValueError) as e:
            ctx.count(f"param:as_code-declined:{label}")
        except SyntaxError as e:
            ctx.fail("input", "C18.as_code-syntax", witness=wit, got=code, expected="valid python", python=py)
            return True
        for nm, fn in variants:
            try:
                with covered():
                    got = fn(**data)
            except Exception as e:
                ctx.fail("input", f"C18.{nm}-raises", witness=wit, got=repr(e), expected=jsonable(expected), python=py)
                return True
            if not same_value(got, expected, 1e-11):
                ctx.fail("input", f"C18.{nm}-ne-eval", witness=wit, got=jsonable(got), expected=jsonable(expected),
                         python=py)
                return True
    ctx.count(f"param:{label}")
    # model of _print_op on every parametrised op of the program (fidelity: counted)
    if use_driver:
        from funsor.ops.program import _print_op
        reqs, real = [], []
        for op, _ in program.operations:
            if op is make_tuple or not getattr(op, "defaults", None):
                continue
            try:
                dflt = type(op)().defaults
            except Exception:
                continue
            q = lambda xs: "(" + " ".join('"' + str(x).replace('"', "'") + '"' for x in xs) + ")"
            reqs.append(f'C18 printop "{type(op).__name__}" {q(op.defaults.keys())} {q([dflt.get(k, "<required>") for k in op.defaults])} {q(op.defaults.values())}')
            real.append((op, _print_op(op)))
        if reqs:
            for a, (op, txt) in zip(ctx.driver.ask(reqs), real):
                if not a.startswith("ok "):
                    ctx.infra_errors.append(f"driver answered {a!r}")
                    return True
                pr, back = parse_sx("(" + a[3:] + ")")
                model_txt = (f"ops.{pr[1]}(" + ", ".join(pr[2]) + ")") if pr[0] == "ctor" else None
                if pr[0] == "ref":
                    same_txt = txt == repr(op)
                else:
                    same_txt = txt == model_txt
                ctx.count("param-fidelity:print_op-" + ("same" if same_txt else "DIFFERENT"))
                if back == "none" or [str(x) for x in back] != [str(v) for v in op.defaults.values()]:
                    ctx.infra_errors.append(f"Lean printOp does not round-trip on {txt}: {a}")
                    return True
    nops = len(program.operations)
    ctx.case(sample=wit if len(ctx.samples) < 6 and nops >= 2 else None,
             nontrivial_key=("param", json.dumps(pspec)) if nops >= 2 else None)
    return True


def param_specs():
    """Exhaustive: every parametrised op x every default / non-default combination of its parameters,
    applied to the shared sub-expression e = x*s + y (shape (3,2)) and re-used afterwards."""
    V = lambda n: ["var", n, P_INPUTS[n]]
    base = [V("x"), V("s"), V("y"), ["ew", "mul", 0, 1], ["ew", "add", 3, 2]]       # node 4 = e
    E = 4
    out = []

    def wrap(label, extra, use_s=True):
        nodes = base + extra
        r = len(nodes) - 1
        nodes = nodes + ([["ew", "mul", r, 1]] if use_s else []) + [["tuple", [len(nodes) if use_s else r, E]]]
        out.append((label, {"nodes": nodes, "root": len(nodes) - 1, "interp": "reflect"}))
    for lo in (None, -0.25):
        for hi in (None, 0.5):
            wrap(f"clamp({lo},{hi})", [["pop", "clamp", [lo, hi], E]])
    for op in REDUCTIONS + ARG_REDUCTIONS:
        for axis in (None, 0, 1, -1):
            for keep in (False, True):
                wrap(f"{op}(axis={axis},keepdims={keep})", [["pop", op, [axis, keep], E]])
    for op in BOOL_REDUCTIONS:
        for axis in (None, 0, 1, -1):
            for keep in (False, True):
                wrap(f"{op}(axis={axis},keepdims={keep})",
                     [["num", 0.5], ["ew", "gt", E, 5], ["pop", op, [axis, keep], 6]], use_s=False)
    for op in MOMENT_REDUCTIONS:
        for axis in (None, 0, 1):
            for ddof in (0, 1):
                for keep in (False, True):
                    wrap(f"{op}(axis={axis},ddof={ddof},keepdims={keep})", [["pop", op, [axis, ddof, keep], E]])
    for ix in SLICES:
        wrap(f"getslice[{ix}]", [["slice", ix, E]])
    for off in (0, 1):
        for k in (0, 1):
            wrap(f"getitem(offset={off})[{k}]", [["getitem", off, E, k, 3 if off == 0 else 2]])
    for shape in ([2, 3], [6], [1, 3, 2], [3, 2]):
        wrap(f"reshape{shape}", [["pop", "reshape", [shape], E]])
    for a, b_ in ((0, 1), (1, 0), (-1, -2), (0, 0)):
        wrap(f"transpose({a},{b_})", [["pop", "transpose", [a, b_], E]])
    for perm in ([1, 0], [0, 1]):
        wrap(f"permute{perm}", [["pop", "permute", [perm], E]])
    for d in (0, 1, 2, -1):
        wrap(f"unsqueeze({d})", [["pop", "unsqueeze", [d], E]])
    wrap("expand", [["pop", "expand", [[4, 3, 2]], E]])
    for upper in (False, True):
        wrap(f"triangular_inv(upper={upper})", [V("A"), ["pop", "triangular_inv", [upper], 5]])
        for tr in (False, True):
            wrap(f"triangular_solve(upper={upper},transpose={tr})",
                 [V("A"), V("B"), ["pbin", "triangular_solve", [upper, tr], 6, 5]])
    return out


def gen_pspec(rng):
    """Random compositions: parametrised ops stacked on each other with element-wise glue and sharing."""
    nodes = [["var", "x", P_INPUTS["x"]], ["var", "s", []], ["var", "y", P_INPUTS["y"]],
             ["ew", rng.choice(["mul", "add", "sub"]), 0, 1], ["ew", rng.choice(["add", "sub", "mul"]), 3, 2]]
    pool = [0, 3, 4]
    labels = []
    for _ in range(rng.randint(1, 4)):
        src = rng.choice(pool[-3:])
        r = rng.random()
        if r < 0.25:
            lo, hi = rng.choice([(None, 0.5), (-0.25, None), (-0.5, 0.75), (None, -0.25), (None, None)])
            nodes.append(["pop", "clamp", [lo, hi], src]); labels.append("clamp")
        elif r < 0.6:
            op = rng.choice(REDUCTIONS + ARG_REDUCTIONS[:1])
            nodes.append(["pop", op, [rng.choice([None, 0, -1, None]), rng.choice([False, True, True])], src]); labels.append(op)
        elif r < 0.75:
            op = rng.choice(MOMENT_REDUCTIONS)
            nodes.append(["pop", op, [rng.choice([None, None, 0]), rng.choice([0, 1, 1]), rng.choice([False, True])], src])
            labels.append(op)
        elif r < 0.87:
            nodes.append(["slice", rng.choice(["0", "(Ellipsis, 0)", "-1", "slice(None, None, 2)"]), src]); labels.append("getslice")
        else:
            nodes.append(["pop", "unsqueeze", [rng.choice([0, -1])], src]); labels.append("unsqueeze")
        pool.append(len(nodes) - 1)
        if rng.random() < 0.5:
            nodes.append(["ew", rng.choice(["add", "mul", "sub", "max"]), pool[-1], rng.choice([1, pool[-1]])])
            pool.append(len(nodes) - 1)
    if rng.random() < 0.5:
        nodes.append(["tuple", [pool[-1], rng.choice(pool)]])
    return "+".join(labels), {"nodes": nodes, "root": len(nodes) - 1, "interp": rng.choice(["reflect", "lazy"])}


def param_stream(ctx, use_driver=True):
    import warnings
    with warnings.catch_warnings():
        warnings.simplefilter("ignore")          # numpy: "Degrees of freedom <= 0" on var(ddof=1) of one element
        _param_stream(ctx, use_driver)


def _param_stream(ctx, use_driver=True):
    # a term outside the fragment reaches the singledispatch base `compiler._lower` and is declined
    with reflect:
        yv = Variable("y", Reals[2])
        fin = ops.stack((yv, yv * 2.0))
    try:
        with covered():
            compile_funsor(fin)
        ctx.count("param:finitary-stack-compiled")
    except NotImplementedError:
        ctx.count("param:declined-compile:finitary-stack(_lower base)")
    for label, pspec in param_specs():
        check_pcase(ctx, pspec, use_driver, label.split("(")[0].split("[")[0])
        if any(f.witness is not None for f in ctx.failures) or ctx.infra_errors:
            return
    n = 150 if ctx.tier == "quick" else 1500
    for _ in range(n):
        label, pspec = gen_pspec(ctx.rng)
        check_pcase(ctx, pspec, use_driver, "random")
        if any(f.witness is not None for f in ctx.failures) or ctx.infra_errors:
            return


# ---------------------------------------------------------------------------------------------
# op . inverse chains (the lowering step must not "simplify" them: they are the identity only on the
# principal domain) — enumerated from the ops' own `.inv` table at run time
# ---------------------------------------------------------------------------------------------

_INV = None


def inverse_pairs():
    """[(op name, inverse op name)] for every unary op with a registered inverse Op, both directions,
    plus the self-inverse values of ops.UNARY_INVERSES (neg, reciprocal) and sqrt/abs-style partial inverses."""
    global _INV
    if _INV is None:
        from funsor.ops.op import Op
        pairs = []
        for nm in sorted(dir(ops)):
            o = getattr(ops, nm)
            try:
                inv = getattr(o, "inv", None) if isinstance(o, Op) and type(o).arity == 1 else None
            except Exception:
                inv = None
            if isinstance(inv, Op) and getattr(ops, getattr(inv, "__name__", ""), None) is inv and o.__name__ == nm:
                pairs.append((nm, inv.__name__))
        for u in getattr(ops, "UNARY_INVERSES", {}).values():
            if getattr(ops, u.__name__, None) is u:
                pairs.append((u.__name__, u.__name__))
        pairs.append(("abs", "abs"))
        _INV = sorted(set(p for p in pairs if p[0] in NP_UN and p[1] in NP_UN))
    return _INV


INV_DATA = {"z": [-30.0, -3.0, -1.0, -0.5, 0.25, 0.75, 3.0, 18.0, 800.0],
            "y": [40.0, 0.5, -18.0, 1.0, -0.25, 709.0, -710.0, 2.0, -1e-3]}


def inverse_specs():
    out = []
    V = lambda nm: ["var", nm, "reals", 9]
    for f, g in inverse_pairs():
        for interp in ("reflect", "lazy"):
            mk = lambda nodes, root: {"nodes": nodes, "root": root, "interp": interp, "n": 9}
            fg = [V("z"), ["un", g, 0], ["un", f, 1]]                       # node 2 = f(g(z))
            out.append((f"{f}.{g}:root", mk(fg, 2)))
            out.append((f"{f}.{g}:middle", mk(fg + [["num", 2.0], ["bin", "mul", 2, 3], V("y"), ["bin", "add", 4, 5]], 6)))
            out.append((f"{f}.{g}:shared-tuple", mk(fg + [["tuple", [2, 0]], ["tuple", [2, 1, 3]]], 4)))
            out.append((f"{f}.{g}:triple", mk(fg + [["un", g, 2], ["bin", "sub", 3, 0]], 4)))
            out.append((f"{f}.{g}:both", mk(fg + [V("y"), ["un", f, 3], ["un", g, 4], ["bin", "add", 2, 5]], 6)))
            out.append((f"{f}.{g}:contr", mk(fg + [V("y"), ["contr", "add", [2, 3, 2]], ["un", f, 4], ["un", g, 5]], 6)))
    return out


def inverse_stream(ctx, use_driver=True):
    for label, spec in inverse_specs():
        check_case(ctx, spec, dict(INV_DATA), use_driver=use_driver, stream="inverse:" + label.split(":")[1])
        ctx.count("inverse-chain:" + label.split(":")[0])
        if any(f.witness is not None for f in ctx.failures) or ctx.infra_errors:
            return


# ---------------------------------------------------------------------------------------------
# associative ops with REPEATED identical operands (Contraction terms are a multiset: x (+) x is not x unless
# the op is idempotent) — every associative op funsor has, as explicit Contractions and as Binary chains that
# the default interpretation normalises to Contractions
# ---------------------------------------------------------------------------------------------

ASSOC_DATA_REAL = {"x": [0.5, -1.0, 2.0], "y": [-0.25, 3.0, 1.5], "z": 0.75}
ASSOC_DATA_INT = [{"b": 1, "c": 0, "i": 2}, {"b": 1, "c": 1, "i": 1}, {"b": 0, "c": 1, "i": 0}]


def assoc_specs():
    out = []
    Vr = lambda nm, n_=3: ["var", nm, "reals" if n_ else "real", n_]
    Vi = lambda nm, k: ["var", nm, "bint", k]
    for op in ASSOC_REAL:
        base = [Vr("x"), Vr("y"), Vr("z", 0), ["bin", "mul", 0, 1], ["bin", "sub", 3, 2]]      # 3 = x*y, 4 = x*y - z
        forms = {
            "x.x": [["contr", op, [0, 0]]],
            "x.x.x": [["contr", op, [0, 0, 0]]],
            "x.y.x": [["contr", op, [0, 1, 0]]],
            "t.y.t": [["contr", op, [3, 1, 3]]],
            "t.t": [["contr", op, [4, 4]]],
            "nested": [["contr", op, [3, 1]], ["contr", op, [5, 3]]],
            "tuple": [["contr", op, [0, 0]], ["contr", op, [5, 5, 1]], ["tuple", [5, 6, 0]]],
            "chain x.x": [["bin", op, 0, 0]],
            "chain (x.y).x": [["bin", op, 0, 1], ["bin", op, 5, 0]],
            "chain (t.y).t": [["bin", op, 3, 1], ["bin", op, 5, 3]],
            "chain x.x.x": [["bin", op, 0, 0], ["bin", op, 5, 0]],
        }
        for label, extra in forms.items():
            nodes = base + extra
            for interp in (("reflect", "eager") if label.startswith("chain") else ("reflect", "lazy", "eager")):
                out.append((f"{op}:{label}", {"nodes": nodes, "root": len(nodes) - 1, "interp": interp, "n": 3},
                            [ASSOC_DATA_REAL]))
    for op in ASSOC_INT:
        for k in (2, 3):
            base = [Vi("b", k), Vi("c", k), Vi("i", 3)]
            forms = {
                "b.b": [["contr", op, [0, 0]]],
                "b.c.b": [["contr", op, [0, 1, 0]]],
                "b.b.b": [["contr", op, [0, 0, 0]]],
                "chain b.b": [["bin", op, 0, 0]],
                "chain (b.c).b": [["bin", op, 0, 1], ["bin", op, 3, 0]],
                "chain (b.c).(b.c)": [["bin", op, 0, 1], ["bin", op, 3, 3]],
                "chain mixed": [["bin", op, 0, 2], ["bin", op, 3, 0], ["tuple", [4, 3]]],
            }
            for label, extra in forms.items():
                nodes = base + extra
                for interp in (("reflect", "eager") if label.startswith("chain") else ("reflect", "eager")):
                    out.append((f"{op}:{label}:Bint[{k}]", {"nodes": nodes, "root": len(nodes) - 1, "interp": interp, "n": 0},
                                [{kk: min(v, k - 1) if kk != "i" else v for kk, v in d.items()} for d in ASSOC_DATA_INT]))
    return out


def assoc_stream(ctx, use_driver=True):
    for label, spec, datas in assoc_specs():
        for data in datas:
            if check_case(ctx, spec, dict(data), use_driver=use_driver, stream="assoc:" + label):
                ctx.count("assoc-repeated-operand:" + label.split(":")[0])
            if any(f.witness is not None for f in ctx.failures) or ctx.infra_errors:
                return


# ---------------------------------------------------------------------------------------------
# funsor-valued indices (Bint inputs) at EVERY offset of inputs of rank 1-4, equal and unequal sizes, mixed with
# slices and integer literals, chained, followed by arithmetic: the route Binary(GetitemOp(offset)) ->
# compiler._lower_binary -> the raw default ops.getitem(lhs, rhs, offset) that only programs call
# ---------------------------------------------------------------------------------------------

def index_specs(rng):
    import itertools
    out = []
    names = ["I", "J", "K", "L"]
    for rank in (1, 2, 3, 4):
        for shape in ([3] * rank, [2, 3, 4, 5][:rank], [4, 3, 3, 2][:rank]):
            size = int(np.prod(shape))
            xdata = (np.arange(size, dtype=np.float64).reshape(shape) * 0.25 - 1.0).tolist()    # all entries distinct
            for pattern in itertools.product([0, 1], repeat=rank):
                if not any(pattern):
                    continue
                for variant in ("plain", "slice", "literal", "post"):
                    nodes = [["var", "x", shape]]
                    parts, vmap, data = [], {}, {"x": xdata}
                    used_variant = False
                    eff, src = list(shape), 0
                    if variant == "slice":
                        # funsor refuses slices mixed with funsor indices in one subscript: slice first, then index
                        nodes.append(["slice", "(Ellipsis, slice(0, 2, None))", 0])
                        eff, src, used_variant = shape[:-1] + [min(2, shape[-1])], 1, True
                    for ax, p in enumerate(pattern):
                        if p:
                            nm = names[ax]
                            nodes.append(["ivar", nm.lower(), eff[ax]])
                            vmap[nm] = len(nodes) - 1
                            data[nm.lower()] = rng.randrange(eff[ax])
                            parts.append(nm)
                        elif variant == "literal" and not used_variant:
                            parts.append(str(shape[ax] - 1)); used_variant = True
                        else:
                            parts.append("slice(None, None, None)")
                    if variant in ("slice", "literal") and not used_variant:
                        continue
                    while parts and parts[-1] == "slice(None, None, None)":
                        parts.pop()                                   # x[:, i] rather than x[:, i, :]
                    ix = "(" + ", ".join(parts) + ("," if len(parts) == 1 else "") + ")"
                    nodes.append(["vindex", ix, src, vmap])
                    r = len(nodes) - 1
                    if variant == "post":
                        nodes += [["num", 1.5], ["ew", "mul", r, len(nodes)], ["un", "exp", r], ["ew", "add", len(nodes) + 1, len(nodes) + 2],
                                  ["tuple", [len(nodes) + 3, r]]]
                    out.append((f"rank{rank}", {"nodes": nodes, "root": len(nodes) - 1, "interp": rng.choice(["reflect", "eager", "lazy"]),
                                                "data": data}))
    # chained indexing and matmul after indexing (the seeded demo's shapes)
    for shape in ([3, 3, 4], [2, 3, 4]):
        xdata = (np.arange(int(np.prod(shape)), dtype=np.float64).reshape(shape) * 0.25 - 1.0).tolist()
        base = [["var", "x", shape], ["ivar", "i", shape[0]], ["ivar", "k", shape[2]], ["var", "w", [shape[1]]], ["ivar", "j", shape[1]]]
        data = {"x": xdata, "i": rng.randrange(shape[0]), "k": rng.randrange(shape[2]), "j": rng.randrange(shape[1]),
                "w": [0.5, -1.0, 2.0][:shape[1]]}
        forms = [
            [["vindex", "(slice(None, None, None), slice(None, None, None), K)", 0, {"K": 2}], ["ew", "matmul", 5, 3], ["num", 1.0], ["ew", "add", 6, 7]],
            [["vindex", "(I,)", 0, {"I": 1}], ["vindex", "(slice(None, None, None), K)", 5, {"K": 2}], ["un", "exp", 6], ["ew", "mul", 7, 3]],
            [["vindex", "(slice(None, None, None), J, K)", 0, {"J": 4, "K": 2}]],
            [["vindex", "(slice(None, None, None), slice(None, None, None), K)", 0, {"K": 2}], ["vindex", "(slice(None, None, None), J)", 5, {"J": 4}]],
            [["vindex", "(Ellipsis, K)", 0, {"K": 2}], ["vindex", "(I,)", 5, {"I": 1}], ["tuple", [6, 5]]],
        ]
        for extra in forms:
            nodes = base + extra
            out.append(("chained", {"nodes": nodes, "root": len(nodes) - 1, "interp": "eager", "data": data}))
    return out


def index_stream(ctx, use_driver=True):
    import warnings
    with warnings.catch_warnings():
        warnings.simplefilter("ignore")
        for label, pspec in index_specs(ctx.rng):
            check_pcase(ctx, pspec, use_driver, "index-" + label)
            if any(f.witness is not None for f in ctx.failures) or ctx.infra_errors:
                return


# ---------------------------------------------------------------------------------------------
# comparison ops at BOUNDARY values: six ops x {constant left, constant right, two inputs} x {Number, Tensor
# constant} on real and integer inputs whose data contain the threshold (ties in >= 1/3 of the entries); the
# masks also feed all() / any() and arithmetic
# ---------------------------------------------------------------------------------------------

CMP_OPS = ["lt", "le", "gt", "ge", "eq", "ne"]


def cmp_specs():
    out = []
    c = 0.5
    xs = [[0.5, 1.0, 0.5, -1.0, 0.0, 0.5], [0.5, 0.5, 0.5, 0.5, 0.5, 0.5], [0.25, 0.5, 0.75, 0.5, -0.5, 2.0]]
    ys = [0.5, 1.0, -1.0, -1.0, 0.5, 0.5]
    for op in CMP_OPS:
        for side in ("const-left", "const-right", "two-inputs"):
            for ckind in (("num", "tconst") if side != "two-inputs" else ("none",)):
                for post in ("mask", "all", "any", "where"):
                    for xi, xd in enumerate(xs):
                        nodes = [["var", "x", [6]], ["var", "y", [6]], [ckind, c] if ckind != "none" else ["num", c]]
                        if side == "const-left":
                            nodes.append(["ew", op, 2, 0])
                        elif side == "const-right":
                            nodes.append(["ew", op, 0, 2])
                        else:
                            nodes.append(["ew", op, 0, 1])
                        m = 3
                        if post in ("all", "any"):
                            nodes.append(["pop", post, [], m])
                        elif post == "where":
                            nodes += [["ew", "sub", 0, 2], ["tuple", [m, 4, 0]]]
                        out.append((f"{op}:{side}", {"nodes": nodes, "root": len(nodes) - 1,
                                                     "interp": ("reflect", "eager", "lazy")[xi], "data": {"x": xd, "y": ys}}))
        # integer inputs: Bint[4] against the literal 2 and against another Bint input, ties included
        for side in ("const-left", "const-right", "two-inputs"):
            for iv, jv in ((2, 2), (1, 2), (3, 2), (2, 1)):
                nodes = [["ivar", "i", 4], ["ivar", "j", 4], ["num", 2]]
                nodes.append(["ew", op, 2, 0] if side == "const-left" else (["ew", op, 0, 2] if side == "const-right" else ["ew", op, 0, 1]))
                out.append((f"{op}:int:{side}", {"nodes": nodes, "root": 3, "interp": "reflect", "data": {"i": iv, "j": jv}}))
    return out


def cmp_stream(ctx, use_driver=True):
    for label, pspec in cmp_specs():
        check_pcase(ctx, pspec, use_driver, "cmp-" + label.split(":")[0])
        ctx.count("cmp-side:" + label.split(":")[-1])
        if any(f.witness is not None for f in ctx.failures) or ctx.infra_errors:
            return


# ---------------------------------------------------------------------------------------------
# input names that look like as_code()'s temporaries, in EVERY input position, with 0-2 constants
# ---------------------------------------------------------------------------------------------

def names_specs():
    from ..common import REPO
    prefix = scan_prefix_guard((REPO / "funsor" / "ops" / "program.py").read_text())["prefix"]
    pool = [f"{prefix}{i}" for i in range(7)] + [prefix, prefix + "10", prefix + prefix + "1", "_" + prefix + "0", "_" + prefix + "1",
                                                  "__" + prefix + "2", "_" + prefix]
    out = []
    plain = ["s", "t", "u"]
    vals = [3.0, -0.5, 2.0]
    for nconst in (0, 1, 2):
        for nin in (2, 3):
            for pos in range(nin):
                for nm in pool:
                    names = plain[:nin]
                    names[pos] = nm
                    nodes = [["var", n_, "real", 0] for n_ in names]
                    nodes += [["num", [1.5, -2.0][k]] for k in range(nconst)]
                    # reads the inputs in order, non-commutatively: ((in0 - in1) [/ c0] - in2 [* c1])
                    nodes.append(["bin", "sub", 0, 1]); r = len(nodes) - 1
                    if nconst >= 1:
                        nodes.append(["bin", "truediv", r, nin]); r = len(nodes) - 1
                    if nin == 3:
                        nodes.append(["bin", "sub", r, 2]); r = len(nodes) - 1
                    if nconst == 2:
                        nodes.append(["bin", "mul", r, nin + 1]); r = len(nodes) - 1
                    nodes.append(["tuple", [r, pos]])
                    out.append(({"nodes": nodes, "root": len(nodes) - 1, "interp": "reflect", "n": 0},
                                {n_: vals[k] for k, n_ in enumerate(names)}))
    return out


def names_stream(ctx, use_driver=True):
    for spec, data in names_specs():
        check_case(ctx, spec, data, use_driver=use_driver, stream="names")
        ctx.count("names-stream:case")
        if any(f.witness is not None for f in ctx.failures) or ctx.infra_errors:
            return

# ---------------------------------------------------------------------------------------------
# tracer
# ---------------------------------------------------------------------------------------------

def gen_trace_spec(rng, tier):
    """Straight-line function of ops: instrs = [op, a, b?] with operands = input index / ('c', value) /
    earlier instruction (100+i)."""
    nin = rng.choice([1, 1, 2, 3])
    n = rng.choice([0, 2, 3])
    inputs = []
    for i in range(nin):
        shape = rng.choice([0, n])
        inputs.append([f"in{i}", shape])
    instrs = []
    avail = list(range(nin))
    nops = rng.randint(0, 8 if tier == "quick" else 12)
    chain = rng.random() < 0.5
    for t in range(nops):
        def pick():
            if rng.random() < 0.12:
                return ["c", rng.choice([0.5, 1.0, 2.0, -1.0, 3])]
            if chain and avail and rng.random() < 0.6:
                return avail[-1]
            return rng.choice(avail)
        r0 = rng.random()
        if r0 < 0.25:
            # keyword-spelled parameters (axis=, keepdims=, ddof=, min=, max=): the trace must keep them
            a = rng.choice(avail)
            direct_vec = a < nin and inputs[a][1] > 0
            opn = rng.choice(["clamp", "clamp", "sum", "amax", "mean", "logsumexp", "prod", "std", "var"])
            if opn == "clamp":
                kw = rng.choice([{"min": -0.5}, {"max": 0.75}, {"min": -1.0, "max": 1.0}, {"max": -0.25}])
            elif opn in ("std", "var"):
                kw = rng.choice([{"ddof": 1}, {"ddof": 1, "keepdims": True}] if direct_vec else [{"keepdims": True}])
            else:
                kw = rng.choice(([{"axis": 0}, {"axis": -1, "keepdims": True}, {"keepdims": True}, {"axis": 0, "keepdims": True}]
                                 if direct_vec else [{"keepdims": True}]))
            if opn == "clamp" and rng.random() < 0.6:
                # parameters COMPUTED from the inputs (amin/amax of another operand): they must be program slots,
                # not values frozen at trace time
                src = rng.choice(avail)
                instrs.append(["amin", src]); avail.append(100 + len(instrs) - 1)
                lo = avail[-1]
                src2 = rng.choice(avail[:-1])
                instrs.append(["amax", src2]); avail.append(100 + len(instrs) - 1)
                hi = avail[-1]
                form = rng.choice(["kw-min", "kw-max", "kw-both", "pos-both", "kw-mixed"])
                if form == "pos-both":
                    instrs.append(["clamp", a, lo, hi])
                else:
                    kw = {"kw-min": {"min": ["r", lo]}, "kw-max": {"max": ["r", hi]},
                          "kw-both": {"min": ["r", lo], "max": ["r", hi]},
                          "kw-mixed": {"min": -0.5, "max": ["r", hi]}}[form]
                    instrs.append(["clamp", a, kw])
            else:
                instrs.append([opn, a, kw])
        elif r0 < 0.45:
            instrs.append([rng.choice(["neg", "abs", "exp", "tanh"]), pick()])
            if isinstance(instrs[-1][1], list):
                instrs[-1][1] = rng.choice(avail)
        else:
            a, b = pick(), pick()
            if isinstance(a, list) and isinstance(b, list):
                a = rng.choice(avail)
            instrs.append([rng.choice(["add", "sub", "mul", "max", "min"]), a, b])
        if avail[-1] != 100 + len(instrs) - 1:
            avail.append(100 + len(instrs) - 1)
    if rng.random() < 0.15:
        # bool-valued tail: comparisons, any/all, combined with and_/or_ (0-d results are numpy's singletons)
        def cmp_red():
            instrs.append([rng.choice(["gt", "lt", "ge", "le"]), rng.choice(avail), rng.choice(avail)])
            instrs.append([rng.choice(["any", "all"]), 100 + len(instrs) - 1])
            return 100 + len(instrs) - 1
        b1 = cmp_red()
        if rng.random() < 0.7:
            b2 = cmp_red()
            instrs.append([rng.choice(["and_", "or_", "xor"]), b1, b2])
        avail.append(100 + len(instrs) - 1)
        ret = avail[-1]
    elif rng.random() < 0.85 or not instrs:
        ret = avail[-1]
    else:
        ret = rng.choice(avail)
    data = {}
    for name, shape in inputs:
        data[name] = [rng.choice(VALS) for _ in range(shape)] if shape else rng.choice(VALS)
    has_kw = any(isinstance(ins[-1], dict) for ins in instrs)
    fresh = [{name: ([rng.choice(VALS) for _ in range(shape)] if shape else rng.choice(VALS)) for name, shape in inputs}
             for _ in range(2)]
    return {"inputs": inputs, "instrs": instrs, "ret": ret, "data": data, "fresh": fresh,
            "allow": has_kw and len(instrs) % 4 == 0}


class TraceFn:
    """The generated function; constants are fixed python float objects so that two runs share them."""

    def __init__(self, spec):
        self.spec = spec
        self.consts = {}
        for t, ins in enumerate(spec["instrs"]):
            for j, a in enumerate(ins[1:]):
                if isinstance(a, list):
                    self.consts[(t, j)] = float(a[1]) if not isinstance(a[1], int) else int(a[1])

    def __call__(self, **kw):
        vals = [kw[name] for name, _ in self.spec["inputs"]]
        res = []

        def get(t, j, a):
            if isinstance(a, list):
                return self.consts[(t, j)]
            return res[a - 100] if a >= 100 else vals[a]
        for t, ins in enumerate(self.spec["instrs"]):
            op = getattr(ops, ins[0])
            kws = ins[-1] if isinstance(ins[-1], dict) else {}
            kws = {k: (get(t, -1, v[1]) if isinstance(v, list) else v) for k, v in kws.items()}
            res.append(op(*[get(t, j, a) for j, a in enumerate(ins[1:]) if not isinstance(a, dict)], **kws))
        r = self.spec["ret"]
        return res[r - 100] if r >= 100 else vals[r]


TRACE_TEMPLATE = '''
# replay for C18 (tracer): trace_function(fn, data)(**data) vs fn(**data)
import json, numpy as np
import funsor, funsor.ops as ops
funsor.set_backend("numpy")
from funsor.ops.tracer import trace_function
spec = json.loads({spec!r})
def fn(**kw):
    vals = [kw[name] for name, _ in spec["inputs"]]
    res = []
    get = lambda a: (a[1] if isinstance(a, list) else (res[a - 100] if a >= 100 else vals[a]))
    for ins in spec["instrs"]:
        res.append(getattr(ops, ins[0])(*[get(a) for a in ins[1:] if not isinstance(a, dict)], **{{k: (get(v[1]) if isinstance(v, list) else v) for k, v in (ins[-1] if isinstance(ins[-1], dict) else {{}}).items()}}))
    r = spec["ret"]
    return res[r - 100] if r >= 100 else vals[r]
data = {{k: np.array(v, dtype=np.float64) for k, v in spec["data"].items()}}
FAILS = False
with np.errstate(all="ignore"):
    expected = fn(**data)
    try:
        traced = trace_function(fn, data, allow_constants=bool(spec.get("allow")))
    except (KeyError, NotImplementedError) as e:
        traced = None; print("declined", repr(e))
    if traced is not None:
        for b in [spec["data"]] + spec.get("fresh", []):       # the trace binding, then FRESH bindings
            b = {{k: np.array(v, dtype=np.float64) for k, v in b.items()}}
            got, want = traced(**b), fn(**b)
            print(got, "expected", want)
            FAILS = FAILS or not (np.shape(got) == np.shape(want) and np.allclose(got, want, rtol=1e-12, atol=1e-12, equal_nan=True))
print("FAILS =", FAILS)
'''


def check_trace(ctx, spec, use_driver=True):
    fn = TraceFn(spec)
    data = {k: np.array(v, dtype=np.float64) for k, v in spec["data"].items()}
    wit = {"trace_spec": spec}
    py = TRACE_TEMPLATE.format(spec=json.dumps(spec))
    has_kw = any(isinstance(ins[-1], dict) for ins in spec["instrs"])
    import warnings
    warnings.simplefilter("ignore")
    with np.errstate(all="ignore"):
        try:
            expected = fn(**data)
        except Exception as e:
            ctx.count("trace:skip-direct-call-raises:" + type(e).__name__)
            return
        if any(ins[0] in BOOL_OPS for ins in spec["instrs"]):
            ctx.count("trace:has-bool-valued-ops")
        if has_kw:
            ctx.count("trace:has-keyword-op-arguments")
        if any(isinstance(v, list) for ins in spec["instrs"] if isinstance(ins[-1], dict) for v in ins[-1].values()):
            ctx.count("trace:has-COMPUTED-keyword-parameter")
        if any(ins[0] == "clamp" and len(ins) == 4 for ins in spec["instrs"]):
            ctx.count("trace:has-COMPUTED-positional-parameter")
        declined = None
        # keyword-spelled calls trace WITHOUT allow_constants (bound bool defaults are constants, like ints);
        # a quarter of them is still traced with allow_constants=True (spec["allow"])
        allow = bool(spec.get("allow"))
        try:
            traced = trace_function(fn, data, allow_constants=allow)
        except KeyError:
            declined = "KeyError"
        except NotImplementedError as e:
            # allowed only when the function returns one of its inputs (decline added with 6ee0b90)
            has_bool = any(ins[0] in BOOL_OPS for ins in spec["instrs"])
            if spec["ret"] >= 100 and not has_bool:
                ctx.fail("input", "C18.trace_function-raises", witness=wit, got=repr(e), expected="a program", python=py)
                return
            # allowed declines: the function returns an input (6ee0b90); two traced ops returned the same object,
            # e.g. numpy's True_/False_ singletons (055de79)
            declined = "returns-input" if spec["ret"] < 100 else "same-object-results"
        except (ValueError, AssertionError) as e:
            declined = type(e).__name__
        except Exception as e:
            ctx.fail("input", "C18.trace_function-raises", witness=wit, got=repr(e), expected="a program", python=py)
            return
        if declined is None:
            variants = [("traced", traced)]
            try:
                variants.append(("traced-pickle", pickle.loads(pickle.dumps(traced))))
                env = {}
                exec(traced.as_code(), None, env)
                variants.append(("traced-as_code", env["program"]))
            except SyntaxError:
                ctx.count("trace:as_code-syntax")
            bindings = [("trace-binding", data, expected)]
            for fb in spec.get("fresh", []):
                fbd = {k: np.array(v, dtype=np.float64) for k, v in fb.items()}
                try:
                    bindings.append(("fresh-binding", fbd, fn(**fbd)))
                except Exception:
                    ctx.count("trace:fresh-binding-direct-call-raises")
            for nm, f in variants:
                for bname, bd, want in bindings:
                    try:
                        got = f(**bd)
                    except Exception as e:
                        ctx.fail("input", f"C18.{nm}-raises", witness=dict(wit, binding=bname), got=repr(e),
                                 expected=jsonable(want), python=py)
                        return
                    if not same_value(got, want, 1e-12):
                        ctx.fail("input", f"C18.{nm}-ne-direct-call({bname})", witness=dict(wit, binding=bname),
                                 got=jsonable(got), expected=jsonable(want), python=py)
                        return
                    ctx.count("trace:checked-on-" + bname)
            for kind in ("missing", "extra"):
                kw = dict(data)
                if kind == "missing":
                    del kw[next(iter(kw))]
                else:
                    kw["zz_extra"] = np.array(1.0)
                try:
                    r = traced(**kw)
                    ctx.fail("input", f"C18.traced-accepts-{kind}-input", witness=wit, got=jsonable(r),
                             expected="ValueError", python=py)
                    return
                except (ValueError, TypeError):
                    pass
        ctx.count("trace:" + (declined and f"declined-{declined}" or "value"))
        ctx.count(f"trace:ops:{len(spec['instrs'])}")
        # ---- the Lean model of the dag extraction + numbering, on the recorded trace --------------
        if use_driver and declined in (None, "KeyError", "returns-input"):
            with trace_ops(is_variable) as tr:
                root = fn(**data)
            entries = list(tr.values())
            num = {}
            keep = []                      # keep objects alive so ids stay unique

            def nid(o):
                keep.append(o)
                return num.setdefault(id(o), len(num))
            kwids = [(k, nid(v)) for k, v in data.items()]
            tl = []
            for result, op, args in entries:
                tl.append(f"({nid(result)} {op.__name__} ({' '.join(str(nid(a)) for a in args)}))")
            rid = nid(root)
            objs = {}
            for o in keep:
                objs[num[id(o)]] = o
            vars_ = [i for i, o in objs.items() if is_variable(o)]
            req = (f"C18 trace ({' '.join(map(str, vars_))}) {'true' if allow else 'false'} ({' '.join(tl)}) {rid} "
                   f"({' '.join(f'(\"{k}\" {i})' for k, i in kwids)})")
            a = ctx.driver.ask([req])[0]
            if not a.startswith("ok "):
                ctx.infra_errors.append(f"driver answered {a!r} to {req[:300]}")
                return
            m = parse_sx(a[3:])
            model_declined = isinstance(m, list) and m and m[0] == "error"
            if declined == "KeyError":
                ctx.count("trace-fidelity:decline-" + ("predicted" if model_declined and m[1] == "keyid" else "NOT-predicted"))
            elif declined == "returns-input":
                ctx.count("trace-fidelity:returns-input-decline-"
                          + ("predicted" if model_declined and m[1] == "not-implemented" else "NOT-predicted"))
            elif model_declined:
                ctx.count("trace-fidelity:model-declines-real-value")
            else:
                # constants: model names them by value id
                cs = []
                for c in traced.constants:
                    hit = [i for i, o in objs.items() if o is c]
                    cs.append(str(hit[0]) if hit else "?")
                opsl = [[op.__name__] + [str(int(i)) for i in ai] for op, ai in traced.operations]
                real = [cs, [Q(n) for n in traced.inputs], opsl]
                ctx.count("trace-fidelity:program-" + ("same" if m == real else "DIFFERENT"))
    nt = declined is None and len(spec["instrs"]) >= 2
    ctx.case(sample=wit if nt else None, nontrivial_key=("trace", json.dumps(spec)) if nt else None)



# ---------------------------------------------------------------------------------------------
# call histories on ONE program object (compiled, pickled, traced): the answer to a binding must not
# depend on the calls made before it, rejected calls included
# ---------------------------------------------------------------------------------------------

HISTORY_TEMPLATE = """
# replay for C18 (call history on one program object, {what})
import json, pickle, numpy as np
from collections import OrderedDict
import funsor, funsor.ops as ops
funsor.set_backend("numpy")
from funsor.terms import Variable, Number, Unary, Binary, Tuple
from funsor.tensor import Tensor
from funsor.cnf import Contraction
from funsor.domains import Real, Reals, Bint
from funsor.interpretations import reflect, lazy, eager
from funsor.compiler import compile_funsor
from funsor.ops.tracer import trace_function
spec = json.loads({spec!r})
steps = json.loads({steps!r})
mode = {mode!r}
def build(spec):
    b = []
    with {{"reflect": reflect, "lazy": lazy, "eager": eager}}[spec["interp"]]:
        for nd in spec["nodes"]:
            k = nd[0]
            if k == "var": f = Variable(nd[1], Real if nd[2] == "real" else (Reals[nd[3]] if nd[2] == "reals" else Bint[nd[3]]))
            elif k == "num": f = Number(nd[1])
            elif k == "tensor": f = Tensor(np.array(nd[1], dtype=np.float64))
            elif k == "un": f = Unary(getattr(ops, nd[1]), b[nd[2]])
            elif k == "bin": f = Binary(getattr(ops, nd[1]), b[nd[2]], b[nd[3]])
            elif k == "contr": f = Contraction(ops.null, getattr(ops, nd[1]), frozenset(), tuple(b[i] for i in nd[2]))
            elif k == "tuple": f = Tuple(tuple(b[i] for i in nd[1]))
            b.append(f)
    return b[spec["root"]]
def extract(x):
    return tuple(extract(a) for a in x.args) if isinstance(x, Tuple) else x.data
def same(a, b):
    if isinstance(a, tuple) or isinstance(b, tuple):
        return isinstance(a, tuple) and isinstance(b, tuple) and len(a) == len(b) and all(same(x, y) for x, y in zip(a, b))
    a, b = np.asarray(a, dtype=float), np.asarray(b, dtype=float)
    return a.shape == b.shape and bool(np.allclose(a, b, rtol=1e-11, atol=1e-11, equal_nan=True))
if mode.startswith("traced"):
    def fn(**kw):
        vals = [kw[name] for name, _ in spec["inputs"]]
        res = []
        get = lambda a: (a[1] if isinstance(a, list) else (res[a - 100] if a >= 100 else vals[a]))
        for ins in spec["instrs"]:
            res.append(getattr(ops, ins[0])(*[get(a) for a in ins[1:] if not isinstance(a, dict)], **{{k: (get(v[1]) if isinstance(v, list) else v) for k, v in (ins[-1] if isinstance(ins[-1], dict) else {{}}).items()}}))
        r = spec["ret"]
        return res[r - 100] if r >= 100 else vals[r]
    conv = lambda d: {{k: (v if isinstance(v, str) else np.array(v, dtype=np.float64)) for k, v in d.items()}}
    oracle = lambda d: fn(**d)
    try:
        obj = trace_function(fn, conv(steps[0][1]), allow_constants=bool(spec.get("allow")))
    except (KeyError, NotImplementedError, ValueError) as e:
        print("trace_function declined:", repr(e)); steps = []; obj = None      # a decline is allowed
else:
    expr = build(spec)
    kinds = {{nd[1]: nd[2] for nd in spec["nodes"] if nd[0] == "var"}}
    conv = lambda d: {{k: (v if isinstance(v, str) else np.array(v, dtype=(np.int64 if kinds.get(k) == "bint" else np.float64))) for k, v in d.items()}}
    oracle = lambda d: extract(funsor.reinterpret(expr(**d)))
    obj = compile_funsor(expr)
if mode.endswith("pickle") and obj is not None:
    obj = pickle.loads(pickle.dumps(obj))
FAILS = False
with np.errstate(all="ignore"):
    for i, (kind, d) in enumerate(steps):
        if kind == "repickle":
            obj = pickle.loads(pickle.dumps(obj)); continue
        kw = conv(d)
        if kind == "valid":
            want = oracle(kw)
            try:
                got = obj(**kw)
            except Exception as e:
                print("step", i, "valid call raised", repr(e)); FAILS = True; continue
            okay = same(got, want)
            print("step", i, "valid", "ok" if okay else ("WRONG: got %r want %r" % (got, want)))
            FAILS = FAILS or not okay
        else:
            try:
                r = obj(**kw); print("step", i, kind, "was ACCEPTED ->", r)
                FAILS = FAILS or kind in ("extra", "missing")
            except Exception as e:
                print("step", i, kind, "rejected:", type(e).__name__)
print("FAILS =", FAILS)
"""


def history_steps(valid, names, bad_name):
    """valid = list of >= 6 json-able bindings.  The fixed shape of every history."""
    b = valid
    steps = [["valid", b[0]], ["valid", b[1]],
             ["extra", dict(b[2], zz_extra=1.0)], ["valid", b[3]]]
    if names:
        last = names[-1]                                           # a missing kwarg that is NOT the first input
        steps += [["missing", {k: v for k, v in b[4].items() if k != last}], ["valid", b[0]]]
    if bad_name is not None:
        steps += [["bad", dict(b[5], **{bad_name: "not-an-array"})], ["valid", b[2]]]
    steps += [["extra", dict(b[1], zz_extra=1.0)], ["repickle", {}], ["valid", b[4]],
              ["valid", b[5]], ["valid", b[5]]]
    return steps


def run_history(ctx, what, mode, obj, steps, conv, oracle, wit, py):
    """Returns False when a failure was recorded."""
    obj0 = obj
    state0 = {k: (id(v), repr(v)[:200]) for k, v in vars(obj).items()}
    with np.errstate(all="ignore"):
        for i, (kind, d) in enumerate(steps):
            if kind == "repickle":
                obj = pickle.loads(pickle.dumps(obj))
                continue
            kw = conv(d)
            if kind == "valid":
                want = oracle(kw)
                try:
                    got = obj(**kw)
                except Exception as e:
                    ctx.fail("input", f"C18.history-{mode}-valid-call-raises", witness=dict(wit, step=i), got=repr(e),
                             expected=jsonable(want), python=py)
                    return False
                if not same_value(got, want, 1e-11):
                    ctx.fail("input", f"C18.history-{mode}-" + ("first-call-ne-oracle" if i == 0 else "later-call-ne-oracle(fresh-binding-or-history)"),
                             witness=dict(wit, step=i),
                             got=jsonable(got), expected=jsonable(want), python=py)
                    return False
                ctx.count("history:valid-call")
            else:
                try:
                    r = obj(**kw)
                except Exception as e:
                    ctx.count(f"history:rejected-{kind}:{type(e).__name__}")
                    continue
                if kind in ("extra", "missing"):
                    ctx.fail("input", f"C18.history-{mode}-accepts-{kind}-input", witness=dict(wit, step=i),
                             got=jsonable(r), expected="ValueError", python=py)
                    return False
                ctx.count("history:bad-binding-accepted")
    state1 = {k: (id(v), repr(v)[:200]) for k, v in vars(obj0).items()}
    ctx.count("history:object-state-" + ("unchanged" if state0 == state1 else "CHANGED"))
    return True


def history_case(ctx, spec, rng):
    try:
        expr, _ = build(spec)
    except Exception:
        return False
    if rk_any(spec, "btensor"):
        return False
    with np.errstate(all="ignore"):
        try:
            program = compile_funsor(expr)
        except Exception:
            return False
        names = list(program.inputs)
        if not names:
            return False
        # six bindings on which the two sides of the property are comparable (see check_case)
        valid = []
        for _ in range(40):
            d = {k: v for k, v in gen_data(rng, spec).items() if k in expr.inputs}
            npd = np_data(spec, d)
            try:
                want = extract_data(reinterpret(expr(**npd)))
            except Exception:
                continue
            orc = spec_eval(spec, npd)[spec["root"]]
            flat = []

            def fl(v):
                (flat.extend(np.ravel(np.asarray(v, dtype=np.float64))) if not isinstance(v, tuple) else [fl(x) for x in v])
            fl(want)
            if np.all(np.isfinite(flat)) and same_value(want, orc, 1e-9):
                valid.append(d)
            if len(valid) == 6:
                break
        if len(valid) < 6:
            ctx.count("history:skip-no-comparable-bindings")
            return False
    kinds = {nd[1]: nd[2] for nd in spec["nodes"] if nd[0] == "var"}
    conv = lambda d: {k: (v if isinstance(v, str) else np.array(v, dtype=(np.int64 if kinds.get(k) == "bint" else np.float64)))
                      for k, v in d.items()}
    oracle = lambda kw: extract_data(reinterpret(expr(**kw)))
    steps = history_steps(valid, names, names[-1] if names else None)
    for mode in ("compiled", "compiled-pickle"):
        obj = program if mode == "compiled" else pickle.loads(pickle.dumps(program))
        wit = {"spec": spec, "steps": steps, "mode": mode}
        py = HISTORY_TEMPLATE.format(what=mode, spec=json.dumps(spec), steps=json.dumps(steps), mode=mode)
        if not run_history(ctx, "compiled", mode, obj, steps, conv, oracle, wit, py):
            return True
    ctx.count(f"history:inputs:{len(names)}")
    ctx.case(sample=None, nontrivial_key=("history", json.dumps([spec, steps])) if names and program.operations else None)
    return True


def rk_any(spec, kind):
    return any(spec["nodes"][i][0] == kind for i in reachable_kinds(spec))


def history_trace_case(ctx, tspec, rng):
    fn = TraceFn(tspec)
    conv = lambda d: {k: (v if isinstance(v, str) else np.array(v, dtype=np.float64)) for k, v in d.items()}
    valid = []
    for _ in range(6):
        valid.append({name: ([rng.choice(VALS) for _ in range(shape)] if shape else rng.choice(VALS))
                      for name, shape in tspec["inputs"]})
    valid[0] = tspec["data"]
    with np.errstate(all="ignore"):
        try:
            traced = trace_function(fn, conv(valid[0]), allow_constants=bool(tspec.get("allow")))
        except Exception:
            ctx.count("history:trace-declined")
            return
    names = list(traced.inputs)
    steps = history_steps(valid, names, names[-1] if names else None)
    oracle = lambda kw: fn(**kw)
    for mode in ("traced", "traced-pickle"):
        obj = traced if mode == "traced" else pickle.loads(pickle.dumps(traced))
        wit = {"trace_spec": tspec, "steps": steps, "mode": mode}
        py = HISTORY_TEMPLATE.format(what=mode, spec=json.dumps(tspec), steps=json.dumps(steps), mode=mode)
        if not run_history(ctx, "traced", mode, obj, steps, conv, oracle, wit, py):
            return
    ctx.case(sample=None, nontrivial_key=("history-trace", json.dumps([tspec, steps])) if len(tspec["instrs"]) >= 1 else None)


def fixed_trace_specs():
    """op parameters computed from ANOTHER input, keyword / positional / mixed; fresh bindings differ from the trace's."""
    ins = [["x", 3], ["y", 2]]
    data = {"x": [-3.0, 0.5, 4.0], "y": [-1.0, 1.0]}
    fresh = [{"x": [-3.0, 0.5, 4.0], "y": [0.0, 2.0]}, {"x": [1.5, -2.0, 0.25], "y": [-0.5, 0.25]}]
    mk = lambda instrs, ret: {"inputs": ins, "instrs": instrs, "ret": ret, "data": data, "fresh": fresh, "allow": False}
    return [
        mk([["amin", 1], ["amax", 1], ["clamp", 0, {"min": ["r", 100], "max": ["r", 101]}]], 102),
        mk([["amin", 1], ["amax", 1], ["clamp", 0, 100, 101]], 102),
        mk([["amax", 1], ["clamp", 0, {"max": ["r", 100]}], ["mul", 101, 0]], 102),
        mk([["amin", 1], ["clamp", 0, {"min": ["r", 100], "max": 1.0}], ["sub", 101, 100]], 102),
        mk([["mul", 1, 1], ["amax", 100], ["neg", 101], ["clamp", 0, {"min": ["r", 102], "max": ["r", 101]}]], 103),
    ] + bool_trace_specs()


BOOL_OPS = ("any", "all", "gt", "lt", "ge", "le", "eq", "ne", "and_", "or_", "xor")


def bool_trace_specs():
    """bool-valued reductions / comparisons whose 0-d results are numpy's True_/False_ SINGLETONS: the trace is
    keyed by object identity, so these must be declined (055de79) or be right on fresh bindings."""
    ins = [["x", 2], ["y", 2]]
    data = {"x": [1.0, 0.0], "y": [1.0, 1.0]}
    fresh = [{"x": [1.0, 0.0], "y": [1.0, 0.0]}, {"x": [0.0, 0.0], "y": [1.0, 1.0]}, {"x": [0.0, 0.0], "y": [0.0, 1.0]}]
    mk = lambda instrs, ret: {"inputs": ins, "instrs": instrs, "ret": ret, "data": data, "fresh": fresh, "allow": True}
    return [
        mk([["any", 0], ["all", 1], ["and_", 100, 101]], 102),
        mk([["all", 1], ["any", 0], ["or_", 100, 101]], 102),
        mk([["gt", 0, 1], ["any", 100], ["lt", 0, 1], ["any", 102], ["or_", 101, 103]], 104),
        mk([["any", 0], ["any", 1], ["xor", 100, 101]], 102),
        mk([["all", 1]], 100),
        mk([["ge", 0, 1], ["all", 100]], 101),
    ]


def history_stream(ctx):
    rng = ctx.rng
    have = lambda: any(f.witness is not None for f in ctx.failures) or ctx.infra_errors
    # fixed: x - y, the witness of Props/C18/History.lean
    V = lambda n_, k="real", s_=0: ["var", n_, k, s_]
    fixed = [{"nodes": [V("x"), V("y"), ["bin", "sub", 0, 1]], "root": 2, "interp": "reflect", "n": 0},
             {"nodes": [V("x", "reals", 2), V("y"), ["num", 2.0], ["bin", "mul", 0, 2], ["bin", "sub", 3, 1], ["tuple", [4, 0]]],
              "root": 5, "interp": "reflect", "n": 2}]
    for spec in fixed:
        history_case(ctx, spec, rng)
        if have():
            return
    n = 60 if ctx.tier == "quick" else 600
    done = tries = 0
    while done < n and tries < 4 * n:
        tries += 1
        spec = gen_spec(rng, ctx.tier)
        spec["wild"] = False
        if sum(1 for nd in spec["nodes"] if nd[0] == "var") < 1:
            continue
        if history_case(ctx, spec, rng):
            done += 1
        if have():
            return
    for _ in range(40 if ctx.tier == "quick" else 400):
        history_trace_case(ctx, gen_trace_spec(rng, ctx.tier), rng)
        if have():
            return

# ---------------------------------------------------------------------------------------------
# fixed structured cases (always run): the regions where numbering bugs live
# ---------------------------------------------------------------------------------------------

def fixed_specs():
    V = lambda n, k="real", s=0: ["var", n, k, s]
    out = []
    # Tuple nested in a Tuple (the defect fixed by 6850cf7: Tuple((Tuple((x+y, x)), y)))
    out.append(({"nodes": [V("x"), V("y"), ["bin", "add", 0, 1], ["tuple", [2, 0]], ["tuple", [3, 1]]],
                 "root": 4, "interp": "reflect", "n": 0}, {"x": 1.5, "y": -2.0}))
    out.append(({"nodes": [V("x"), ["tuple", [0]], ["tuple", [1]], ["tuple", [2, 1, 0]]],
                 "root": 3, "interp": "reflect", "n": 0}, {"x": 0.5}))
    out.append(({"nodes": [V("x"), V("y", "reals", 2), ["bin", "mul", 1, 0], ["tuple", [0, 2]], ["num", 1.0],
                           ["bin", "add", 0, 4], ["tuple", []], ["tuple", [3, 5, 6]]],
                 "root": 7, "interp": "lazy", "n": 2}, {"x": 2.0, "y": [1.0, 3.0]}))
    # operand order of non-commutative ops, x op x, constants on either side
    for op in ["sub", "truediv"]:
        out.append(({"nodes": [V("x"), V("y"), ["bin", op, 0, 1], ["bin", op, 1, 0], ["bin", op, 2, 3]],
                     "root": 4, "interp": "reflect", "n": 0}, {"x": 3.0, "y": 0.5}))
        out.append(({"nodes": [V("x"), ["num", 2.0], ["bin", op, 1, 0], ["bin", op, 0, 1], ["tuple", [2, 3]]],
                     "root": 4, "interp": "reflect", "n": 0}, {"x": 3.0}))
    # single-node programs, integer input, contraction
    out.append(({"nodes": [V("x", "reals", 3)], "root": 0, "interp": "reflect", "n": 3}, {"x": [1.0, 2.0, -1.0]}))
    out.append(({"nodes": [["num", 2.5]], "root": 0, "interp": "reflect", "n": 0}, {}))
    out.append(({"nodes": [V("i", "bint", 3), V("x"), ["num", 1], ["bin", "add", 0, 2], ["bin", "mul", 3, 1]],
                 "root": 4, "interp": "lazy", "n": 0}, {"i": 2, "x": 0.5}))
    out.append(({"nodes": [V("x"), V("y"), ["num", 2.0], ["contr", "add", [0, 1, 2, 0]], ["un", "neg", 3]],
                 "root": 4, "interp": "reflect", "n": 0}, {"x": 1.0, "y": -0.5}))
    # array constants (as_code must decline or print them right): negative entries, 1 element, 2-d
    out.append(({"nodes": [V("z"), ["tensor", [0.25, -0.5, -0.5]], ["bin", "add", 0, 1]], "root": 2,
                 "interp": "reflect", "n": 3}, {"z": -1.5}))
    out.append(({"nodes": [V("z"), ["tensor", [-0.5]], ["bin", "sub", 1, 0]], "root": 2,
                 "interp": "reflect", "n": 0}, {"z": -1.5}))
    out.append(({"nodes": [V("z"), ["tensor", [[1.0, -2.0], [0.5, -0.25]]], ["bin", "mul", 0, 1], ["tuple", [2, 0]]],
                 "root": 3, "interp": "reflect", "n": 2}, {"z": 2.0}))
    # inputs named like as_code's temporaries / imports
    out.append(({"nodes": [V("v0"), ["num", 1.0], ["bin", "add", 0, 1]], "root": 2, "interp": "reflect", "n": 0},
                {"v0": 5.0}))
    out.append(({"nodes": [V("v1"), V("_v0"), V("v"), ["bin", "sub", 0, 1], ["bin", "truediv", 3, 2]], "root": 4,
                 "interp": "reflect", "n": 0}, {"v1": 5.0, "_v0": 2.0, "v": 0.5}))
    out.append(({"nodes": [V("ops"), V("x"), ["bin", "sub", 0, 1]], "root": 2, "interp": "reflect", "n": 0},
                {"ops": 5.0, "x": 1.0}))
    # a Tensor constant with named inputs: must be declined (or right)
    out.append(({"nodes": [["btensor", [1.0, 2.0, 3.0], "i"], V("x"), ["bin", "add", 0, 1]],
                 "root": 2, "interp": "lazy", "n": 0}, {"i": 1, "x": 1.0}))
    return out


# ---------------------------------------------------------------------------------------------

def correspond(ctx):
    ctx.rule = ("random DAG specs: 0-4 inputs (Real / Reals[n] / Bint[k], n in {scalar,2,3}), 0-3 constants (Number, "
                "0-d / 1-d Tensor), 0-9 (thorough 0-14) ops drawn with a bias to recent nodes (deep, shared), unary neg/abs "
                "(+exp/sigmoid/tanh/log1p in 30% of cases), binary add/sub/mul/max/min/truediv, x op x, Contraction "
                "without reduction, 55% tuple roots with nested / empty / element-sharing tuples; reflect or lazy; "
                "dyadic data.  Plus fixed structured cases, a batched-Tensor stream (must decline), and straight-line "
                "functions of ops for trace_function, call HISTORIES on one compiled / pickled / traced program object (valid, valid, "
                "rejected-extra, valid, rejected-missing(last input), valid, failing op on a bad binding, valid, rejected, "
                "re-pickle, valid, valid, same again: every valid call gated against interpretation on its own binding), "
                "and a parametrised-op stream: EVERY default / non-default parameter "
                "combination of clamp, sum/prod/amax/amin/logsumexp/mean/all/any/argmax/argmin (axis x keepdims), std/var "
                "(axis x ddof x keepdims), getslice, getitem(offset), reshape/transpose/permute/unsqueeze/expand, "
                "triangular_solve/inv on a shared array sub-expression, plus random stacks of them, each compared four ways "
                "(substitution, program, pickled program, exec of as_code).  Non-trivial = the program has >= 2 operations (tracer: >= 2 "
                "ops and a value); distinct by full spec + data.")
    rng = ctx.rng
    for spec, data in fixed_specs():
        check_case(ctx, spec, data, stream="fixed")
    n = 500 if ctx.tier == "quick" else 8000
    done = 0
    tries = 0
    while done < n and tries < 3 * n:
        tries += 1
        spec = gen_spec(rng, ctx.tier, batched=(tries % 25 == 0))
        data = gen_data(rng, spec)
        if check_case(ctx, spec, data):
            done += 1
        if ctx.failures or ctx.infra_errors:
            break
    if not (ctx.failures or ctx.infra_errors):
        names_stream(ctx)
    if not (ctx.failures or ctx.infra_errors):
        cmp_stream(ctx)
    if not (ctx.failures or ctx.infra_errors):
        index_stream(ctx)
    if not (ctx.failures or ctx.infra_errors):
        assoc_stream(ctx)
    if not (ctx.failures or ctx.infra_errors):
        history_stream(ctx)
    if not (ctx.failures or ctx.infra_errors):
        inverse_stream(ctx)
    if not (ctx.failures or ctx.infra_errors):
        param_stream(ctx)
    for tspec in fixed_trace_specs():
        if ctx.failures or ctx.infra_errors:
            break
        check_trace(ctx, tspec)
    nt = 200 if ctx.tier == "quick" else 3000
    for _ in range(nt):
        if ctx.failures or ctx.infra_errors:
            break
        check_trace(ctx, gen_trace_spec(rng, ctx.tier))
    report_coverage(ctx)
    ctx.assumptions.append("program vs expression are compared exactly (same numpy calls) — 1e-12 when a transcendental "
                           "op occurs; Lean rationals vs numpy floats with rel 1e-9 (float products are inexact)")
    ctx.assumptions.append("numpy ops themselves are not modelled: the Lean value type interprets neg/abs/add/sub/mul/"
                           "max/min/truediv exactly and every other op as a free symbol")
    ctx.assumptions.append("as_code() declines (SyntaxError) on an empty Tuple `(,)` and on ndarray constants; "
                           "trace_function declines (KeyError) on some shared intermediates — counted, allowed")


def search(ctx, broken):
    """A proof, the build or the correspondence broke: hunt for a concrete wrong value with the Python-side
    oracle only (program / as_code / pickle vs expr(**data); traced vs direct call)."""
    rng = ctx.rng
    have = lambda: any(f.witness is not None for f in ctx.failures)
    for spec, data in fixed_specs():
        check_case(ctx, spec, data, use_driver=False, stream="search-fixed")
        if have():
            return
    for t in range(5000):
        spec = gen_spec(rng, "thorough", batched=(t % 25 == 0))
        data = gen_data(rng, spec)
        check_case(ctx, spec, data, use_driver=False, stream="search")
        if have():
            return
    for tspec in fixed_trace_specs():
        check_trace(ctx, tspec, use_driver=False)
        if have():
            return
    for _ in range(2000):
        check_trace(ctx, gen_trace_spec(rng, "thorough"), use_driver=False)
        if have():
            return
    names_stream(ctx, use_driver=False)
    if have():
        return
    cmp_stream(ctx, use_driver=False)
    if have():
        return
    index_stream(ctx, use_driver=False)
    if have():
        return
    assoc_stream(ctx, use_driver=False)
    if have():
        return
    history_stream(ctx)
    if have():
        return
    inverse_stream(ctx, use_driver=False)
    if have():
        return
    param_stream(ctx, use_driver=False)
