"""
C19 — conversions and re-alignment never move data to the wrong name.

Correspondence: the REAL funsor (`to_funsor(x, output, dim_to_name)`, `to_data(f, name_to_dim)`,
`Tensor.align`, `align_tensor`, `align_tensors`, lazy `Align`, `Contraction.align`, `Delta.align`,
`Tensor.materialize`) against the Lean model FV.C19 (Model/C19.lean: toFunsor, toData, Tensor.align,
alignTensor(s), materialize/eval, denote) and against a Python-side oracle that states the property
directly (which axis must carry which name / value at every named point).  Here the ORDER of
`.inputs` and the LAYOUT of `.data` are the gated observables: arrays carry distinct entries
(arange) so any misplacement is visible.

Streams
  convert      exhaustive: every shape of rank 0..R with sizes 1..3, event rank 0..2, every subset of
               batch dims named, real and bounded-integer dtype, output given / output=None
  malformed    duplicate names, keys out of range, event-shape mismatch, empty dim_to_name with batch
               dims, positive keys, name_to_dim with missing names / duplicate dims (fidelity, counted)
  align        tensors with <= 4 inputs (sizes 1..3, event rank 0..2): every ordered subset of names for
               `f.align(names)`, followed by `to_data(g, name_to_dim)` with gaps in the target dims
  aligntensors align_tensor / align_tensors, expand in {False, True}
  lazy         Align of lazy Binary, Contraction.align, Delta.align
  materialize  random lazy terms over Bint variables; value at every point vs the model's `denote`
  slice        materialize(Slice), slicing and diagonal substitution with slice-valued inputs (oracle only)
  history      pools of tensors SHARING one ndarray under different name assignments (renamings, permutation
               renamings, partial renamings, direct construction); sequences of align / to_data / to_funsor
               round trips / binary ops applied alternately (A,B,A) with earlier results kept alive; every
               result gated against the raw-array oracle, a function of (data, inputs, names) only
  classes      every class that defines its own `align` (list extracted from source each run): Tensor, default
               Funsor.align/Align, Contraction, Constant, Delta, Gaussian; inputs with pairwise different domains;
               gate = exact name->domain OrderedDict, value at every point, sum over each input vs brute force
  makeop       funsor.make_op ops (the eager rule to_data-by-name -> raw fn -> to_funsor): unary / binary, non
               commutative raw functions, event shapes, int dtype; operands over every ordered subset pair of a
               3-name pool, sizes all-equal / mixed / with a size-1 input; value at every named point gated
  interleave   lazy Contractions (2-3 terms, Tensor + Gaussian) whose terms' inputs interleave, aligned to EVERY
               permutation of the union: .inputs == names exactly (alignT_keys_full), value by name AND by
               positional call; funsor.symbolic functions called positionally
  stack        Stack / Cat of Tensors (tensor.py eager_stack_homogeneous / eager_cat_homogeneous -> align_tensor):
               parts listing the same inputs in every relative order, equal / mixed sizes, event ranks 0-2;
               every named point vs the part's own entry
  index        ravel / unravel of the model vs numpy on a box
"""
import itertools
from collections import OrderedDict

import numpy as np

from ..common import sx, parse_sx, Q
from ..futil import funsor, Tensor, Bint, Real, Reals, ops, Variable, Number

from funsor import to_funsor, to_data
from funsor.domains import Array
from funsor.tensor import align_tensor, align_tensors
from funsor.terms import Align, Binary
from funsor.cnf import Contraction
from funsor.delta import Delta
from funsor.interpretations import reflect
from funsor.interpreter import reinterpret

NAMES = ["a", "b", "c", "d", "e", "f", "g"]
EXC = (ValueError, KeyError, AssertionError, IndexError, TypeError, NotImplementedError)


# ------------------------------------------------------------------------------------------
# wire helpers
# ------------------------------------------------------------------------------------------

def ints(arr):
    a = np.asarray(arr)
    r = np.rint(a).astype(np.int64)
    if not np.array_equal(r.astype(a.dtype), a):
        raise ValueError("non-integer data")
    return [int(v) for v in r.ravel()]


def obs_tensor(f):
    if not isinstance(f, Tensor):
        return ("other", type(f).__name__)
    return ("tensor", {"inputs": [(k, int(d.size)) for k, d in f.inputs.items()],
                       "shape": [int(s) for s in f.data.shape], "flat": ints(f.data),
                       "dtype": "real" if f.dtype == "real" else int(f.dtype)})


def obs_arr(a):
    a = np.asarray(a)
    return ("arr", {"shape": [int(s) for s in a.shape], "flat": ints(a)})


def enc_inputs(inputs):
    return [[Q(n), s] for n, s in inputs]


def enc_tensor(t):
    return ["tensor", enc_inputs(t["inputs"]), t["shape"], t["flat"], t["dtype"]]


def dec(ans):
    """driver answer -> ("raise", kind) | ("tensor", {...}) | ("arr", {...}) | ("lazy",) | ("err", text)"""
    if not ans.startswith("ok "):
        return ("err", ans)
    body = ans[3:]
    if body == "lazy":
        return ("lazy",)
    p = parse_sx(body)
    return dec_val(p)


def dec_val(p):
    if isinstance(p, list) and p and p[0] == "raise":
        return ("raise", p[1])
    if isinstance(p, list) and p and p[0] == "tensor":
        return ("tensor", {"inputs": [(str(n), int(s)) for n, s in p[1]], "shape": [int(s) for s in p[2]],
                           "flat": [None if v == "none" else int(v) for v in p[3]],
                           "dtype": "real" if p[4] == "real" else int(p[4])})
    if isinstance(p, list) and p and p[0] == "arr":
        return ("arr", {"shape": [int(s) for s in p[1]],
                        "flat": [None if v == "none" else int(v) for v in p[2]]})
    return ("err", str(p))


def run(fn):
    try:
        return ("value", fn())
    except EXC as e:
        return ("raise", type(e).__name__)


def mk_output(dtype, es):
    return Reals[tuple(es)] if dtype == "real" else Array[dtype, tuple(es)]


def mk_x(shape, dtype):
    n = int(np.prod(shape)) if len(shape) else 1
    if dtype == "real":
        return np.arange(float(n)).reshape(shape)
    return np.arange(n, dtype=np.int64).reshape(shape)


# ------------------------------------------------------------------------------------------
# stream: convert (to_funsor / to_data round trip)
# ------------------------------------------------------------------------------------------

def convert_cases(rng, max_rank, sizes=(1, 2, 3), sample=None, min_rank=0):
    """Every (shape, event rank, named subset).  Names are drawn per case in a random (non
    alphabetical) order and dim_to_name is inserted in random order."""
    for r in range(min_rank, max_rank + 1):
        for shape in itertools.product(sizes, repeat=r):
            for e in range(min(2, r) + 1):
                nb = r - e
                for mask in itertools.product([0, 1], repeat=nb):
                    if sample is not None and rng.random() > sample:
                        continue
                    pool = NAMES[:]
                    rng.shuffle(pool)
                    items = [(j - nb, pool[j]) for j in range(nb) if mask[j]]
                    rng.shuffle(items)
                    yield {"shape": list(shape), "e": e, "mask": list(mask), "d2n": items}


def convert_oracle(c, out_none=False):
    """What the property demands: ("raise",) when the placement must be refused (a batch dim of
    size != 1 without a name; or an empty dim_to_name with batch dims left over), otherwise the
    expected inputs / data layout of the funsor and the expected round-trip array."""
    shape, e = c["shape"], c["e"]
    r = len(shape)
    d2n = dict(c["d2n"])
    if out_none:
        e = r - min(-min(d2n), r) if d2n else 0
    nb = r - e
    es = shape[nb:]
    named = {j: d2n.get(j - nb) for j in range(nb)}
    if not d2n:
        if nb:
            return ("raise",)
        return ("ok", {"inputs": [], "shape": list(shape), "rt_shape": list(shape)})
    if any(named[j] is None and shape[j] != 1 for j in range(nb)):
        return ("raise",)
    kept = [j for j in range(nb) if named[j] is not None and shape[j] != 1]
    inputs = [(named[j], shape[j]) for j in kept]
    fshape = [shape[j] for j in kept] + list(es)
    rt_shape = (list(shape[kept[0]:nb]) if kept else []) + list(es)
    return ("ok", {"inputs": inputs, "shape": fshape, "rt_shape": rt_shape})


def py_convert_snippet(c, dtype, out_none):
    return f"""
# C19 replay: to_funsor / to_data round trip
import numpy as np, funsor
from funsor import to_funsor, to_data
from funsor.domains import Reals, Array
funsor.set_backend("numpy")
shape, e, dtype = {tuple(c['shape'])!r}, {c['e']}, {dtype!r}
d2n = dict({c['d2n']!r})
n = int(np.prod(shape)) if shape else 1
x = (np.arange(float(n)) if dtype == "real" else np.arange(n)).reshape(shape)
es = shape[len(shape) - e:]
output = None if {out_none!r} else (Reals[es] if dtype == "real" else Array[dtype, es])
nb = len(shape) - e
must_reject = (not d2n and nb > 0) or any((j - nb) not in d2n and shape[j] != 1 for j in range(nb))
try:
    f = to_funsor(x, output, d2n)
    y = to_data(f, {{v: k for k, v in d2n.items()}})
    kept = [j for j in range(nb) if (j - nb) in d2n and shape[j] != 1]
    exp_inputs = [(d2n[j - nb], shape[j]) for j in kept]
    got_inputs = [(k, d.size) for k, d in f.inputs.items()]
    FAILS = must_reject or got_inputs != exp_inputs or f.data.ravel().tolist() != x.ravel().tolist() \\
        or list(f.data.shape) != [shape[j] for j in kept] + list(es) \\
        or y.ravel().tolist() != x.ravel().tolist() \\
        or list(y.shape) != (list(shape[kept[0]:nb]) if kept else []) + list(es)
    print("inputs", got_inputs, "expected", exp_inputs, "data", f.data.tolist(), "round trip", y.tolist())
except (ValueError, AssertionError) as ex:
    FAILS = not must_reject
    print("raised", type(ex).__name__, ex)
"""


def convert_stream(ctx, cases, use_driver=True, tag="convert"):
    todo = []
    for c in cases:
        for dtype in ("real", "int"):
            for out_none in (False, True):
                if out_none and (dtype == "int" or not c["d2n"]):
                    continue
                shape = c["shape"]
                n = int(np.prod(shape)) if shape else 1
                dt = "real" if dtype == "real" else max(n, 1)
                x = mk_x(tuple(shape), dt)
                d2n = OrderedDict(c["d2n"])
                n2d = OrderedDict((v, k) for k, v in d2n.items())
                es = shape[len(shape) - c["e"]:]
                output = None if out_none else mk_output(dt, es)
                r1 = run(lambda: to_funsor(x, output, d2n))
                r2 = None
                if r1[0] == "value":
                    f = r1[1]
                    r2 = run(lambda: to_data(f, n2d))
                todo.append((c, dt, out_none, x, r1, r2))
    reqs = []
    for c, dt, out_none, x, r1, r2 in todo:
        es = c["shape"][len(c["shape"]) - c["e"]:]
        out = "none" if out_none else list(es)
        d2n = [[k, Q(v)] for k, v in c["d2n"]]
        n2d = [[Q(v), k] for k, v in c["d2n"]]
        flat = ints(x)
        reqs.append(f"C19 tofunsor {sx(c['shape'])} {sx(flat)} {sx(out)} {sx(dt)} {sx(d2n)}")
        reqs.append(f"C19 roundtrip {sx(c['shape'])} {sx(flat)} {sx(out)} {sx(dt)} {sx(d2n)} {sx(n2d)}")
    answers = ctx.driver.ask(reqs) if use_driver else [None] * len(reqs)
    for i, (c, dt, out_none, x, r1, r2) in enumerate(todo):
        wit = {"stream": tag, "shape": c["shape"], "event_rank": c["e"], "dim_to_name": c["d2n"],
               "dtype": dt, "output_none": out_none}
        py = py_convert_snippet(c, dt, out_none)
        orc = convert_oracle(c, out_none)
        ctx.count(f"{tag}:rank={len(c['shape'])}")
        ctx.count(f"{tag}:event_rank={c['e']}")
        ctx.count(f"{tag}:dtype={'real' if dt == 'real' else 'bint'}")
        ctx.count(f"{tag}:named={sum(c['mask'])}/{len(c['mask'])}")
        ctx.count(f"{tag}:oracle={orc[0]}")
        flat = ints(x)
        # ---- implementation vs the property (Python oracle) --------------------------------
        if r1[0] == "raise":
            ctx.count(f"{tag}:impl-raise={r1[1]}")
            if orc[0] == "ok":
                ctx.fail("correspondence", "C19.to_funsor-declines-valid-placement", witness=wit,
                         expected="a funsor", got=r1[1], python=py)
                continue
        else:
            kind, o = obs_tensor(r1[1])
            if orc[0] == "raise":
                ctx.fail("input", "C19.to_funsor-accepts-unnamed-batch-dim", witness=wit, python=py,
                         expected="ValueError (a batch dim of size != 1 has no name)", got=str(o))
                continue
            exp = orc[1]
            if kind != "tensor" or o["inputs"] != exp["inputs"] or o["shape"] != exp["shape"] \
                    or o["flat"] != flat or o["dtype"] != dt:
                ctx.fail("input", "C19.to_funsor-wrong-placement", witness=wit, python=py,
                         expected=str({"inputs": exp["inputs"], "shape": exp["shape"], "flat": flat}),
                         got=str(o))
                continue
            if r2[0] == "raise":
                ctx.fail("correspondence", "C19.to_data-declines-after-to_funsor", witness=wit,
                         expected="the original array", got=r2[1], python=py)
                continue
            _, y = obs_arr(r2[1])
            if y["flat"] != flat or y["shape"] != exp["rt_shape"]:
                ctx.fail("input", "C19.roundtrip-not-identity", witness=wit, python=py,
                         expected=str({"shape": exp["rt_shape"], "flat": flat}), got=str(y))
                continue
        # ---- Lean model vs implementation (the tie), layout gated -----------------------------
        if use_driver:
            m1, m2 = dec(answers[2 * i]), dec(answers[2 * i + 1])
            if m1[0] == "err" or m2[0] == "err":
                ctx.infra_errors.append(f"driver: {answers[2*i]} / {answers[2*i+1]} for {reqs[2*i][:200]}")
                return
            if r1[0] == "raise":
                if m1[0] != "raise":
                    ctx.fail("correspondence", "C19.model-vs-impl-to_funsor", witness=wit, python=py,
                             expected=str(m1), got=r1[1])
                    continue
                ctx.count(f"{tag}:exc-kind-{'same' if m1[1] == r1[1] else 'differs'}")
            else:
                if m1[0] != "tensor" or m1[1] != o:
                    ctx.fail("correspondence", "C19.model-vs-impl-to_funsor", witness=wit, python=py,
                             expected=str(m1), got=str(o))
                    continue
                if m2[0] != "arr" or m2[1] != y:
                    ctx.fail("correspondence", "C19.model-vs-impl-to_data", witness=wit, python=py,
                             expected=str(m2), got=str(y))
                    continue
        nontrivial = r1[0] == "value" and len(r1[1].inputs) >= 1 and len(c["shape"]) >= 2
        ctx.case(sample=wit, nontrivial_key=(tuple(c["shape"]), c["e"], tuple(c["mask"]), dt, out_none)
                 if nontrivial else None)


# ------------------------------------------------------------------------------------------
# stream: malformed (model fidelity only; counted, never gated)
# ------------------------------------------------------------------------------------------

def malformed_stream(ctx, n):
    rng = ctx.rng
    todo = []
    for _ in range(n):
        r = rng.randint(0, 4)
        shape = [rng.choice([1, 2, 3]) for _ in range(r)]
        e = rng.randint(0, min(2, r))
        nb = r - e
        es = shape[nb:]
        kind = rng.choice(["dup-name", "key-out-of-range", "event-mismatch", "empty-d2n", "positive-key",
                           "out-longer", "n2d-missing", "n2d-dup-dim"])
        d2n = [(j - nb, NAMES[j]) for j in range(nb) if rng.random() < 0.8]
        out = list(es)
        n2d = None
        if kind == "dup-name" and len(d2n) >= 2:
            d2n[-1] = (d2n[-1][0], d2n[0][1])
        elif kind == "key-out-of-range":
            d2n.append((-nb - rng.randint(1, 2), "z"))
        elif kind == "event-mismatch" and e >= 1:
            out = list(reversed(es)) if e == 2 else [es[0], 1]
        elif kind == "empty-d2n":
            d2n = []
        elif kind == "positive-key":
            d2n.append((rng.randint(0, 1), "z"))
        elif kind == "out-longer":
            out = [1] * (r - len(es) + 1) + list(shape)
        x = mk_x(tuple(shape), "real")
        if kind in ("n2d-missing", "n2d-dup-dim"):
            # to_data on a hand-built tensor (size-1 inputs allowed) with a defective name_to_dim
            keys = NAMES[:nb]
            t = Tensor(x, OrderedDict((k, Bint[s]) for k, s in zip(keys, shape)))
            n2d = [(k, -(i + 1)) for i, k in enumerate(keys)]
            rng.shuffle(n2d)
            if kind == "n2d-missing" and n2d:
                n2d = n2d[1:]
            elif kind == "n2d-dup-dim" and len(n2d) >= 2:
                n2d[0] = (n2d[0][0], n2d[1][1])
            r1 = run(lambda: to_data(t, OrderedDict(n2d)))
            todo.append((kind, shape, out, n2d, x, r1, obs_tensor(t)[1]))
            continue
        r1 = run(lambda: to_funsor(x, Reals[tuple(out)], OrderedDict(d2n)))
        todo.append((kind, shape, out, d2n, x, r1, None))
    reqs = [f"C19 tofunsor {sx(s)} {sx(ints(x))} {sx(out)} real {sx([[k, Q(v)] for k, v in d2n])}" if t is None
            else f"C19 todata {sx(enc_tensor(t))} {sx([[Q(k), d] for k, d in d2n])}"
            for kind, s, out, d2n, x, r1, t in todo]
    answers = ctx.driver.ask(reqs)
    for (kind, s, out, d2n, x, r1, t), a in zip(todo, answers):
        m = dec(a)
        if r1[0] == "raise":
            agree = m[0] == "raise"
        elif t is not None:
            agree = m[0] == "arr" and obs_arr(r1[1])[1] == m[1]
        else:
            agree = m[0] == "tensor" and obs_tensor(r1[1])[1] == m[1]
        ctx.count(f"malformed:{kind}:{'agree' if agree else 'DISAGREE'}")
        ctx.count(f"malformed:impl={'raise' if r1[0] == 'raise' else 'value'}")
        ctx.case()


# ------------------------------------------------------------------------------------------
# stream: align (+ to_data of the aligned tensor)
# ------------------------------------------------------------------------------------------

def partial_perms(names):
    for k in range(len(names) + 1):
        for p in itertools.permutations(names, k):
            yield p


def align_tensors_cases(rng, tier, sample=1.0):
    """Tensors with n <= 4 inputs; sizes: all-distinct-ish combos plus size-1 inputs."""
    for n in range(0, 5):
        if tier == "quick":
            size_combos = {tuple(rng.choice([1, 2, 3]) for _ in range(n)) for _ in range(6)}
            size_combos |= {tuple([2, 3, 1, 2][:n]), tuple([3, 2, 2, 1][:n])}
        else:
            size_combos = set(itertools.product([1, 2, 3], repeat=n))
        for sizes in sorted(size_combos):
            for es in ([], [2], [2, 3]):
                if tier == "quick" and es == [2, 3] and rng.random() < 0.5:
                    continue
                pool = NAMES[:n + 1]
                rng.shuffle(pool)
                names = pool[:n]
                yield {"inputs": list(zip(names, sizes)), "es": es}


def py_align_snippet(t, names, n2d):
    return f"""
# C19 replay: Tensor.align then to_data
import numpy as np, itertools, funsor
from collections import OrderedDict
from funsor import to_data
from funsor.domains import Bint
from funsor.tensor import Tensor
funsor.set_backend("numpy")
inputs = {t['inputs']!r}; es = {t['es']!r}; names = {tuple(names)!r}; n2d = dict({n2d!r})
shape = [s for _, s in inputs] + es
data = np.arange(float(np.prod(shape))).reshape(shape)
f = Tensor(data, OrderedDict((k, Bint[s]) for k, s in inputs))
g = f.align(names)
rest = [k for k, _ in inputs if k not in names]
FAILS = list(g.inputs) != list(names) + rest
for pt in itertools.product(*[range(s) for _, s in inputs]):
    env = dict(zip([k for k, _ in inputs], pt))
    FAILS = FAILS or not np.array_equal(g.data[tuple(env[k] for k in g.inputs)], data[pt])
if n2d and inputs:
    y = to_data(g, n2d)
    D = -min(n2d[k] for k, _ in inputs)
    exp_shape = [1] * D
    for k, s in inputs: exp_shape[D + n2d[k]] = s
    FAILS = FAILS or list(y.shape) != exp_shape + es
    for pt in ([] if FAILS else itertools.product(*[range(s) for _, s in inputs])):
        env = dict(zip([k for k, _ in inputs], pt))
        idx = [0] * D
        for k in env: idx[D + n2d[k]] = env[k]
        FAILS = FAILS or not np.array_equal(y[tuple(idx)], data[pt])
print("aligned inputs", list(g.inputs), "FAILS", FAILS)
"""


def align_stream(ctx, tensors, use_driver=True):
    rng = ctx.rng
    todo = []
    for t in tensors:
        inputs, es = t["inputs"], t["es"]
        shape = [s for _, s in inputs] + es
        data = mk_x(tuple(shape), "real")
        f = Tensor(data, OrderedDict((k, Bint[s]) for k, s in inputs))
        keys = [k for k, _ in inputs]
        for names in partial_perms(keys):
            rg = run(lambda: f.align(tuple(names)))
            if rg[0] == "raise":
                ctx.fail("correspondence", "C19.align-declines", python=py_align_snippet(t, names, []),
                         witness={"stream": "align", "inputs": inputs, "event_shape": es, "names": list(names)},
                         expected="an aligned tensor", got=rg[1])
                continue
            g = rg[1]
            # target dims for to_data: injective, negative, with gaps
            dims = rng.sample(range(-len(keys) - 2, 0), len(keys)) if keys else []
            n2d = list(zip(keys, dims))
            r2 = run(lambda: to_data(g, OrderedDict(n2d))) if keys else None
            todo.append((t, f, data, list(names), g, n2d, r2))
    reqs = []
    for t, f, data, names, g, n2d, r2 in todo:
        ft = obs_tensor(f)[1]
        reqs.append(f"C19 align {sx(enc_tensor(ft))} {sx([Q(n) for n in names])}")
        gt = obs_tensor(g)[1]
        reqs.append(f"C19 todata {sx(enc_tensor(gt))} {sx([[Q(k), d] for k, d in n2d])}")
    answers = ctx.driver.ask(reqs) if use_driver else [None] * len(reqs)
    for i, (t, f, data, names, g, n2d, r2) in enumerate(todo):
        inputs, es = t["inputs"], t["es"]
        keys = [k for k, _ in inputs]
        wit = {"stream": "align", "inputs": inputs, "event_shape": es, "names": names, "name_to_dim": n2d}
        py = py_align_snippet(t, names, n2d)
        ctx.count(f"align:n_inputs={len(inputs)}")
        ctx.count(f"align:n_names={len(names)}")
        ctx.count(f"align:event_rank={len(es)}")
        # property oracle: inputs order = names then the rest; value at every named point unchanged
        rest = [k for k in keys if k not in names]
        kind, go = obs_tensor(g)
        exp_keys = names + rest if names else keys
        perm = [keys.index(k) for k in exp_keys] + list(range(len(keys), len(keys) + len(es)))
        exp_data = np.transpose(data, perm)
        if kind != "tensor" or [k for k, _ in go["inputs"]] != exp_keys \
                or go["inputs"] != [(k, dict(inputs)[k]) for k in exp_keys] \
                or go["shape"] != list(exp_data.shape) or go["flat"] != ints(exp_data):
            ctx.fail("input", "C19.align-moves-data", witness=wit, python=py,
                     expected=str({"inputs": exp_keys, "flat": ints(exp_data)}), got=str(go))
            continue
        y = None
        if keys:
            if r2[0] == "raise":
                ctx.fail("correspondence", "C19.to_data-declines-aligned", witness=wit, python=py,
                         expected="an array", got=r2[1])
                continue
            y = np.asarray(r2[1])
            nd = dict(n2d)
            D = -min(nd.values())
            exp_shape = [1] * D
            for k, s in inputs:
                exp_shape[D + nd[k]] = s
            bad = list(y.shape) != exp_shape + es
            if not bad:
                for pt in itertools.product(*[range(s) for _, s in inputs]):
                    idx = [0] * D
                    for k, v in zip(keys, pt):
                        idx[D + nd[k]] = v
                    if not np.array_equal(y[tuple(idx)], data[pt]):
                        bad = True
                        break
            if bad:
                ctx.fail("input", "C19.to_data-moves-data", witness=wit, python=py,
                         expected=f"shape {exp_shape + es}, y[dims]=x[names]", got=str(obs_arr(y)[1]))
                continue
        if use_driver:
            m1, m2 = dec(answers[2 * i]), dec(answers[2 * i + 1])
            if m1[0] == "err" or m2[0] == "err":
                ctx.infra_errors.append(f"driver: {answers[2*i]} / {answers[2*i+1]} for {reqs[2*i][:200]}")
                return
            if m1[0] != "tensor" or m1[1] != go:
                ctx.fail("correspondence", "C19.model-vs-impl-align", witness=wit, python=py,
                         expected=str(m1), got=str(go))
                continue
            if keys:
                if m2[0] != "arr" or m2[1] != obs_arr(y)[1]:
                    ctx.fail("correspondence", "C19.model-vs-impl-to_data", witness=wit, python=py,
                             expected=str(m2), got=str(obs_arr(y)[1]))
                    continue
            elif m2[0] != "arr":
                ctx.count("align:todata-no-inputs-model=" + m2[0])
        nontrivial = len(inputs) >= 2 and len(names) >= 1 and exp_keys != keys
        ctx.case(sample=wit if len(inputs) >= 3 else None,
                 nontrivial_key=("align", tuple(inputs), tuple(es), tuple(names)) if nontrivial else None)


# ------------------------------------------------------------------------------------------
# stream: align_tensor / align_tensors
# ------------------------------------------------------------------------------------------

def py_aligntensors_snippet(sizes, specs, expand, tgt):
    return f"""
# C19 replay: align_tensors / align_tensor
import numpy as np, itertools, funsor
from collections import OrderedDict
from funsor.domains import Bint
from funsor.tensor import Tensor, align_tensors, align_tensor
funsor.set_backend("numpy")
sizes = {sizes!r}; specs = {specs!r}; expand = {expand!r}; tgt = {tgt!r}
ts = []
for k, (keys, es) in enumerate(specs):
    shape = [sizes[n] for n in keys] + es
    ts.append(Tensor(np.arange(float(np.prod(shape))).reshape(shape) + 100 * k,
                     OrderedDict((n, Bint[sizes[n]]) for n in keys)))
inputs, arrs = align_tensors(*ts, expand=expand)
exp = []
for t in ts:
    for n in t.inputs:
        if n not in exp: exp.append(n)
FAILS = list(inputs) != exp
full = [sizes[n] for n in inputs]
for t, a, (keys, es) in zip(ts, arrs, specs):
    b = np.broadcast_to(a, full + es)
    if expand: FAILS = FAILS or list(a.shape) != full + es
    for pt in itertools.product(*[range(s) for s in full]):
        env = dict(zip(inputs, pt))
        FAILS = FAILS or not np.array_equal(b[pt], t.data[tuple(env[n] for n in keys)])
a = align_tensor(OrderedDict((n, Bint[sizes[n]]) for n in tgt), ts[0], expand=expand)
full = [sizes[n] for n in tgt]
try:
    b = np.broadcast_to(a, full + specs[0][1])
    for pt in itertools.product(*[range(s) for s in full]):
        env = dict(zip(tgt, pt))
        FAILS = FAILS or not np.array_equal(b[pt], ts[0].data[tuple(env[n] for n in specs[0][0])])
except ValueError:
    FAILS = True
print("inputs", list(inputs), "FAILS", FAILS)
"""


def aligntensors_stream(ctx, n, use_driver=True):
    rng = ctx.rng
    todo = []
    for _ in range(n):
        pool = rng.sample(NAMES, 4)
        sizes = {k: rng.choice([1, 2, 2, 3, 3]) for k in pool}
        nt = rng.choice([1, 2, 2, 2, 3])
        same_es = rng.choice([[], [], [2]])
        specs = []
        for k in range(nt):
            keys = rng.sample(pool, rng.randint(0, 4))
            specs.append((keys, list(same_es)))
        if rng.random() < 0.15 and nt >= 2:
            specs[1] = (list(specs[0][0]), specs[1][1])     # identical inputs: early-return branch
        expand = rng.random() < 0.5
        ts = []
        for k, (keys, es) in enumerate(specs):
            shape = [sizes[x] for x in keys] + es
            ts.append(Tensor(mk_x(tuple(shape), "real") + 100 * k,
                             OrderedDict((x, Bint[sizes[x]]) for x in keys)))
        r = run(lambda: align_tensors(*ts, expand=expand))
        # direct align_tensor against a superset ordering with extra names
        extra = [k for k in pool if k not in specs[0][0]]
        tgt = specs[0][0] + [k for k in extra if rng.random() < 0.7]
        rng.shuffle(tgt)
        new_inputs = OrderedDict((k, Bint[sizes[k]]) for k in tgt)
        r1 = run(lambda: align_tensor(new_inputs, ts[0], expand=expand))
        todo.append((sizes, specs, expand, ts, r, tgt, r1))
    reqs = []
    for sizes, specs, expand, ts, r, tgt, r1 in todo:
        enc = [enc_tensor(obs_tensor(t)[1]) for t in ts]
        reqs.append(f"C19 aligntensors {sx(enc)} {sx(expand)}")
        reqs.append(f"C19 aligntensor {sx(enc_inputs([(k, sizes[k]) for k in tgt]))} {sx(enc[0])} {sx(expand)}")
    answers = ctx.driver.ask(reqs) if use_driver else [None] * len(reqs)
    for i, (sizes, specs, expand, ts, r, tgt, r1) in enumerate(todo):
        wit = {"stream": "aligntensors", "sizes": sizes, "tensors": specs, "expand": expand, "target": tgt}
        py = py_aligntensors_snippet(sizes, specs, expand, tgt)
        ctx.count(f"aligntensors:n={len(specs)}")
        ctx.count(f"aligntensors:expand={expand}")
        if r[0] == "raise" or r1[0] == "raise":
            ctx.fail("correspondence", "C19.align_tensors-declines", witness=wit, python=py,
                     expected="aligned arrays", got=str((r[0], r1[0])))
            continue
        inputs, arrs = r[1]
        exp = []
        for keys, _ in specs:
            for k in keys:
                if k not in exp:
                    exp.append(k)
        bad = list(inputs) != exp or [d.size for d in inputs.values()] != [sizes[k] for k in exp]
        full = [sizes[k] for k in exp]

        def check(a, t, keys, es, order, fullshape):
            b = np.broadcast_to(a, fullshape + es)
            if expand and list(np.shape(a)) != fullshape + es:
                return True
            for pt in itertools.product(*[range(s) for s in fullshape]):
                env = dict(zip(order, pt))
                if not np.array_equal(b[pt], t.data[tuple(env[k] for k in keys)]):
                    return True
            return False
        for t, a, (keys, es) in zip(ts, arrs, specs):
            try:
                bad = bad or check(a, t, keys, es, exp, full)
            except ValueError:
                bad = True
        try:
            bad1 = check(r1[1], ts[0], specs[0][0], specs[0][1], tgt, [sizes[k] for k in tgt])
        except ValueError:
            bad1 = True
        if bad or bad1:
            ctx.fail("input", "C19.align_tensors-moves-data", witness=wit, python=py,
                     expected="every aligned array broadcasts to the tensor's value at every named point",
                     got=str([obs_arr(a)[1] for a in arrs] + [obs_arr(r1[1])[1]]))
            continue
        if use_driver:
            a0, a1 = answers[2 * i], answers[2 * i + 1]
            ok = a0.startswith("ok ")
            if ok:
                p = parse_sx(a0[3:])
                ok = isinstance(p, list) and len(p) == 2 and p[0] != "raise"
            if not ok:
                ctx.fail("correspondence", "C19.model-vs-impl-align_tensors", witness=wit, python=py,
                         expected=a0[:300], got="arrays")
                continue
            m_inputs = [(str(k), int(s)) for k, s in p[0]]
            m_arrs = [dec_val(q)[1] for q in p[1]]
            if m_inputs != [(k, sizes[k]) for k in exp] or m_arrs != [obs_arr(a)[1] for a in arrs]:
                ctx.fail("correspondence", "C19.model-vs-impl-align_tensors", witness=wit, python=py,
                         expected=str((m_inputs, m_arrs)), got=str([obs_arr(a)[1] for a in arrs]))
                continue
            m1 = dec(a1)
            if m1[0] != "arr" or m1[1] != obs_arr(r1[1])[1]:
                ctx.fail("correspondence", "C19.model-vs-impl-align_tensor", witness=wit, python=py,
                         expected=str(m1), got=str(obs_arr(r1[1])[1]))
                continue
        ctx.case(nontrivial_key=("at", tuple(sorted(sizes.items())), str(specs), expand, tuple(tgt))
                 if len(exp) >= 2 else None)


# ------------------------------------------------------------------------------------------
# stream: lazy Align / Contraction.align / Delta.align (implementation vs property oracle)
# ------------------------------------------------------------------------------------------

def lazy_stream(ctx, n, use_driver=True):
    rng = ctx.rng
    tie = []        # (request, kind, impl keys / term order, impl value table or None, impl is Align)
    for _ in range(n):
        pool = rng.sample(NAMES, 3)
        sizes = {k: rng.choice([1, 2, 3]) for k in pool}
        k1 = rng.sample(pool, rng.randint(1, 3))
        k2 = rng.sample(pool, rng.randint(1, 3))
        t1 = Tensor(mk_x(tuple(sizes[k] for k in k1), "real") + 1, OrderedDict((k, Bint[sizes[k]]) for k in k1))
        t2 = Tensor(mk_x(tuple(sizes[k] for k in k2), "real") + 7, OrderedDict((k, Bint[sizes[k]]) for k in k2))
        kind = rng.choice(["binary", "contraction", "contraction-reduce", "delta"])
        wit = {"stream": "lazy", "kind": kind, "sizes": sizes, "t1": k1, "t2": k2}
        ctx.count(f"lazy:{kind}")
        if kind == "delta":
            terms = tuple((k, (Number(float(i)), Number(0.0))) for i, k in enumerate(pool))
            d = Delta(terms)
            names = tuple(rng.sample(pool, 3))
            wit["names"] = list(names)
            g = d.align(names)
            if [k for k, _ in g.terms] != list(names) or dict(g.terms) != dict(d.terms):
                ctx.fail("input", "C19.delta-align", witness=wit, expected=str(names),
                         got=str([k for k, _ in g.terms]))
            tie.append((f"C19 deltaalign {sx([Q(k) for k in pool])} {sx([Q(k) for k in names])}",
                        "delta", [k for k, _ in g.terms], None, False))
            ctx.case(nontrivial_key=("delta", names, tuple(pool)))
            continue
        with reflect:
            if kind == "binary":
                x = Binary(ops.add, t1, t2)
            elif kind == "contraction":
                x = Contraction(ops.null, ops.mul, frozenset(), (t1, t2))
            else:
                rv = rng.choice(k1)
                x = Contraction(ops.add, ops.mul, frozenset({Variable(rv, Bint[sizes[rv]])}), (t1, t2))
        keys = list(x.inputs)
        names = tuple(rng.sample(keys, rng.randint(0, len(keys))))
        wit["names"] = list(names)
        r = run(lambda: x.align(names))
        if r[0] == "raise":
            ctx.count("lazy:declined")
            ctx.case()
            continue
        g = r[1]
        rest = [k for k in keys if k not in names]
        exp_keys = list(names) + rest if names else keys
        # Funsor.align documents `names` as ALL names in a new order; with a proper subset the lazy
        # Align is dropped by eager_align (value unchanged, order not promised): the order is gated
        # only for full permutations, the value at every point always.
        full = set(names) == set(keys) or not names
        bad = full and list(g.inputs) != exp_keys
        if not full:
            ctx.count("lazy:partial-names-order-" + ("as-tensor-align" if list(g.inputs) == exp_keys else "kept"))
        ev_x = reinterpret(x)
        vals = []
        for pt in itertools.product(*[range(sizes[k]) for k in keys]):
            env = dict(zip(keys, pt))
            gv = g(**env) if env else reinterpret(g)
            xv = ev_x(**env) if env else ev_x
            gv = reinterpret(gv)
            if not (isinstance(gv, (Tensor, Number)) and isinstance(xv, (Tensor, Number))):
                ctx.count("lazy:not-ground")
                break
            if float(np.asarray(gv.data)) != float(np.asarray(xv.data)):
                bad = True
                break
            vals.append(int(np.asarray(xv.data)))
        if bad:
            ctx.fail("input", f"C19.lazy-align-{kind}", witness=wit,
                     expected=f"inputs {exp_keys}, same value at every point", got=str(list(g.inputs)))
            continue
        enc1, enc2 = enc_tensor(obs_tensor(t1)[1]), enc_tensor(obs_tensor(t2)[1])
        if kind == "binary":
            term = ["binary", "add", enc1, enc2]
        elif kind == "contraction":
            term = ["contract", "add", "mul", [], enc1, enc2]
        else:
            term = ["contract", "add", "mul", enc_inputs([(rv, sizes[rv])]), enc1, enc2]
        tie.append((f"C19 lazyalign {sx(term)} {sx([Q(k) for k in names])} "
                    f"{sx(enc_inputs([(k, sizes[k]) for k in keys]))}",
                    kind, list(g.inputs), vals if len(vals) == int(np.prod([sizes[k] for k in keys])) else None,
                    isinstance(g, Align)))
        ctx.case(nontrivial_key=("lazy", kind, str(sizes), tuple(k1), tuple(k2), names)
                 if len(keys) >= 2 and names else None)
    if not use_driver or not tie:
        return
    answers = ctx.driver.ask([t[0] for t in tie])
    for (req, kind, ikeys, ivals, is_align), a in zip(tie, answers):
        if not a.startswith("ok "):
            ctx.infra_errors.append(f"driver: {a} for {req[:200]}")
            return
        p = parse_sx(a[3:])
        if kind == "delta":
            ctx.count("lazy:model-delta-order-" + ("agree" if [str(k) for k in p] == ikeys else "DIFFERS"))
            continue
        if p and p[0] == "raise":
            ctx.count("lazy:model-declines")
            continue
        mkeys, mwrapped, t_orig, t_aligned = [str(k) for k in p[0]], p[1] == "true", p[2], p[3]
        if t_orig != t_aligned:
            ctx.infra_errors.append(f"Lean alignT changed the denotation (contradicts alignT_denote) on {req[:300]}")
            return
        ctx.count(f"lazy:model-order-{kind}-" + ("agree" if mkeys == ikeys else "differs"))
        ctx.count(f"lazy:model-wrapper-{kind}-" + ("agree" if mwrapped == is_align else "differs"))
        if ivals is not None:
            mv = [None if v == "none" else int(v) for v in t_orig]
            ctx.count("lazy:model-values-" + ("agree" if mv == ivals else "DIFFER"))


# ------------------------------------------------------------------------------------------
# stream: materialize
# ------------------------------------------------------------------------------------------

OPS = {"add": ops.add, "mul": ops.mul, "sub": ops.sub}


def gen_term(rng, sizes, depth):
    names = list(sizes)
    if depth == 0 or rng.random() < 0.25:
        r = rng.random()
        if r < 0.35:
            n = rng.choice(names)
            return ["var", n, sizes[n]]
        if r < 0.5:
            # Slice(name, start, stop, step, dtype) with exactly sizes[name] points
            n = rng.choice(names)
            start, step = rng.randint(0, 2), rng.randint(1, 3)
            stop = start + step * (sizes[n] - 1) + rng.randint(1, step)
            return ["slice", n, start, stop, step, stop + rng.randint(0, 2)]
        keys = rng.sample(names, rng.randint(0, len(names)))
        shape = [sizes[k] for k in keys]
        size = int(np.prod(shape)) if shape else 1
        flat = [rng.randint(-2, 5) for _ in range(size)]
        return ["tensor", [(k, sizes[k]) for k in keys], shape, flat, "real"]
    return ["binary", rng.choice(list(OPS)), gen_term(rng, sizes, depth - 1), gen_term(rng, sizes, depth - 1)]


def term_funsor(t):
    if t[0] == "var":
        return Variable(t[1], Bint[t[2]])
    if t[0] == "slice":
        from funsor.terms import Slice
        return Slice(t[1], t[2], t[3], t[4], t[5])
    if t[0] == "tensor":
        data = np.array(t[3], dtype=np.float64).reshape(t[2])
        return Tensor(data, OrderedDict((k, Bint[s]) for k, s in t[1]))
    return OPS[t[1]](term_funsor(t[2]), term_funsor(t[3]))


def term_sx(t):
    if t[0] == "var":
        return ["var", Q(t[1]), t[2]]
    if t[0] == "slice":
        return ["slice", Q(t[1]), t[2], t[3], t[4], t[5]]
    if t[0] == "tensor":
        return ["tensor", enc_inputs(t[1]), t[2], t[3], t[4]]
    return ["binary", t[1], term_sx(t[2]), term_sx(t[3])]


def term_py(t, env):
    """Python oracle: value of the term at a named point."""
    if t[0] == "var":
        return env[t[1]]
    if t[0] == "slice":
        return t[2] + t[4] * env[t[1]]
    if t[0] == "tensor":
        a = np.array(t[3]).reshape(t[2])
        return int(a[tuple(env[k] for k, _ in t[1])])
    l, r = term_py(t[2], env), term_py(t[3], env)
    return {"add": l + r, "mul": l * r, "sub": l - r}[t[1]]


def term_vars(t):
    if t[0] in ("var", "slice"):
        return {t[1]}
    if t[0] == "tensor":
        return {k for k, _ in t[1]}
    return term_vars(t[2]) | term_vars(t[3])


def py_materialize_snippet(t, sizes):
    return f"""
# C19 replay: Tensor.materialize must not change the value of the term at any named point
import numpy as np, itertools, funsor
from collections import OrderedDict
from funsor.domains import Bint
from funsor.tensor import Tensor
from funsor.terms import Variable, Number, Slice
import funsor.ops as ops
funsor.set_backend("numpy")
term = {t!r}; sizes = {sizes!r}
OPS = dict(add=ops.add, mul=ops.mul, sub=ops.sub)
def build(t):
    if t[0] == "var": return Variable(t[1], Bint[t[2]])
    if t[0] == "slice": return Slice(t[1], t[2], t[3], t[4], t[5])
    if t[0] == "tensor":
        return Tensor(np.array(t[3], dtype=np.float64).reshape(t[2]), OrderedDict((k, Bint[s]) for k, s in t[1]))
    return OPS[t[1]](build(t[2]), build(t[3]))
def value(t, env):
    if t[0] == "var": return env[t[1]]
    if t[0] == "slice": return t[2] + t[4] * env[t[1]]
    if t[0] == "tensor": return int(np.array(t[3]).reshape(t[2])[tuple(env[k] for k, _ in t[1])])
    l, r = value(t[2], env), value(t[3], env)
    return dict(add=l + r, mul=l * r, sub=l - r)[t[1]]
g = Tensor(np.zeros(())).materialize(build(term))
FAILS = False
if isinstance(g, (Tensor, Number)):
    names = sorted(sizes)
    for pt in itertools.product(*[range(sizes[k]) for k in names]):
        env = dict(zip(names, pt))
        got = float(np.asarray(g.data)[tuple(env[k] for k in g.inputs)])
        FAILS = FAILS or got != float(value(term, env))
print("FAILS", FAILS)
"""


def materialize_stream(ctx, n, use_driver=True):
    rng = ctx.rng
    proto = Tensor(np.zeros(()))
    todo = []
    for _ in range(n):
        names = rng.sample(NAMES, rng.randint(1, 3))
        sizes = {k: rng.choice([1, 2, 3]) for k in names}
        t = gen_term(rng, sizes, rng.randint(1, 3))
        x = term_funsor(t)
        r = run(lambda: proto.materialize(x))
        todo.append((sizes, t, x, r))
    reqs = []
    for sizes, t, x, r in todo:
        order = sorted(term_vars(t))
        reqs.append(f"C19 materialize {sx(term_sx(t))}")
        reqs.append(f"C19 denotetable {sx(term_sx(t))} {sx(enc_inputs([(k, sizes[k]) for k in order]))}")
    answers = ctx.driver.ask(reqs) if use_driver else [None] * len(reqs)
    for i, (sizes, t, x, r) in enumerate(todo):
        order = sorted(term_vars(t))
        wit = {"stream": "materialize", "term": t}
        ctx.count("materialize:lazy-input" if not isinstance(x, (Tensor, Number)) else "materialize:ground-input")
        if r[0] == "raise":
            ctx.count("materialize:declined-" + r[1])
            ctx.case()
            continue
        g = r[1]
        if not isinstance(g, (Tensor, Number)):
            ctx.count("materialize:result-lazy")
            ctx.case()
            continue
        pts = list(itertools.product(*[range(sizes[k]) for k in order]))
        spec = [term_py(t, dict(zip(order, pt))) for pt in pts]
        if set(g.inputs) - set(order):
            ctx.fail("input", "C19.materialize-inputs", witness=wit, expected=str(order), got=str(list(g.inputs)))
            continue
        got = []
        gd = np.asarray(g.data)
        gkeys = list(g.inputs)
        for pt in pts:
            env = dict(zip(order, pt))
            got.append(float(gd[tuple(env[k] for k in gkeys)]))
        if [float(v) for v in spec] != got:
            ctx.fail("input", "C19.materialize-changes-value", witness=wit, expected=str(spec), got=str(got),
                     python=py_materialize_snippet(t, sizes))
            continue
        if use_driver:
            m, d = dec(answers[2 * i]), answers[2 * i + 1]
            if not d.startswith("ok "):
                ctx.infra_errors.append(f"driver: {d} for {reqs[2*i+1][:200]}")
                return
            dl = [None if v == "none" else int(v) for v in parse_sx(d[3:])] if d[3:] != "()" else []
            if dl != spec:
                ctx.infra_errors.append(f"Lean denote disagrees with the python oracle on {reqs[2*i+1][:300]}")
                return
            if m[0] == "tensor":
                # model's eager evaluation vs its own spec (echo of materialize_sem) and vs the impl
                mt = m[1]
                ma = np.array(mt["flat"], dtype=object).reshape(mt["shape"])
                mk = [k for k, _ in mt["inputs"]]
                mv = [ma[tuple(dict(zip(order, pt))[k] for k in mk)] for pt in pts]
                if mv != spec:
                    ctx.infra_errors.append(f"Lean materialize/eval disagrees with its spec on {reqs[2*i][:300]}")
                    return
                ctx.count("materialize:inputs-order-" + ("same" if mk == gkeys else "differs"))
            else:
                ctx.count("materialize:model-" + m[0])
        ctx.case(nontrivial_key=("mat", str(t)) if len(order) >= 2 and not isinstance(x, (Tensor, Number)) else None)


# ------------------------------------------------------------------------------------------
# stream: materialize with slice-valued inputs (Python oracle only)
# ------------------------------------------------------------------------------------------

def py_slice_snippet(c):
    return f"""
# C19 replay: materialising slice-valued inputs must not change the denoted function
import numpy as np, funsor
from collections import OrderedDict
from funsor.domains import Bint
from funsor.tensor import Tensor
from funsor.terms import Slice
funsor.set_backend("numpy")
c = {c!r}
(s1, e1, st1, n), (s2, e2, st2, m) = c["sl1"], c["sl2"]
sl1, sl2 = Slice("j", s1, e1, st1, n), Slice("j", s2, e2, st2, m)
T = Tensor(np.arange(float(n * m * 2)).reshape(n, m, 2), OrderedDict(a=Bint[n], b=Bint[m], c=Bint[2]))
FAILS = False
g = Tensor(np.zeros(())).materialize(sl1)
FAILS = FAILS or list(g.inputs) != ["j"] or g.data.tolist() != list(range(s1, e1, st1))
r = T(a=sl1)
for j in range(len(range(s1, e1, st1))):
    for b in range(m):
        for cc in range(2):
            FAILS = FAILS or float(r(j=j, b=b, c=cc).data) != float(T.data[s1 + st1 * j, b, cc])
if len(range(s1, e1, st1)) == len(range(s2, e2, st2)):
    d = T(a=sl1, b=sl2)
    for j in range(len(range(s1, e1, st1))):
        for cc in range(2):
            FAILS = FAILS or float(d(j=j, c=cc).data) != float(T.data[s1 + st1 * j, s2 + st2 * j, cc])
print("FAILS", FAILS)
"""


def slice_stream(ctx, n):
    from funsor.terms import Slice
    rng = ctx.rng
    proto = Tensor(np.zeros(()))

    def gen_slice(size_hint=None):
        for _ in range(50):
            dt = rng.choice([1, 2, 3, 4, 5, 6, 6])
            start = min(rng.choice([0, 0, 1, 2]), dt - 1)
            step = rng.choice([1, 1, 2, 3])
            stop = rng.choice([dt, dt, rng.randint(start, dt)])
            if size_hint is None or len(range(start, stop, step)) == size_hint:
                return (start, stop, step, dt)
        return None
    for _ in range(n):
        sl1 = gen_slice()
        k = len(range(sl1[0], sl1[1], sl1[2]))
        sl2 = gen_slice(k if rng.random() < 0.7 else None) or gen_slice()
        c = {"stream": "slice", "sl1": list(sl1), "sl2": list(sl2)}
        py = py_slice_snippet(c)
        (s1, e1, st1, n1), (s2, e2, st2, m) = sl1, sl2
        k2 = len(range(s2, e2, st2))
        a, b = Slice("j", s1, e1, st1, n1), Slice("j", s2, e2, st2, m)
        T = Tensor(np.arange(float(n1 * m * 2)).reshape(n1, m, 2), OrderedDict(a=Bint[n1], b=Bint[m], c=Bint[2]))
        ctx.count(f"slice:size={k}")
        g = run(lambda: proto.materialize(a))
        if g[0] == "value" and isinstance(g[1], Tensor):
            if list(g[1].inputs) != ["j"] or ints(g[1].data) != list(range(s1, e1, st1)):
                ctx.fail("input", "C19.materialize-slice", witness=c, python=py,
                         expected=str(list(range(s1, e1, st1))), got=str(ints(g[1].data)))
                continue
        else:
            ctx.count("slice:materialize-declined")
        if k == 0:
            ctx.case()
            continue
        r = run(lambda: T(a=a))
        bad = None
        if r[0] == "value" and isinstance(r[1], Tensor):
            rk = list(r[1].inputs)
            if sorted(rk) != ["b", "c", "j"]:
                bad = f"inputs {rk}"
            else:
                for j in range(k):
                    for bb in range(m):
                        for cc in range(2):
                            env = {"j": j, "b": bb, "c": cc}
                            if float(r[1].data[tuple(env[x] for x in rk)]) != float(T.data[s1 + st1 * j, bb, cc]):
                                bad = f"value at {env}"
        else:
            ctx.count("slice:slicing-declined")
        if bad is None and k == k2:
            ctx.count("slice:diagonal")
            d = run(lambda: T(a=a, b=b))
            if d[0] == "value" and isinstance(d[1], Tensor):
                dk = list(d[1].inputs)
                if sorted(dk) != ["c", "j"]:
                    bad = f"diagonal inputs {dk}"
                else:
                    for j in range(k):
                        for cc in range(2):
                            env = {"j": j, "c": cc}
                            if float(d[1].data[tuple(env[x] for x in dk)]) != \
                                    float(T.data[s1 + st1 * j, s2 + st2 * j, cc]):
                                bad = f"diagonal value at {env}"
            else:
                ctx.count("slice:diagonal-declined")
        if bad is not None:
            ctx.fail("input", "C19.slice-input-changes-value", witness=c, python=py,
                     expected="T[start + step*j, ...] at every point", got=bad)
            continue
        ctx.case(nontrivial_key=("slice", sl1, sl2) if k >= 2 else None)


# ------------------------------------------------------------------------------------------
# stream: histories over tensors that SHARE one backing array
# ------------------------------------------------------------------------------------------
# The property is a statement about a pure function of (data, inputs, names).  Anything that makes
# the result depend on what was aligned *before* (a memo keyed on the identity of the backing array,
# a cached permutation, a stale view) breaks it only on multi-step histories over tensors that share
# an ndarray under different name assignments, with earlier results kept alive.  The interpreter
# below is also the replay: it is plain source so a failing history replays stand-alone.

HISTORY_SRC = r"""
def run_history(desc):
    import itertools
    import numpy as np
    from collections import OrderedDict
    import funsor
    from funsor import to_data, to_funsor
    from funsor.domains import Bint, Reals, Array
    from funsor.tensor import Tensor
    funsor.set_backend("numpy")
    sizes, es, dt, names = desc["sizes"], desc["es"], desc["dtype"], desc["names"]
    shape = sizes + es
    n = int(np.prod(shape)) if shape else 1
    base = np.arange(n, dtype=np.float64 if dt == "real" else np.int64).reshape(shape)
    data = base.copy() if desc["own"] else base
    data0 = np.array(data, copy=True)            # the oracle never looks at funsor objects
    nb = len(sizes)
    x = Tensor(data, OrderedDict((k, Bint[s]) for k, s in zip(names, sizes)), dt)
    sibs, keysof = {"x": x}, {"x": list(names)}
    for lab, how, arg in desc["siblings"]:
        if how == "rename":
            sibs[lab] = x(**arg)
            keysof[lab] = [arg.get(k, k) for k in names]
        else:
            sibs[lab] = Tensor(data, OrderedDict((k, Bint[s]) for k, s in zip(arg, sizes)), dt)
            keysof[lab] = list(arg)
    fails, keep, info = [], [], {"shared": 0, "skipped": 0}
    for lab, t in sibs.items():
        if not isinstance(t, Tensor) or list(t.inputs) != keysof[lab]:
            info["skipped"] += 1
            return fails, info
        info["shared"] += int(t.data is data)

    def value(keys, env, ev=()):
        return data0[tuple(env[k] for k in keys) + tuple(ev)]

    def check_tensor(step, g, keys, exp_keys):
        # g must denote the same function as (data0, keys), with inputs in the order exp_keys
        size = dict(zip(keys, sizes))
        if not isinstance(g, Tensor):
            fails.append(f"step {step}: result is {type(g).__name__}")
            return False
        if [(k, d.size) for k, d in g.inputs.items()] != [(k, size[k]) for k in exp_keys]:
            fails.append(f"step {step}: inputs {[(k, d.size) for k, d in g.inputs.items()]} != "
                         f"{[(k, size[k]) for k in exp_keys]}")
            return False
        gk = list(g.inputs)
        for pt in itertools.product(*[range(s) for s in sizes]):
            env = dict(zip(keys, pt))
            if not np.array_equal(np.asarray(g.data)[tuple(env[k] for k in gk)], data0[pt]):
                fails.append(f"step {step}: value at {env} is {np.asarray(g.data)[tuple(env[k] for k in gk)].tolist()}"
                             f" expected {data0[pt].tolist()}")
                return False
        return True

    def check_array(step, y, keys, n2d):
        size = dict(zip(keys, sizes))
        D = -min(n2d[k] for k in keys)
        exp_shape = [1] * D
        for k in keys:
            exp_shape[D + n2d[k]] = size[k]
        if list(np.shape(y)) != exp_shape + es:
            fails.append(f"step {step}: to_data shape {list(np.shape(y))} != {exp_shape + es}")
            return False
        for pt in itertools.product(*[range(s) for s in sizes]):
            env = dict(zip(keys, pt))
            idx = [0] * D
            for k in keys:
                idx[D + n2d[k]] = env[k]
            if not np.array_equal(np.asarray(y)[tuple(idx)], data0[pt]):
                fails.append(f"step {step}: to_data entry for {env} is {np.asarray(y)[tuple(idx)].tolist()}"
                             f" expected {data0[pt].tolist()}")
                return False
        return True

    for i, st in enumerate(desc["steps"]):
        op, lab = st[0], st[1]
        t, keys = sibs[lab], keysof[lab]
        try:
            if op in ("align", "align_todata", "roundtrip"):
                tgt = list(st[2])
                g = t.align(tuple(tgt))
                keep.append(g)
                exp = tgt + [k for k in keys if k not in tgt] if tgt else keys
                if not check_tensor(i, g, keys, exp):
                    break
                if op == "align_todata" and keys:
                    y = to_data(g, OrderedDict(st[3]))
                    keep.append(y)
                    if not check_array(i, y, keys, dict(st[3])):
                        break
                if op == "roundtrip" and keys:
                    gk = list(g.inputs)
                    n2d = OrderedDict((k, j - len(gk)) for j, k in enumerate(gk))
                    y = to_data(g, n2d)
                    out = Reals[tuple(es)] if dt == "real" else Array[dt, tuple(es)]
                    f2 = to_funsor(y, out, OrderedDict((d, k) for k, d in n2d.items()))
                    keep.append(f2)
                    size = dict(zip(keys, sizes))
                    fk = list(f2.inputs)
                    if fk != [k for k in gk if size[k] != 1]:
                        fails.append(f"step {i}: round-trip inputs {fk}")
                        break
                    bad = False
                    for pt in itertools.product(*[range(s) for s in sizes]):
                        env = dict(zip(keys, pt))
                        if not np.array_equal(np.asarray(f2.data)[tuple(env[k] for k in fk)], data0[pt]):
                            fails.append(f"step {i}: round-trip value at {env}")
                            bad = True
                            break
                    if bad:
                        break
            elif op == "todata":
                if keys:
                    y = to_data(t, OrderedDict(st[2]))
                    keep.append(y)
                    if not check_array(i, y, keys, dict(st[2])):
                        break
            elif op == "binary":
                u, ukeys = sibs[st[2]], keysof[st[2]]
                r = t + u
                keep.append(r)
                joint = list(keys) + [k for k in ukeys if k not in keys]
                sz = dict(zip(keys, sizes))
                sz.update(zip(ukeys, sizes))
                if not isinstance(r, Tensor) or list(r.inputs) != joint:
                    fails.append(f"step {i}: binary inputs {list(getattr(r, 'inputs', []))} != {joint}")
                    break
                bad = False
                for pt in itertools.product(*[range(sz[k]) for k in joint]):
                    env = dict(zip(joint, pt))
                    e = value(keys, env) + value(ukeys, env)
                    if not np.array_equal(np.asarray(r.data)[pt], e):
                        fails.append(f"step {i}: binary value at {env}")
                        bad = True
                        break
                if bad:
                    break
        except (AssertionError, ValueError, KeyError, IndexError, TypeError) as ex:
            fails.append(f"step {i}: {op} on {lab} raised {type(ex).__name__}: {str(ex)[:120]}")
            break
    return fails, info
"""

_HIST_NS = {}


def run_history(desc):
    if "run_history" not in _HIST_NS:
        exec(HISTORY_SRC, _HIST_NS)
    return _HIST_NS["run_history"](desc)


def gen_history(rng):
    n = rng.choice([1, 2, 3, 3, 3, 4])
    names = rng.sample(NAMES, n)
    if rng.random() < 0.5:
        sizes = [rng.choice([2, 2, 3])] * n
    else:
        sizes = [rng.choice([1, 2, 3, 4]) for _ in range(n)]
    es = rng.choice([[], [], [2]])
    size_total = int(np.prod(sizes + es)) if sizes + es else 1
    dtype = "real" if rng.random() < 0.7 else max(size_total, 1)
    own = rng.random() < 0.85
    fresh = [k for k in NAMES + ["p", "q"] if k not in names]
    sibs = []
    for lab in ["y", "z", "w"][:rng.choice([1, 2, 2, 3])]:
        kind = rng.choice(["cyclic", "perm", "partial", "direct"])
        if kind == "cyclic" and n >= 2:
            sibs.append((lab, "rename", {a: b for a, b in zip(names, names[1:] + names[:1])}))
        elif kind == "perm" and n >= 2:
            p = names[:]
            while p == names:
                rng.shuffle(p)
            sibs.append((lab, "rename", {a: b for a, b in zip(names, p) if a != b}))
        elif kind == "direct" and n >= 2:
            p = names[:]
            rng.shuffle(p)
            if rng.random() < 0.4:
                p[rng.randrange(n)] = fresh[0]
            sibs.append((lab, "direct", p))
        else:
            m = rng.randint(1, min(2, n))
            olds = rng.sample(names, m)
            sibs.append((lab, "rename", dict(zip(olds, fresh[:m]))))
    keysof = {"x": list(names)}
    for lab, how, arg in sibs:
        keysof[lab] = [arg.get(k, k) for k in names] if how == "rename" else list(arg)
    labs = list(keysof)
    # a few shared targets, re-used across siblings so that identical `names` tuples recur
    targets = []
    for _ in range(3):
        src = keysof[rng.choice(labs)]
        k = rng.randint(1, len(src))
        targets.append(rng.sample(src, k))
    targets.append(list(names))

    def n2d_for(keys):
        dims = rng.sample(range(-len(keys) - 2, 0), len(keys))
        return [[k, d] for k, d in zip(keys, dims)]
    steps = []
    while len(steps) < rng.randint(8, 16):
        tgt = rng.choice(targets)
        valid = [l for l in labs if all(k in keysof[l] for k in tgt)]
        if not valid:
            continue
        r = rng.random()
        if r < 0.45 and len(valid) >= 2:
            a, b = rng.sample(valid, 2)
            seq = rng.choice([[a, b], [a, b, a], [a, b, a, b]])         # A,B,A repetition
            for l in seq:
                op = rng.choice(["align", "align", "align_todata", "roundtrip"])
                steps.append([op, l, tgt] + ([n2d_for(keysof[l])] if op == "align_todata" else []))
        elif r < 0.7:
            l = rng.choice(valid)
            op = rng.choice(["align", "align_todata", "roundtrip"])
            steps.append([op, l, tgt] + ([n2d_for(keysof[l])] if op == "align_todata" else []))
        elif r < 0.85:
            l = rng.choice(labs)
            steps.append(["todata", l, n2d_for(keysof[l])])
        else:
            a, b = rng.choice(labs), rng.choice(labs)
            sz = {}
            ok = not es and dtype == "real"
            for l in (a, b):
                for k, s_ in zip(keysof[l], sizes):
                    ok = ok and sz.setdefault(k, s_) == s_
            if ok and int(np.prod(list(sz.values()) or [1])) <= 256:
                steps.append(["binary", a, b])
    return {"stream": "history", "names": names, "sizes": sizes, "es": es, "dtype": dtype, "own": own,
            "siblings": [list(x) for x in sibs], "steps": steps}


def history_stream(ctx, n):
    for _ in range(n):
        desc = gen_history(ctx.rng)
        fails, info = run_history(desc)
        ctx.count(f"history:n_inputs={len(desc['names'])}")
        ctx.count("history:sizes=" + ("all-equal" if len(set(desc["sizes"])) <= 1 else "mixed"))
        ctx.count("history:own-data" if desc["own"] else "history:view-data")
        ctx.count(f"history:siblings-sharing-array={info['shared']}")
        for st in desc["steps"]:
            ctx.count(f"history:op={st[0]}")
        for _, how, arg in desc["siblings"]:
            ctx.count(f"history:sibling={how}")
        if info["skipped"]:
            ctx.count("history:skipped-unexpected-sibling")
            ctx.case()
            continue
        if fails:
            ctx.fail("input", "C19.history-dependent-result", witness=desc, got=fails[0],
                     expected="every result is the pure function of (data, inputs, names) given by the raw array",
                     python=HISTORY_SRC + f"\nfails, info = run_history({desc!r})\nprint(fails)\nFAILS = bool(fails)\n")
            continue
        ctx.case(sample=None, nontrivial_key=("hist", str(desc)) if len(desc["names"]) >= 2 else None)


# ------------------------------------------------------------------------------------------
# translator: which classes define `align` (or an eager Align rule) in the source
# ------------------------------------------------------------------------------------------

def scan_align_classes():
    """AST scan of funsor/*.py (numpy backend files): every class with a method `align`, and every
    function registered for the `Align` term.  Cross-checked against the live classes."""
    import ast
    from ..common import REPO
    classes, rules = [], []
    for f in sorted((REPO / "funsor").glob("*.py")):
        tree = ast.parse(f.read_text())
        for node in ast.walk(tree):
            if isinstance(node, ast.ClassDef):
                if any(isinstance(b, ast.FunctionDef) and b.name == "align" for b in node.body):
                    classes.append((f.stem, node.name))
            if isinstance(node, ast.FunctionDef):
                for dec in node.decorator_list:
                    src = ast.unparse(dec)
                    if ".register(Align" in src or ".register(Binary, Op, Align" in src \
                            or ", Align)" in src and ".register(" in src:
                        rules.append((f.stem, node.name, src))
    return sorted(set(classes)), sorted(set(rules))


def scan_realign_callers():
    """AST scan of funsor/*.py except tensor.py: (module, enclosing function, callee) for every call of
    to_data(..., name_to_dim) / to_funsor(..., dim_to_name) / align_tensor(s) — the places that re-align
    operands by name on top of the conversions modelled here."""
    import ast
    from ..common import REPO
    out = set()
    for f in sorted((REPO / "funsor").glob("*.py")):
        if f.stem == "tensor":
            continue
        tree = ast.parse(f.read_text())

        def visit(node, fn):
            for ch in ast.iter_child_nodes(node):
                nfn = ch.name if isinstance(ch, (ast.FunctionDef, ast.ClassDef)) else None
                cur = (fn + "." + nfn) if (fn and nfn) else (nfn or fn)
                if isinstance(ch, ast.Call):
                    name = ch.func.id if isinstance(ch.func, ast.Name) else (
                        ch.func.attr if isinstance(ch.func, ast.Attribute) else None)
                    kws = {k.arg for k in ch.keywords}
                    if name == "to_data" and ("name_to_dim" in kws or len(ch.args) >= 2):
                        out.add((f.stem, fn or "<module>", "to_data"))
                    if name == "to_funsor" and ("dim_to_name" in kws or len(ch.args) >= 3):
                        out.add((f.stem, fn or "<module>", "to_funsor"))
                    if name in ("align_tensors", "align_tensor"):
                        out.add((f.stem, fn or "<module>", name))
                visit(ch, cur)
        visit(tree, None)
    return sorted(out)


def scan_tensor_callers():
    """Inside tensor.py: the functions that call align_tensor / align_tensors, and the source form of
    align_tensor's guards (its assertions and its early-return comparison)."""
    import ast
    from ..common import REPO
    tree = ast.parse((REPO / "funsor" / "tensor.py").read_text())
    callers, guards = set(), []

    def visit(node, fn):
        for ch in ast.iter_child_nodes(node):
            nfn = ch.name if isinstance(ch, (ast.FunctionDef, ast.ClassDef)) else None
            cur = (fn + "." + nfn) if (fn and nfn) else (nfn or fn)
            if isinstance(ch, ast.Call):
                name = ch.func.id if isinstance(ch.func, ast.Name) else (
                    ch.func.attr if isinstance(ch.func, ast.Attribute) else None)
                if name in ("align_tensors", "align_tensor"):
                    callers.add(fn or "<module>")
            visit(ch, cur)
    visit(tree, None)
    for node in ast.walk(tree):
        if isinstance(node, ast.FunctionDef) and node.name == "align_tensor":
            for st in node.body:
                if isinstance(st, (ast.Assert, ast.If)):
                    guards.append(ast.unparse(st).split("\n")[0].replace('"', "'"))
    return sorted(callers), guards


# callers with a stream in this harness
COVERED_CALLERS = {"op_factory.eager_tensor_made_op": "makeop", "gaussian.align_gaussian": "classes (Gaussian)"}


def extract(ctx):
    from ..common import LEAN
    callers = scan_realign_callers()
    fns = sorted({f"{m}.{fn}" for m, fn, _ in callers})
    ctx.extra["realign_callers"] = fns
    body2 = ("/- GENERATED by fv/harness/c19.py extract() from /repo/funsor/*.py (tensor.py excluded) on every run:\n"
             "   the functions that call to_data(…, name_to_dim) / to_funsor(…, dim_to_name) / align_tensor(s). -/\n"
             "namespace FV.Gen.C19Callers\n\n"
             "def realignCallers : List String :=\n  [" + ",\n   ".join(f'"{c}"' for c in fns) + "]\n\n"
             "end FV.Gen.C19Callers\n")
    tcallers, guards = scan_tensor_callers()
    ctx.extra["tensor_callers"] = tcallers
    body2 = body2.replace("end FV.Gen.C19Callers\n",
                          "/-- inside tensor.py: functions calling align_tensor / align_tensors -/\n"
                          "def tensorCallers : List String :=\n  [" + ", ".join(f'"{c}"' for c in tcallers) + "]\n\n"
                          "/-- source form of align_tensor's guards: assertions and `if` heads, in order -/\n"
                          "def alignTensorGuards : List String :=\n  [" + ",\n   ".join(f'"{g}"' for g in guards) + "]\n\n"
                          "end FV.Gen.C19Callers\n")
    out2 = LEAN / "FunsorVerif" / "Gen" / "C19Callers.lean"
    if not out2.exists() or out2.read_text() != body2:
        out2.write_text(body2)
    classes, rules = scan_align_classes()
    import importlib
    for mod, cls in classes:
        m = importlib.import_module(f"funsor.{mod}")
        if "align" not in vars(getattr(m, cls)):
            ctx.infra_errors.append(f"extract: {mod}.{cls} has no own align at run time")
    ctx.extra["align_classes"] = [f"{m}.{c}" for m, c in classes]
    ctx.extra["align_rules"] = [f"{m}.{n}" for m, n, _ in rules]
    body = ("/- GENERATED by fv/harness/c19.py extract() from /repo/funsor/*.py on every run: the classes that\n"
            "   define their own `align` method, and the functions registered for the `Align` term. -/\n"
            "namespace FV.Gen.C19Align\n\n"
            "def alignClasses : List String :=\n  [" + ", ".join(f'"{c}"' for _, c in classes) + "]\n\n"
            "def alignRules : List String :=\n  [" + ", ".join(f'"{n}"' for _, n, _ in rules) + "]\n\n"
            "end FV.Gen.C19Align\n")
    out = LEAN / "FunsorVerif" / "Gen" / "C19Align.lean"
    if not out.exists() or out.read_text() != body:
        out.write_text(body)


# ------------------------------------------------------------------------------------------
# stream: every class with its own `align`, inputs with pairwise DIFFERENT domains
# ------------------------------------------------------------------------------------------
# Gate: (i) the full inputs OrderedDict, name -> domain, exact; (ii) the value at every point;
# (iii) a domain-sensitive follow-up: the sum over each bounded-integer input equals the brute-force
# sum over that input's DECLARED domain of the original term.

CLASS_STREAMS = {"Funsor": "default", "Align": "align-of-align", "Tensor": "tensor", "Contraction": "contraction",
                 "Delta": "delta", "Constant": "constant", "Gaussian": "gaussian"}


def py_constant_snippet(wit):
    return f"""
# C19 replay: Constant.align must keep each name's domain, the value at every point, and sums over inputs
import itertools, numpy as np, funsor, funsor.ops as ops
from collections import OrderedDict
from funsor.constant import Constant
from funsor.domains import Bint, Real
from funsor.tensor import Tensor
funsor.set_backend("numpy")
const = {wit.get('const_inputs')!r}; arg = {wit.get('arg_inputs')!r}; names = tuple({wit.get('names')!r})
dom = lambda s: Real if s == "Real" else Bint[int(s[5:-1])]
shape = [n for _, n in arg]
x = Constant(OrderedDict((k, dom(d)) for k, d in const),
             Tensor(np.arange(float(np.prod(shape))).reshape(shape) + 1.0, OrderedDict((k, Bint[n]) for k, n in arg)))
y = x.align(names)
rest = [k for k in x.inputs if k not in names]
exp = [(k, x.inputs[k]) for k in list(names) + rest]
FAILS = list(y.inputs.items()) != exp
for k, d in const:
    if d != "Real" and not FAILS:
        r = y.reduce(ops.add, k)
        env = {{j: 0 for j, dd in const if j != k and dd != "Real"}}
        env.update({{j: funsor.Number(0.25) for j, dd in const if dd == "Real"}})
        env.update({{j: 0 for j, _ in arg}})
        want = dom(d).size * float(x.arg.data.ravel()[0])
        FAILS = FAILS or abs(float(np.asarray(r(**env).data)) - want) > 1e-9
print("inputs", list(y.inputs.items()), "expected", exp, "FAILS", FAILS)
"""


def _val(f, env):
    g = f(**env) if env else f
    g = reinterpret(g)
    if not isinstance(g, (Tensor, Number)):
        g = reinterpret(f)
        g = reinterpret(g(**env) if env else g)
    if not isinstance(g, (Tensor, Number)):
        raise ValueError(f"not ground: {type(g).__name__}")
    return np.asarray(g.data, dtype=np.float64)


def check_aligned(ctx, cls, x, y, names, int_sizes, real_pts, wit, sum_op=None, tol=0.0, max_points=24):
    """x: original, y: x.align(names).  int_sizes: {name: size} of the bounded-int inputs;
    real_pts: {name: value funsor} for real inputs.  Returns True when everything is right."""
    sum_op = sum_op or ops.add
    keys = list(x.inputs)
    rest = [k for k in keys if k not in names]
    full = set(names) == set(keys) or not names
    exp = OrderedDict((k, x.inputs[k]) for k in (list(names) + rest if names else keys))
    got = OrderedDict(y.inputs)
    if dict(got) != dict(exp) or (full and list(got.items()) != list(exp.items())):
        ctx.fail("input", f"C19.align-{cls}-inputs", witness=wit,
                 python=py_constant_snippet(wit) if cls == "Constant" else None,
                 expected=str([(k, str(d)) for k, d in exp.items()]), got=str([(k, str(d)) for k, d in got.items()]))
        return False
    if not full:
        ctx.count(f"classes:{cls}:partial-order-" + ("names-first" if list(got) == list(exp) else "kept"))
    ikeys = [k for k in keys if k in int_sizes]

    def close(a, b):
        return np.array_equal(a, b) if tol == 0 else np.allclose(a, b, rtol=tol, atol=tol)
    allpts = list(itertools.product(*[range(int_sizes[k]) for k in ikeys]))
    if len(allpts) > max_points:          # corners + a seeded sample (lazy terms evaluate slowly)
        corners = [tuple(0 for _ in ikeys), tuple(int_sizes[k] - 1 for k in ikeys)]
        allpts = corners + ctx.rng.sample(allpts, max_points - 2)
    for pt in allpts:
        env = dict(zip(ikeys, pt))
        env.update(real_pts)
        if not close(_val(y, env), _val(x, env)):
            ctx.fail("input", f"C19.align-{cls}-value", witness=dict(wit, point=str(pt)),
                     expected=str(_val(x, env).tolist()), got=str(_val(y, env).tolist()))
            return False
    # domain-sensitive follow-up
    for k in ikeys:
        try:
            r = y.reduce(sum_op, k)
        except EXC as e:
            ctx.count(f"classes:{cls}:reduce-declined")
            continue
        others = [j for j in ikeys if j != k]
        opts = list(itertools.product(*[range(int_sizes[j]) for j in others]))
        if len(opts) > max(2, max_points // 6):
            opts = [tuple(int_sizes[j] - 1 for j in others)] + ctx.rng.sample(opts, max(1, max_points // 6 - 1))
        for pt in opts:
            env = dict(zip(others, pt))
            env.update(real_pts)
            try:
                gotv = _val(r, env)
            except (ValueError,) + EXC:
                ctx.count(f"classes:{cls}:reduce-not-ground")
                break
            vals = [_val(x, dict(env, **{k: v})) for v in range(int_sizes[k])]
            want = np.sum(vals, axis=0) if sum_op is ops.add else np.logaddexp.reduce(vals, axis=0)
            if not np.allclose(gotv, want, rtol=1e-9, atol=1e-9):
                ctx.fail("input", f"C19.align-{cls}-domain-followup", witness=dict(wit, reduced=k, point=str(pt)),
                         expected=f"sum over {k} in Bint[{int_sizes[k]}] = {np.asarray(want).tolist()}",
                         got=str(np.asarray(gotv).tolist()))
                return False
    return True


def classes_stream(ctx, n_rounds):
    from funsor.constant import Constant
    from funsor.gaussian import Gaussian
    rng = ctx.rng
    listed = ctx.extra.get("align_classes")
    if listed is None:
        classes, _ = scan_align_classes()
        listed = [f"{m}.{c}" for m, c in classes]
    for full_name in listed:
        cls = full_name.split(".")[-1]
        if cls not in CLASS_STREAMS:
            ctx.fail("correspondence", "C19.align-class-without-stream", witness={"class": full_name},
                     expected="a stream in CLASS_STREAMS", got="none")
    for rnd in range(n_rounds):
        pool = rng.sample(NAMES, 5)
        # two regimes: pairwise DIFFERENT sizes expose domain mix-ups; ALL-EQUAL sizes expose data
        # mix-ups that different sizes would turn into shape errors (declines)
        regime = "different" if rnd % 2 == 0 else "equal"
        if regime == "different":
            szs = rng.sample([2, 3, 4, 5], 4) + [rng.choice([1, 2])]
        else:
            szs = [rng.choice([2, 3])] * 5
        size = dict(zip(pool, szs))
        ctx.count(f"classes:regime={regime}")

        def tens(keys, off=0.0, dtype="real"):
            shape = tuple(size[k] for k in keys)
            nel = int(np.prod(shape)) if shape else 1
            if dtype == "real":
                return Tensor(np.arange(float(nel)).reshape(shape) + off, OrderedDict((k, Bint[size[k]]) for k in keys))
            return Tensor(np.arange(nel).reshape(shape), OrderedDict((k, Bint[size[k]]) for k in keys), nel)

        def names_for(keys, k_full=3, k_part=3):
            # any permutation test needs a NON-INVOLUTIVE permutation: with >= 3 keys both rotations
            # (the n-cycles) are always included; with exactly 3 keys all 6 permutations are
            perms = list(itertools.permutations(keys))
            if len(keys) == 3:
                out = [tuple(p) for p in perms]
            else:
                out = [tuple(p) for p in rng.sample(perms, min(k_full, len(perms)))]
                if len(keys) >= 3:
                    out += [tuple(keys[1:] + keys[:1]), tuple(keys[-1:] + keys[:-1])]
            for _ in range(k_part):
                m = rng.randint(0, max(0, len(keys) - 1))
                out.append(tuple(rng.sample(keys, m)))
            return out
        # ---- Tensor ------------------------------------------------------------------------
        keys = rng.sample(pool[:4], 3)
        x = tens(keys, dtype=rng.choice(["real", "int"]))
        for names in names_for(keys):
            y = run(lambda: x.align(names))
            wit = {"stream": "classes", "class": "Tensor", "inputs": [(k, size[k]) for k in keys], "names": list(names)}
            if y[0] == "raise":
                ctx.fail("correspondence", "C19.align-Tensor-declines", witness=wit, got=y[1], expected="a tensor")
                continue
            if check_aligned(ctx, "Tensor", x, y[1], names, {k: size[k] for k in keys}, {}, wit):
                n2d = OrderedDict((k, -(i + 1)) for i, k in enumerate(sorted(keys)))
                d = np.shape(to_data(y[1], n2d))
                if list(d) != [size[k] for k in reversed(sorted(keys))]:
                    ctx.fail("input", "C19.align-Tensor-to_data-shape", witness=wit, got=str(d),
                             expected=str([size[k] for k in reversed(sorted(keys))]))
                    continue
                ctx.case(nontrivial_key=("cls", "Tensor", tuple(keys), tuple(size[k] for k in keys), names))
            ctx.count("classes:Tensor")
        # ---- default Funsor.align (lazy Binary incl. a Variable and a Real input), Align.align ----
        k1, k2 = rng.sample(pool[:4], 2), rng.sample(pool[:4], 2)
        vname = pool[4]
        with reflect:
            xb = Binary(ops.add, Binary(ops.add, tens(k1, 1.0), tens(k2, 7.0)), Variable(vname, Bint[size[vname]]))
            xr = Binary(ops.add, tens(k1, 1.0), Variable("rr", Real))
        for x, real_pts in ((xb, {}), (xr, {"rr": Number(0.5)})):
            keys = list(x.inputs)
            isz = {k: size[k] for k in keys if k != "rr"}
            for names in names_for(keys, 2, 2):
                wit = {"stream": "classes", "class": "Funsor(default)", "inputs": [(k, str(d)) for k, d in x.inputs.items()],
                       "names": list(names)}
                y = run(lambda: x.align(names))
                if y[0] == "raise":
                    ctx.count("classes:Funsor:declined")
                    continue
                if check_aligned(ctx, "Funsor", x, y[1], names, isz, real_pts, wit):
                    ctx.case(nontrivial_key=("cls", "Funsor", str(wit)))
                ctx.count("classes:Funsor")
                if isinstance(y[1], Align):
                    names2 = tuple(rng.sample(keys, len(keys)))
                    z = run(lambda: y[1].align(names2))
                    wit2 = dict(wit, **{"class": "Align", "names2": list(names2)})
                    if z[0] == "value" and check_aligned(ctx, "Align", x, z[1], names2, isz, real_pts, wit2):
                        ctx.case(nontrivial_key=("cls", "Align", str(wit2)))
                    ctx.count("classes:Align")
        # ---- Contraction -------------------------------------------------------------------
        with reflect:
            rv = rng.choice(k1)
            xc = Contraction(ops.add, ops.mul, frozenset({Variable(rv, Bint[size[rv]])}), (tens(k1, 1.0), tens(k2 + [rv] if rv not in k2 else k2, 2.0)))
        keys = list(xc.inputs)
        for names in names_for(keys, 2, 1):
            wit = {"stream": "classes", "class": "Contraction", "inputs": [(k, size[k]) for k in keys], "names": list(names)}
            y = run(lambda: xc.align(names))
            if y[0] == "raise":
                ctx.count("classes:Contraction:declined")
                continue
            if check_aligned(ctx, "Contraction", xc, y[1], names, {k: size[k] for k in keys}, {}, wit):
                ctx.case(nontrivial_key=("cls", "Contraction", str(wit)))
            ctx.count("classes:Contraction")
        # ---- Constant: const inputs of pairwise different domains (incl. a Real one) ------------
        ckeys = rng.sample(pool[:4], rng.choice([2, 3]))
        akeys = [k for k in pool[:4] if k not in ckeys] + [pool[4]]
        const = OrderedDict((k, Bint[size[k]]) for k in ckeys)
        with_real = rng.random() < 0.4
        if with_real:
            const["rr"] = Real
        xk = Constant(const, tens(akeys, 1.0))
        allc = list(const)
        cperms = [list(p) for p in itertools.permutations(allc)]
        if len(cperms) > 8:
            cperms = rng.sample(cperms, 6) + [allc[1:] + allc[:1], allc[-1:] + allc[:-1]]
        for cperm in cperms:
            names = tuple(cperm) + tuple(rng.sample(akeys, rng.randint(0, len(akeys))))
            wit = {"stream": "classes", "class": "Constant", "const_inputs": [(k, str(d)) for k, d in const.items()],
                   "arg_inputs": [(k, size[k]) for k in akeys], "names": list(names)}
            y = run(lambda: xk.align(names))
            if y[0] == "raise":
                ctx.fail("correspondence", "C19.align-Constant-declines", witness=wit, got=y[1], expected="a Constant")
                continue
            isz = {k: size[k] for k in ckeys + akeys}
            if check_aligned(ctx, "Constant", xk, y[1], names, isz, {"rr": Number(0.25)} if with_real else {}, wit):
                ctx.case(nontrivial_key=("cls", "Constant", str(wit)))
            ctx.count("classes:Constant")
        # ---- Delta: points of different output domains --------------------------------------
        dn = rng.sample(pool, 3)
        pts = [Number(1.5), Tensor(np.array([0.5, 1.5])), Tensor(np.array([1.0, 2.0, 3.0]))]
        rng.shuffle(pts)
        xd = Delta(tuple((k, (p, Number(0.0))) for k, p in zip(dn, pts)))
        for names in [tuple(p) for p in itertools.permutations(dn)]:
            wit = {"stream": "classes", "class": "Delta", "terms": [(k, str(p.output)) for k, p in zip(dn, pts)],
                   "names": list(names)}
            y = run(lambda: xd.align(names))
            if y[0] == "raise":
                ctx.fail("correspondence", "C19.align-Delta-declines", witness=wit, got=y[1], expected="a Delta")
                continue
            g = y[1]
            if [k for k, _ in g.terms] != list(names) or dict(g.terms) != dict(xd.terms) \
                    or dict(g.inputs) != dict(xd.inputs):
                ctx.fail("input", "C19.align-Delta-inputs", witness=wit, expected=str(dict(xd.inputs)), got=str(dict(g.inputs)))
                continue
            ctx.count("classes:Delta")
            ctx.case(nontrivial_key=("cls", "Delta", str(wit)))
        # ---- Gaussian (also C12's): int inputs of different sizes, real inputs of different shapes ---
        gi = rng.sample(pool[:4], 3 if regime == "equal" or rng.random() < 0.5 else 2)
        if regime == "different":
            gsz = dict(zip(gi, rng.sample([2, 3, 4], len(gi))))
        else:
            gsz = {k: size[k] for k in gi}
        ginputs = [(k, Bint[gsz[k]]) for k in gi] + [("x", Real), ("y", Reals[2])]
        rng.shuffle(ginputs)
        bshape = tuple(d.size for _, d in ginputs if d.dtype != "real")
        nb_ = int(np.prod(bshape))
        # distinct entries at every batch index, so a mis-permuted batch dim is visible
        wv = np.arange(nb_ * 3.0).reshape(bshape + (3,)) / (nb_ * 3.0)
        ps = np.broadcast_to(np.eye(3), bshape + (3, 3)).copy() + np.arange(nb_ * 9.0).reshape(bshape + (3, 3)) / (nb_ * 36.0)
        xg = Gaussian(wv, ps, OrderedDict(ginputs))
        keys = [k for k, _ in ginputs]
        rp = {"x": Tensor(np.array(rng.choice([0.5, -0.25, 1.0]))),
              "y": Tensor(np.array([rng.choice([0.1, 0.4]), rng.choice([-0.2, 0.3])]))}
        gnames = [tuple(p) for p in itertools.permutations(gi)]          # every batch permutation (partial names)
        for p in rng.sample(gnames, min(3, len(gnames))):               # and full ones with the reals interleaved
            full = list(p)
            for rk in ("x", "y"):
                full.insert(rng.randint(0, len(full)), rk)
            gnames.append(tuple(full))
        for names in gnames:
            wit = {"stream": "classes", "class": "Gaussian", "inputs": [(k, str(d)) for k, d in ginputs], "names": list(names)}
            y = run(lambda: xg.align(names))
            if y[0] == "raise":
                ctx.count("classes:Gaussian:declined")
                continue
            if check_aligned(ctx, "Gaussian", xg, y[1], names, gsz, rp, wit,
                             sum_op=ops.logaddexp, tol=1e-9, max_points=64):
                ctx.case(nontrivial_key=("cls", "Gaussian", str(wit)))
            ctx.count("classes:Gaussian")
            ctx.count(f"classes:Gaussian:batch-inputs={len(gi)}")


# ------------------------------------------------------------------------------------------
# stream: lazy Contractions whose terms' inputs INTERLEAVE; order gated exactly, positional calls
# ------------------------------------------------------------------------------------------

def py_interleave_snippet(c):
    return f"""
# C19 replay: (t1 * t2 [* t3]).align(names) on a lazy Contraction must have .inputs == names and the
# same value by name and by POSITION
import itertools, numpy as np, funsor
from collections import OrderedDict
from funsor import Bint, Tensor
funsor.set_backend("numpy")
sizes = {c['sizes']!r}; terms = {c['terms']!r}; names = tuple({c['names']!r}); op = {c['op']!r}
ts = []
for n, keys in enumerate(terms):
    shape = [sizes[k] for k in keys]
    ts.append(Tensor(np.arange(float(np.prod(shape))).reshape(shape) + 1.0 + 10 * n, OrderedDict((k, Bint[sizes[k]]) for k in keys)))
with funsor.interpretations.normalize:
    x = ts[0]
    for t in ts[1:]:
        x = (x * t) if op == "mul" else (x + t)
g = x.align(names)
FAILS = tuple(g.inputs) != names
for pt in itertools.product(*[range(sizes[k]) for k in names]):
    env = dict(zip(names, pt))
    vals = [t.data[tuple(env[k] for k in keys)] for t, keys in zip(ts, terms)]
    e = float(np.prod(vals)) if op == "mul" else float(np.sum(vals))
    FAILS = FAILS or float(g(**env).data) != e or (tuple(g.inputs) == names and float(g(*pt).data) != e)
print("inputs", tuple(g.inputs), "FAILS", FAILS)
"""


def interleave_stream(ctx, n_rounds):
    from funsor.gaussian import Gaussian
    from funsor.interpretations import normalize
    rng = ctx.rng
    patterns = [[["i", "k"], ["j"]], [["i", "l"], ["j", "k"]], [["i", "l"], ["j"], ["k"]],
                [["i", "k"], ["j", "l"]], [["i"], ["j", "k"]], [["j"], ["i", "k"]]]
    for rnd in range(n_rounds):
        for pat in patterns:
            base = sorted({k for t in pat for k in t})
            ren = dict(zip(base, rng.sample(NAMES, len(base))))
            terms = [[ren[k] for k in t] for t in pat]
            names_all = [ren[k] for k in base]
            sizes = {k: (rng.choice([2, 3]) if rnd % 2 else 2) for k in names_all}
            ts = []
            for n_, keys in enumerate(terms):
                shape = [sizes[k] for k in keys]
                ts.append(Tensor(np.arange(float(np.prod(shape))).reshape(shape) + 1.0 + 10 * n_,
                                 OrderedDict((k, Bint[sizes[k]]) for k in keys)))
            op = rng.choice(["mul", "add"])
            with normalize:
                x = ts[0]
                for t in ts[1:]:
                    x = (x * t) if op == "mul" else (x + t)
            ctx.count(f"interleave:lazy={type(x).__name__}")
            allpts = list(itertools.product(*[range(sizes[k]) for k in names_all]))
            for names in itertools.permutations(names_all):
                c = {"stream": "interleave", "terms": terms, "sizes": sizes, "names": list(names), "op": op}
                py = py_interleave_snippet(c)
                r = run(lambda: x.align(names))
                if r[0] == "raise":
                    ctx.count("interleave:declined")
                    continue
                g = r[1]
                if tuple(g.inputs) != tuple(names):
                    ctx.fail("input", "C19.interleave-inputs-order", witness=c, python=py,
                             expected=str(list(names)), got=str(list(g.inputs)))
                    break
                bad = None
                for pt0 in rng.sample(allpts, min(5, len(allpts))):
                    env0 = dict(zip(names_all, pt0))
                    vals = [float(t.data[tuple(env0[k] for k in keys)]) for t, keys in zip(ts, terms)]
                    e = float(np.prod(vals)) if op == "mul" else float(np.sum(vals))
                    by_name = float(_val(g, env0))
                    by_pos = float(np.asarray(reinterpret(g(*[env0[k] for k in names])).data))
                    if by_name != e or by_pos != e:
                        bad = (env0, e, by_name, by_pos)
                        break
                if bad:
                    ctx.fail("input", "C19.interleave-value", witness=dict(c, point=bad[0]), python=py,
                             expected=str(bad[1]), got=f"by name {bad[2]}, by position {bad[3]}")
                    break
                ctx.case(nontrivial_key=("interleave", str(terms), str(sizes), names, op))
        # ---- Tensor[i,k] + Gaussian[j,x], every permutation of (i, j, k, x) ---------------------
        ni, nj, nk = rng.sample(NAMES, 3)
        si, sj, sk = (2, 2, 2) if rnd % 2 == 0 else rng.sample([2, 3, 2], 3)
        t = Tensor(np.arange(float(si * sk)).reshape(si, sk) / 7.0, OrderedDict([(ni, Bint[si]), (nk, Bint[sk])]))
        wv = np.arange(sj * 1.0).reshape(sj, 1) / 3.0
        ps = np.ones((sj, 1, 1)) + np.arange(sj * 1.0).reshape(sj, 1, 1) / 5.0
        gs = Gaussian(wv, ps, OrderedDict([(nj, Bint[sj]), ("x", Real)]))
        with normalize:
            xg = t + gs
        xv = Tensor(np.array(rng.choice([0.5, -0.25])))
        keys4 = [ni, nj, nk, "x"]
        for names in itertools.permutations(keys4):
            c = {"stream": "interleave", "kind": "Tensor+Gaussian", "tensor": [ni, nk], "gaussian": [nj, "x"],
                 "sizes": {ni: si, nj: sj, nk: sk}, "names": list(names)}
            r = run(lambda: xg.align(names))
            if r[0] == "raise":
                ctx.count("interleave:gaussian-declined")
                continue
            g = r[1]
            if tuple(g.inputs) != tuple(names):
                ctx.fail("input", "C19.interleave-inputs-order", witness=c, expected=str(list(names)), got=str(list(g.inputs)))
                break
            bad = None
            for _ in range(2):
                env0 = {ni: rng.randrange(si), nj: rng.randrange(sj), nk: rng.randrange(sk), "x": xv}
                e = float(t.data[env0[ni], env0[nk]]) + float(np.asarray(gs(**{nj: env0[nj], "x": xv}).data))
                by_name = float(_val(g, env0))
                by_pos = float(np.asarray(reinterpret(g(*[env0[k] for k in names])).data))
                if abs(by_name - e) > 1e-9 or abs(by_pos - e) > 1e-9:
                    bad = (str({k: (v if isinstance(v, int) else float(v.data)) for k, v in env0.items()}), e, by_name, by_pos)
                    break
            if bad:
                ctx.fail("input", "C19.interleave-value", witness=dict(c, point=bad[0]),
                         expected=str(bad[1]), got=f"by name {bad[2]}, by position {bad[3]}")
                break
            ctx.case(nontrivial_key=("interleave-g", ni, nj, nk, names, si, sj, sk))
    # ---- funsor.symbolic: arguments are positional ------------------------------------------------
    import funsor as _f
    if hasattr(_f, "symbolic"):
        @_f.symbolic
        def f1(x: Real, y: Real, z: Real):
            return x * z + y

        @_f.symbolic
        def f2(a: Real, b: Real, c: Real, d: Real):
            return a * d + b * c

        @_f.symbolic
        def f3(x: Real, y: Real, z: Real):
            return (x + z) * y
        for fn, ar, ref in ((f1, 3, lambda x, y, z: x * z + y), (f2, 4, lambda a, b, c, d: a * d + b * c),
                            (f3, 3, lambda x, y, z: (x + z) * y)):
            for _ in range(4):
                args = [rng.choice([2.0, 3.0, 5.0, -4.0, 0.5, 7.0]) for _ in range(ar)]
                got = run(lambda: float(np.asarray(fn(*args).data)))
                c = {"stream": "interleave", "kind": "symbolic", "inputs": list(fn.inputs), "args": args}
                if got[0] == "raise":
                    ctx.count("interleave:symbolic-declined")
                    continue
                if got[1] != ref(*args):
                    ctx.fail("input", "C19.symbolic-positional-call", witness=c, expected=str(ref(*args)), got=str(got[1]))
                    break
                ctx.case(nontrivial_key=("symbolic", fn.__name__ if hasattr(fn, "__name__") else ar, tuple(args)))
            ctx.count("interleave:symbolic")


# ------------------------------------------------------------------------------------------
# stream: Stack / Cat of Tensors (tensor.py eager_stack_homogeneous / eager_cat_homogeneous)
# ------------------------------------------------------------------------------------------

def py_stack_snippet(c):
    return f"""
# C19 replay: Stack / Cat of Tensors whose parts list the same inputs in different orders
import itertools, numpy as np, funsor
from collections import OrderedDict
from funsor import Bint, Tensor
from funsor.terms import Stack, Cat
funsor.set_backend("numpy")
c = {c!r}
sizes, es = c["sizes"], c["es"]
parts = []
for n, keys in enumerate(c["parts"]):
    shape = [sizes[k] if k != "t" else c["tsizes"][n] for k in keys] + es
    parts.append(Tensor(np.arange(float(np.prod(shape))).reshape(shape) + 1000 * n,
                        OrderedDict((k, Bint[sizes[k] if k != "t" else c["tsizes"][n]]) for k in keys)))
s = Stack("t", tuple(parts)) if c["kind"] == "stack" else Cat("t", tuple(parts))
names = sorted(sizes)
FAILS = not isinstance(s, Tensor)
off = 0
for n, (p, keys) in enumerate(zip(parts, c["parts"])):
    tn = 1 if c["kind"] == "stack" else c["tsizes"][n]
    for tv in range(tn):
        for pt in itertools.product(*[range(sizes[k]) for k in names]):
            env = dict(zip(names, pt))
            penv = dict(env, t=tv) if c["kind"] == "cat" else env
            e = p.data[tuple(penv[k] for k in keys)]
            senv = dict(env, t=(n if c["kind"] == "stack" else off + tv))
            g = s.data[tuple(senv[k] for k in s.inputs)]
            FAILS = FAILS or not np.array_equal(g, e)
    off += tn
print("inputs", list(getattr(s, "inputs", [])), "FAILS", FAILS)
"""


def stack_stream(ctx, n):
    from funsor.terms import Stack, Cat
    rng = ctx.rng
    for it in range(n):
        kind = "stack" if it % 2 == 0 else "cat"
        nk = rng.choice([2, 2, 3])
        names = rng.sample(NAMES, nk)
        eq = rng.random() < 0.7
        sizes = {k: (2 if eq else rng.choice([2, 3])) for k in names}
        es = rng.choice([[], [2], [2, 2]])
        nparts = rng.choice([2, 2, 3])
        part_keys, tsizes = [], []
        for _ in range(nparts):
            keys = rng.sample(names, nk if rng.random() < 0.8 else rng.randint(1, nk))
            if kind == "cat":
                keys.insert(rng.randint(0, len(keys)), "t")
            part_keys.append(keys)
            tsizes.append(rng.choice([1, 2, 3]) if kind == "cat" else 1)
        c = {"stream": "stack", "kind": kind, "sizes": sizes, "es": es, "parts": part_keys, "tsizes": tsizes}
        parts = []
        for i, keys in enumerate(part_keys):
            shape = [sizes[k] if k != "t" else tsizes[i] for k in keys] + es
            parts.append(Tensor(np.arange(float(np.prod(shape))).reshape(shape) + 1000 * i,
                                OrderedDict((k, Bint[sizes[k] if k != "t" else tsizes[i]]) for k in keys)))
        r = run(lambda: Stack("t", tuple(parts)) if kind == "stack" else Cat("t", tuple(parts)))
        ctx.count(f"stack:kind={kind}")
        ctx.count("stack:orders=" + ("differ" if len({tuple(k for k in ks if k != "t") for ks in part_keys}) > 1 else "same"))
        if r[0] == "raise" or not isinstance(r[1], Tensor):
            ctx.count("stack:declined-or-lazy")
            ctx.case()
            continue
        st = r[1]
        sk = list(st.inputs)
        bad = None
        off = 0
        for i, (p, keys) in enumerate(zip(parts, part_keys)):
            tn = 1 if kind == "stack" else tsizes[i]
            for tv in range(tn):
                for pt in itertools.product(*[range(sizes[k]) for k in names]):
                    env = dict(zip(names, pt))
                    penv = dict(env, t=tv)
                    e = np.asarray(p.data)[tuple(penv[k] for k in keys)]
                    senv = dict(env, t=(i if kind == "stack" else off + tv))
                    if any(k not in senv for k in sk):
                        bad = (f"inputs {sk}", None, None)
                        break
                    g = np.asarray(st.data)[tuple(senv[k] for k in sk)]
                    if not np.array_equal(g, e):
                        bad = (senv, e.tolist(), g.tolist())
                        break
                if bad:
                    break
            if bad:
                break
            off += tn
        if bad:
            ctx.fail("input", f"C19.{kind}-of-tensors-value", witness=dict(c, point=str(bad[0])), python=py_stack_snippet(c),
                     expected=str(bad[1]), got=str(bad[2]))
            continue
        ctx.case(nontrivial_key=("stack", str(c)))


# ------------------------------------------------------------------------------------------
# stream: funsor.make_op ops (op_factory.eager_tensor_made_op): to_data by name, raw fn, to_funsor
# ------------------------------------------------------------------------------------------

_MADE = {}


def made_ops():
    if _MADE:
        return _MADE
    from funsor import make_op

    @make_op
    def axpy(x: Real, y: Real) -> Real:
        return x + 100.0 * y

    @make_op
    def sub2(x: Real, y: Real) -> Real:
        return x - 2.0 * y

    @make_op
    def unary3(x: Real) -> Real:
        return 3.0 * x + 1.0

    @make_op
    def outer(x: Reals[2], y: Reals[3]) -> Reals[2, 3]:
        return x[..., :, None] + 100.0 * y[..., None, :]

    @make_op
    def iaxpy(x: Bint[1000], y: Bint[1000]) -> Bint[200000]:
        return x + 100 * y
    _MADE.update(axpy=(axpy, lambda a, b: a + 100.0 * b, (), (), "real"),
                 sub2=(sub2, lambda a, b: a - 2.0 * b, (), (), "real"),
                 outer=(outer, lambda a, b: a[:, None] + 100.0 * b[None, :], (2,), (3,), "real"),
                 iaxpy=(iaxpy, lambda a, b: a + 100 * b, (), (), 1000),
                 unary3=(unary3, lambda a: 3.0 * a + 1.0, (), None, "real"))
    return _MADE


def py_makeop_snippet(c):
    return f"""
# C19 replay: a funsor.make_op op must give fn(x(point), y(point)) at every named point
import itertools, numpy as np, funsor
from collections import OrderedDict
from funsor import Bint, Real, Tensor, make_op
funsor.set_backend("numpy")
@make_op
def axpy(x: Real, y: Real) -> Real:
    return x + 100.0 * y
sizes = {c['sizes']!r}; xk = {c['x']!r}; yk = {c['y']!r}
def mk(keys, off):
    shape = [sizes[k] for k in keys]
    return Tensor(np.arange(float(np.prod(shape))).reshape(shape) + off, OrderedDict((k, Bint[sizes[k]]) for k in keys))
x, y = mk(xk, 1.0), mk(yk, 0.25)
z = axpy(x, y)
names = list(dict.fromkeys(xk + yk))
FAILS = not isinstance(z, Tensor) or set(z.inputs) != {{k for k in names if sizes[k] != 1}}
for pt in ([] if FAILS else itertools.product(*[range(sizes[k]) for k in names])):
    env = dict(zip(names, pt))
    e = float(x.data[tuple(env[k] for k in xk)]) + 100.0 * float(y.data[tuple(env[k] for k in yk)])
    FAILS = FAILS or float(z.data[tuple(env[k] for k in z.inputs)]) != e
print("inputs", list(getattr(z, "inputs", [])), "FAILS", FAILS)
"""


def makeop_stream(ctx, n, use_driver=True):
    rng = ctx.rng
    made = made_ops()
    pool3 = ["a", "b", "c"]
    subsets = [list(p) for k in range(4) for p in itertools.permutations(pool3, k)]       # 16 ordered subsets
    pairs = [(x, y) for x in subsets for y in subsets]
    todo = []
    for i in range(n):
        if i < len(pairs) and (ctx.tier != "quick" or rng.random() < 0.6):
            xk, yk = pairs[i]                       # exhaustive over ordered-subset pairs (thorough: all)
        else:
            xk, yk = rng.choice(subsets), rng.choice(subsets)
        names = rng.sample(NAMES, 3)
        ren = dict(zip(pool3, names))
        xk, yk = [ren[k] for k in xk], [ren[k] for k in yk]
        mode = rng.choice(["equal", "equal", "mixed", "with-one"])
        if mode == "equal":
            sz = rng.choice([2, 3])
            sizes = {k: sz for k in names}
        elif mode == "mixed":
            sizes = dict(zip(names, rng.sample([2, 3, 4], 3)))
        else:
            sizes = dict(zip(names, rng.sample([1, 2, 2], 3)))
        opname = rng.choice(["axpy", "axpy", "sub2", "outer", "iaxpy", "unary3"])
        op, fn, xe, ye, dt = made[opname]

        def mk(keys, ev, off):
            shape = [sizes[k] for k in keys] + list(ev)
            nel = int(np.prod(shape)) if shape else 1
            if dt == "real":
                return Tensor(np.arange(float(nel)).reshape(shape) + off, OrderedDict((k, Bint[sizes[k]]) for k in keys))
            return Tensor(np.arange(nel).reshape(shape) + int(off), OrderedDict((k, Bint[sizes[k]]) for k in keys), dt)
        x = mk(xk, xe, 1.0)
        c = {"stream": "makeop", "op": opname, "sizes": sizes, "x": xk, "y": yk if ye is not None else None}
        if ye is None:
            r = run(lambda: op(x))
            y = None
        else:
            y = mk(yk, ye, 5.0 if dt != "real" else 0.25)
            r = run(lambda: op(x, y))
        todo.append((c, opname, x, y, r))
    reqs = []
    for c, opname, x, y, r in todo:
        if opname in ("axpy", "sub2", "iaxpy") and y is not None:
            enc = [enc_tensor({"inputs": [(k, int(d.size)) for k, d in t.inputs.items()],
                               "shape": [int(v) for v in t.data.shape], "dtype": "real",
                               "flat": [int(round(float(v) * 4)) for v in np.asarray(t.data, dtype=float).ravel()]})
                   for t in (x, y)]
            reqs.append(f"C19 madeop {opname} {sx(enc[0])} {sx(enc[1])}")
        else:
            reqs.append(None)
    live = [q for q in reqs if q is not None]
    answers = iter(ctx.driver.ask(live) if (use_driver and live) else [])
    for (c, opname, x, y, r), q in zip(todo, reqs):
        ans = next(answers) if (q is not None and use_driver) else None
        op, fn, xe, ye, dt = made[opname]
        ctx.count(f"makeop:op={opname}")
        xk = c["x"]
        yk = c["y"] or []
        sizes = c["sizes"]
        ctx.count("makeop:order=" + ("same-keys-other-order" if set(xk) == set(yk) and xk != yk and yk else
                                     "overlap" if set(xk) & set(yk) else "disjoint-or-unary"))
        py = py_makeop_snippet(c) if opname == "axpy" else None
        if r[0] == "raise" or not isinstance(r[1], (Tensor, Number)):
            ctx.count("makeop:declined")
            ctx.case()
            continue
        z = r[1]
        # the rule's order: dims assigned over reversed inputs, first operand first; result in dim order
        order = []
        for keys in (xk, yk):
            for k in reversed(keys):
                if k not in order:
                    order.append(k)
        exp_keys = [k for k in reversed(order) if sizes[k] != 1]
        names = list(dict.fromkeys(xk + yk))
        zk = list(z.inputs)
        if sorted(zk) != sorted(exp_keys) or any(z.inputs[k].size != sizes[k] for k in zk):
            ctx.fail("input", "C19.makeop-inputs", witness=c, python=py, expected=str(exp_keys), got=str(zk))
            continue
        bad = None
        for pt in itertools.product(*[range(sizes[k]) for k in names]):
            env = dict(zip(names, pt))
            xv = np.asarray(x.data)[tuple(env[k] for k in xk)]
            e = fn(xv) if y is None else fn(xv, np.asarray(y.data)[tuple(env[k] for k in yk)])
            g = np.asarray(z.data)[tuple(env[k] for k in zk)] if zk else np.asarray(z.data)
            if not np.array_equal(np.asarray(g, dtype=float), np.asarray(e, dtype=float)):
                bad = (env, np.asarray(e).tolist(), np.asarray(g).tolist())
                break
        if bad:
            ctx.fail("input", "C19.makeop-value-at-named-point", witness=dict(c, point=bad[0]), python=py,
                     expected=str(bad[1]), got=str(bad[2]))
            continue
        if zk != exp_keys:
            ctx.fail("correspondence", "C19.makeop-inputs-order", witness=c, python=py, expected=str(exp_keys), got=str(zk))
            continue
        if ans is not None:
            m = dec(ans)
            if m[0] != "tensor":
                ctx.fail("correspondence", "C19.model-vs-impl-makeop", witness=c, python=py, expected=str(m), got="a tensor")
                continue
            zo = {"inputs": [(k, sizes[k]) for k in zk], "shape": [int(v) for v in np.shape(z.data)],
                  "flat": [int(round(float(v) * 4)) for v in np.asarray(z.data, dtype=float).ravel()]}
            mo = {k: m[1][k] for k in ("inputs", "shape", "flat")}
            if mo != zo:
                ctx.fail("correspondence", "C19.model-vs-impl-makeop", witness=c, python=py, expected=str(mo), got=str(zo))
                continue
            ctx.count("makeop:model-agrees")
        ctx.case(nontrivial_key=("makeop", opname, str(sizes), tuple(xk), tuple(yk)) if len(names) >= 2 else None)


# ------------------------------------------------------------------------------------------
# stream: index arithmetic of the model vs numpy
# ------------------------------------------------------------------------------------------

def index_stream(ctx):
    reqs, exp = [], []
    for r in range(0, 4):
        for shape in itertools.product([1, 2, 3], repeat=r):
            n = int(np.prod(shape)) if shape else 1
            for k in range(n):
                idx = [int(v) for v in np.unravel_index(k, shape)] if shape else []
                reqs.append(f"C19 unravel {sx(list(shape))} {k}")
                exp.append("ok " + sx(idx))
                reqs.append(f"C19 ravel {sx(list(shape))} {sx(idx)}")
                exp.append(f"ok {k}")
    ans = ctx.driver.ask(reqs)
    for q, a, e in zip(reqs, ans, exp):
        if a != e:
            ctx.fail("correspondence", "C19.model-index-arithmetic-vs-numpy", witness={"request": q},
                     expected=e, got=a)
            return
    ctx.count("index:ravel/unravel-vs-numpy", len(reqs))


# ------------------------------------------------------------------------------------------

def correspond(ctx):
    quick = ctx.tier == "quick"
    max_rank = 4 if quick else 5
    ctx.rule = (f"exhaustive: to_funsor/to_data for every shape of rank 0..{max_rank} with sizes 1..3 x event rank "
                "0..2 x every subset of batch dims named x {real, bounded int} (+ output=None), names in random "
                "non-alphabetical order; Tensor.align for every ordered subset of the names of tensors with <= 4 "
                "inputs followed by to_data onto random target dims with gaps; random align_tensor(s), lazy "
                "Align/Contraction/Delta align, materialize of random lazy terms; distinct arange entries so any "
                "misplacement is visible.  Non-trivial = at least one named input survives and the array has "
                "rank >= 2 (convert) / the order of >= 2 inputs actually changes (align).")
    index_stream(ctx)
    convert_stream(ctx, convert_cases(ctx.rng, max_rank))
    if not quick:
        # sizes up to 4 (the property's stated range) for rank <= 4
        convert_stream(ctx, (c for c in convert_cases(ctx.rng, 4, sizes=(1, 2, 3, 4)) if 4 in c["shape"]),
                       tag="convert4")
        convert_stream(ctx, (c for c in convert_cases(ctx.rng, 5, sizes=(1, 2, 3, 4), sample=0.25, min_rank=5)
                             if 4 in c["shape"]), tag="convert4r5")
    malformed_stream(ctx, 300 if quick else 3000)
    align_stream(ctx, align_tensors_cases(ctx.rng, ctx.tier))
    aligntensors_stream(ctx, 300 if quick else 4000)
    lazy_stream(ctx, 150 if quick else 1500)
    materialize_stream(ctx, 250 if quick else 3000)
    slice_stream(ctx, 150 if quick else 1500)
    history_stream(ctx, 400 if quick else 4000)
    classes_stream(ctx, 16 if quick else 200)
    makeop_stream(ctx, 400 if quick else 3000)
    interleave_stream(ctx, 6 if quick else 40)
    stack_stream(ctx, 300 if quick else 3000)
    ctx.exhaustive = True
    ctx.assumptions.append("numpy reshape / transpose / broadcast_to are modelled by their index-level "
                           "specification (row-major ravel/unravel), not verified")
    ctx.assumptions.append("lazy Align / Contraction.align / Delta.align: the gate is the Python oracle (value at every "
                           "point; inputs order = names for full permutations, which is what alignT_keys_full / "
                           "alignT_denote / deltaAlign_keys prove of the model); agreement with the Lean model "
                           "LTerm.alignT / deltaAlign (order, Align wrapper, value table) is measured and reported")
    ctx.assumptions.append("Slice leaves of the materialize stream are tied three ways (impl, Lean Term.slice model, "
                           "Python oracle); slicing / diagonal substitution T(a=Slice) is tied by the Python oracle only")


def search(ctx, broken):
    """A proof / the build / the correspondence broke: hunt for a concrete misplacement with the
    Python-side oracles only (works without Lean), one rank deeper and at ~10x volume."""
    def found():
        return any(f.witness is not None and f.kind == "input" for f in ctx.failures)
    convert_stream(ctx, convert_cases(ctx.rng, 5), use_driver=False, tag="search-convert")
    if found():
        return
    align_stream(ctx, align_tensors_cases(ctx.rng, "thorough"), use_driver=False)
    if found():
        return
    aligntensors_stream(ctx, 4000, use_driver=False)
    if found():
        return
    lazy_stream(ctx, 1500, use_driver=False)
    if found():
        return
    materialize_stream(ctx, 3000, use_driver=False)
    if found():
        return
    slice_stream(ctx, 1500)
    if found():
        return
    history_stream(ctx, 4000)
    if found():
        return
    classes_stream(ctx, 250)
    if found():
        return
    makeop_stream(ctx, 3000, use_driver=False)
    if found():
        return
    interleave_stream(ctx, 20)
    if found():
        return
    stack_stream(ctx, 3000)
