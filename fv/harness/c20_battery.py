"""
fv/harness/c20_battery.py — the C20 monitor and its battery of funsor programs.

Monitor: every leaf ndarray a program hands to funsor is created through `B.arr(...)`, which
  * owns its memory (sometimes as a strided view of a larger owned base, to exercise views),
  * is hashed (blake2b of bytes+dtype+shape, base included) when created,
  * is made read-only (`flags.writeable = False`, base too) in mode "ro"; stays writable in mode "rw".
Every funsor a program obtains can be `B.hold(...)`-ed: (class, inputs items, output, fresh, bound,
recursive `_ast_values` incl. array digests) is snapshotted.  After each program and at the end of
the run all arrays and all held funsors are re-checked.

In mode "ro" a ValueError("… read-only") raised from a frame inside funsor is itself a witness (funsor
tried to write into a caller's array); in mode "rw" the write succeeds and the digest catches it.
"""
import hashlib
import os
import traceback
from collections import OrderedDict

import numpy as np

from ..common import REPO
from ..futil import funsor, Tensor, Number, Funsor, Variable, Bint, Real, Reals, ops

from funsor.cnf import Contraction
from funsor.delta import Delta
from funsor.gaussian import Gaussian
from funsor.interpretations import (eager, lazy, reflect, normalize, moment_matching, memoize,
                                    sequential)
from funsor.interpreter import reinterpret
from funsor.optimizer import apply_optimizer
from funsor.terms import (Binary, Cat, Independent, Lambda, Reduce, Slice, Stack, Subs, Unary, to_data,
                          to_funsor, Tuple as FTuple)
from funsor.tensor import align_tensor, align_tensors, REDUCE_OP_TO_NUMERIC
from funsor.sum_product import (sum_product, partial_sum_product, sequential_sum_product,
                                naive_sequential_sum_product, mixed_sequential_sum_product,
                                MarkovProduct, sarkka_bilmes_product, naive_sarkka_bilmes_product)
from funsor.adjoint import adjoint, AdjointTape, forward_backward
from funsor.integrate import Integrate
from funsor.montecarlo import MonteCarlo

FUNSOR_DIR = str((REPO / "funsor").resolve())
THIS_FILE = os.path.abspath(__file__)


def digest(a):
    h = hashlib.blake2b(digest_size=12)
    h.update(str(a.dtype).encode())
    h.update(str(a.shape).encode())
    h.update(np.ascontiguousarray(a).tobytes())
    return h.hexdigest()


def is_readonly_error(e):
    msg = str(e)
    return isinstance(e, ValueError) and ("read-only" in msg or "not writeable" in msg or "WRITEABLE" in msg)


class Monitor:
    def __init__(self, mode, rng):
        assert mode in ("ro", "rw")
        self.mode = mode
        self.rng = rng
        self.arrays = []     # [label, array, digest, base, base digest]
        self.held = []       # [label, funsor, snapshot]
        self.dicts = []      # [label, dict, snapshot]
        self.attr_db = {}    # id(term) -> (term, {attribute path: digest})

    # ---- arrays --------------------------------------------------------------------------------
    def register(self, a, label="arr", layouts=False):
        """Take ownership of a freshly built array (not shared with anybody).  With `layouts`, the array
        handed to funsor is sometimes a broadcast (always read-only) view or Fortran-ordered."""
        a = np.array(a)                      # private copy owning its data
        base = a
        u = self.rng.random()
        if layouts and a.ndim >= 1 and a.shape[0] >= 2 and u < 0.08:
            # a broadcast view: numpy makes these read-only in either mode; all leading slices share memory
            base = np.array(a[:1])
            a = np.broadcast_to(base, a.shape)
            rec = [label, a, digest(a), base, digest(base)]
            if self.mode == "ro":
                base.flags.writeable = False
            self.arrays.append(rec)
            return a
        if layouts and a.ndim >= 2 and u < 0.16:
            a = np.asfortranarray(a)          # non C-contiguous, owns its data
            base = a
        elif a.ndim >= 1 and a.shape[0] >= 1 and u < 0.40:
            # hand funsor a strided *view* of a bigger owned base
            big = np.zeros((2 * a.shape[0],) + a.shape[1:], dtype=a.dtype)
            big[1::2] = 7
            big[::2] = a
            base = big
            a = big[::2]
        rec = [label, a, digest(a), base, digest(base)]
        if self.mode == "ro":
            base.flags.writeable = False
            a.flags.writeable = False
        self.arrays.append(rec)
        return a

    def hold(self, f, label="f"):
        if isinstance(f, Funsor):
            materialise(f)       # cached derived attributes exist *before* later operations run
            cache = {}
            self.held.append([label, f, snap(f, {}), sig(f, cache)])
            self.attr_scan([f], cache)
        return f

    def attr_scan(self, roots, cache=None):
        """Grow-only snapshot of every ndarray reachable through `__dict__` of every term reachable from
        `roots` (sub-terms via _ast_values, funsor-valued cached attributes such as log_normalizer,
        lazy_property caches once materialised).  A new attribute is recorded; a recorded one must keep
        its bytes.  Returns [(description)] for the ones that changed."""
        out = []
        seen = set()
        cache = {} if cache is None else cache
        for t in reachable_terms(roots, seen):
            rec = self.attr_db.get(id(t))
            if rec is None or rec[0] is not t:
                rec = self.attr_db[id(t)] = (t, {})
            known = rec[1]
            for name, val in list(vars(t).items()):
                if name in _SKIP_ATTRS or not isinstance(val, (np.ndarray, tuple, list, dict)):
                    continue
                for path, arr in arrays_in(name, val):
                    d = cache.get(("a", id(arr)))
                    if d is None:
                        d = cache[("a", id(arr))] = digest(arr)
                    old = known.get(path)
                    if old is None:
                        known[path] = d
                    elif old != d:
                        out.append(f"{type(t).__name__}.{path}: cached/derived array changed")
                        known[path] = d
        return out

    def hold_dict(self, d, label="dict"):
        self.dicts.append([label, d, tuple((k, str(v)) for k, v in d.items())])
        return d

    def check(self, since=None):
        """Return a list of (label, description) for everything that changed.  `since` = (first array
        index, first held index): restrict to what the current program registered (per-step checks)."""
        out = []
        a0, h0 = since if since is not None else (0, 0)
        for rec in self.arrays[a0:]:
            label, a, d, base, bd = rec
            if digest(a) != d:
                out.append((label, "leaf array contents changed"))
            elif digest(base) != bd:
                out.append((label, "base of leaf array changed outside the view"))
            if self.mode == "ro" and (a.flags.writeable or base.flags.writeable):
                out.append((label, "read-only flag of a leaf array was cleared"))
        cache = {}
        for rec in self.held[h0:]:
            label, f, s, sg = rec
            try:
                sg2 = sig(f, cache)
            except Exception as e:       # a term that can no longer be inspected has been damaged
                sg2 = "unsnappable:" + type(e).__name__
            if sg2 != sg:
                try:
                    s2 = snap(f, {})
                except Exception as e:
                    s2 = ("unsnappable", type(e).__name__, str(e)[:100])
                out.append((label, "held funsor changed: " + first_diff(s, s2)))
        for what in self.attr_scan([rec[1] for rec in self.held[h0:]], cache):
            out.append(("attr", what))
        for rec in self.dicts if since is None else ():
            label, d, s = rec
            if tuple((k, str(v)) for k, v in d.items()) != s:
                out.append((label, "user-supplied inputs dict changed"))
        return out

    def trim(self, keep=300):
        if len(self.held) > keep:
            self.held = self.held[-keep:]
        if len(self.arrays) > 4 * keep:
            self.arrays = self.arrays[-4 * keep:]
        live = {id(t) for t in reachable_terms([rec[1] for rec in self.held], set())}
        self.attr_db = {k: v for k, v in self.attr_db.items() if k in live}

    def rebaseline(self):
        for rec in self.arrays:
            rec[2] = digest(rec[1])
            rec[4] = digest(rec[3])
        cache = {}
        for rec in self.held:
            try:
                rec[2] = snap(rec[1], {})
                rec[3] = sig(rec[1], cache)
            except Exception:
                pass
        self.attr_db = {}
        self.attr_scan([rec[1] for rec in self.held])


_LAZY_NAMES = {}
# attributes that are snapshotted structurally by sig()/snap() already (or hold no arrays)
_SKIP_ATTRS = frozenset(["inputs", "output", "fresh", "bound", "_ast_values", "input_vars", "name", "op"])


def materialise(f):
    """Touch every lazy_property of the term's class (Gaussian _mean/_precision/_covariance/…,
    log_normalizer, input_vars) so that the cache exists before later operations could write into it."""
    import inspect
    from funsor.util import lazy_property
    for t in reachable_terms([f], set()):
        cls = type(t)
        names = _LAZY_NAMES.get(cls)
        if names is None:
            names = []
            for n in dir(cls):
                try:
                    if isinstance(inspect.getattr_static(cls, n), lazy_property) and n != "__annotations__":
                        names.append(n)
                except AttributeError:
                    pass
            _LAZY_NAMES[cls] = names
        for n in names:
            if n in vars(t):
                continue
            try:
                with np.errstate(all="ignore"):
                    getattr(t, n)
            except Exception as e:
                if is_readonly_error(e):
                    raise


def reachable_terms(roots, seen):
    todo = list(roots)
    while todo:
        x = todo.pop()
        if isinstance(x, Funsor):
            if id(x) in seen:
                continue
            seen.add(id(x))
            yield x
            todo.extend(getattr(x, "_ast_values", ()))
            for n, v in vars(x).items():
                if n not in _SKIP_ATTRS and isinstance(v, (Funsor, tuple, dict)):
                    todo.append(v)
        elif isinstance(x, (tuple, list, frozenset)):
            todo.extend(v for v in x if isinstance(v, (Funsor, tuple, list, frozenset, dict)))
        elif isinstance(x, dict):
            todo.extend(v for v in x.values() if isinstance(v, (Funsor, tuple, list, frozenset, dict)))


def arrays_in(name, val, depth=0):
    if isinstance(val, np.ndarray):
        yield name, val
    elif depth < 2 and isinstance(val, (tuple, list)):
        for i, v in enumerate(val):
            yield from arrays_in(f"{name}[{i}]", v, depth + 1)
    elif depth < 2 and isinstance(val, dict):
        for k, v in val.items():
            yield from arrays_in(f"{name}[{k!r}]", v, depth + 1)


class MutationObserved(Exception):
    def __init__(self, history, changed):
        super().__init__(f"mutation after {history[-1] if history else '?'}")
        self.history = history
        self.changed = changed


def first_diff(a, b, path=""):
    if type(a) != type(b):
        return f"{path}: {str(a)[:80]} -> {str(b)[:80]}"
    if isinstance(a, tuple):
        if len(a) != len(b):
            return f"{path}: length {len(a)} -> {len(b)}"
        for i, (x, y) in enumerate(zip(a, b)):
            if x != y:
                return first_diff(x, y, f"{path}/{i}")
        return f"{path}: ?"
    return f"{path}: {str(a)[:80]} -> {str(b)[:80]}"


def sig(x, cache):
    """Short signature of everything `snap` records; `cache` (one per check) memoises per object id so a
    sub-term or array shared by many held terms is hashed once."""
    if isinstance(x, Funsor):
        k = id(x)
        h = cache.get(k)
        if h is None:
            cache[k] = "cycle"
            parts = [type(x).__name__, repr([(n, str(d)) for n, d in x.inputs.items()]), str(x.output),
                     repr(sorted(map(str, x.fresh))), repr(sorted(map(str, x.bound)))]
            parts += [sig(v, cache) for v in getattr(x, "_ast_values", ())]
            h = cache[k] = hashlib.blake2b("|".join(parts).encode(), digest_size=12).hexdigest()
        return h
    if isinstance(x, np.ndarray):
        k = ("a", id(x))
        h = cache.get(k)
        if h is None:
            h = cache[k] = digest(x)
        return "A" + h
    if isinstance(x, tuple):
        return "T(" + ",".join(sig(v, cache) for v in x) + ")"
    if isinstance(x, frozenset):
        return "S(" + ",".join(sorted(sig(v, cache) for v in x)) + ")"
    if isinstance(x, (dict, OrderedDict)):
        return "D(" + ",".join(str(k) + "=" + sig(v, cache) for k, v in x.items()) + ")"
    if isinstance(x, (str, int, float, bool, type(None), np.generic)):
        return "V" + type(x).__name__ + repr(x)
    if isinstance(x, type):
        return "Ty" + str(x)
    return "O" + type(x).__name__ + (repr(x)[:120] if isinstance(x, ops.Op) else "")


def snap(x, memo):
    """Canonical, hashable snapshot of everything observable about a term."""
    if isinstance(x, Funsor):
        k = id(x)
        if k in memo:
            return ("ref", memo[k])
        memo[k] = len(memo)
        vals = getattr(x, "_ast_values", ())
        return ("F", type(x).__name__,
                tuple((n, str(d)) for n, d in x.inputs.items()),
                str(x.output),
                tuple(sorted(map(str, x.fresh))), tuple(sorted(map(str, x.bound))),
                tuple(snap(v, memo) for v in vals))
    if isinstance(x, np.ndarray):
        return ("A", x.shape, str(x.dtype), digest(x))
    if isinstance(x, tuple):
        return ("T",) + tuple(snap(v, memo) for v in x)
    if isinstance(x, frozenset):
        return ("S",) + tuple(sorted((snap(v, memo) for v in x), key=repr))
    if isinstance(x, (dict, OrderedDict)):
        return ("D",) + tuple((str(k), snap(v, memo)) for k, v in x.items())
    if isinstance(x, (str, int, float, bool, type(None), np.generic)):
        return ("V", type(x).__name__, repr(x))
    if isinstance(x, type):
        return ("Ty", str(x))
    return ("O", type(x).__name__, repr(x)[:120] if isinstance(x, ops.Op) else type(x).__name__)


# ==========================================================================================================
# Battery context
# ==========================================================================================================

class B:
    """What a program sees: a PRNG, array factory, funsor holder."""

    EDGE_VALUES = (float("-inf"), float("-inf"), float("-inf"), float("inf"), 0.0, float("nan"), float("nan"),
                   -0.0, 5e-324, 1e-310)
    EDGE_DENSITIES = ("one", "some", "all", "row", "row")

    def __init__(self, mon, rng, edge="auto"):
        self.mon = mon
        self.rng = rng
        self.npr = np.random.RandomState(rng.randrange(2 ** 31))
        # edge-value regime of this run: None (ordinary data) or (value, density).  Leaf arrays of the
        # float kinds get that value (-inf, +inf, 0, -0.0, nan, a subnormal) in one / some / all cells or in a
        # whole row (all cells along the last axis for one leading index: an "empty row" of log-weights);
        # integer (index) arrays get their domain bounds 0 / n-1.  Comparison is by bytes, so nan is fine.
        u, v, d = rng.random(), rng.choice(self.EDGE_VALUES), rng.choice(self.EDGE_DENSITIES)
        if edge == "auto":
            edge = None if u < 0.5 else (v, d)
        self.edge = edge
        self.history = []
        self.skipped = 0
        self.since = (len(mon.arrays), len(mon.held))     # what this program registers starts here
        self.declined = 0
        self.evaluated = 0
        self.decl_kinds = {}

    def inject(self, a, always=None):
        spec = always or self.edge
        if spec is None or a.size == 0 or a.dtype.kind != "f":
            return a
        value, density = spec
        a = np.array(a, dtype=a.dtype)
        flat = a.reshape(-1)
        if density == "row":
            if a.ndim >= 2:
                rows = a.reshape(-1, a.shape[-1])
                rows[self.npr.randint(rows.shape[0])] = value
                if rows.shape[0] > 2 and self.npr.uniform() < 0.3:
                    rows[self.npr.randint(rows.shape[0])] = value
            else:
                flat[:] = value
        elif density == "one":
            flat[self.npr.randint(flat.size)] = value
        elif density == "some":
            mask = self.npr.uniform(size=flat.size) < 0.35
            if not mask.any():
                mask[self.npr.randint(flat.size)] = True
            flat[mask] = value
        else:
            flat[:] = value
        return a

    def arr(self, shape, kind="real", label="arr", edge=True):
        shape = tuple(shape)
        r = self.npr
        if kind == "logp":           # log-probabilities with impossible cells, in every regime
            a = np.asarray(r.randn(*shape) if shape else np.array(r.randn()))
            a = self.inject(a, always=(float("-inf"), self.rng.choice(("one", "some", "some", "all"))))
            return self.mon.register(a, label, layouts=True)
        if kind == "real":
            a = r.randn(*shape) if shape else np.array(r.randn())
        elif kind == "pos":
            a = np.abs(r.randn(*shape)) + 0.5 if shape else np.array(abs(r.randn()) + 0.5)
        elif kind == "unit":
            a = r.uniform(0.05, 0.95, size=shape)
        elif kind == "bool":
            a = r.randint(0, 2, size=shape).astype(bool)
        elif kind.startswith("int:"):
            a = r.randint(0, int(kind[4:]), size=shape).astype(np.int64)
            if edge and self.edge is not None and a.size:      # index arrays at their domain bounds
                fl = a.reshape(-1)
                fl[r.uniform(size=fl.size) < 0.4] = r.choice([0, int(kind[4:]) - 1])
        elif kind == "smallint":
            a = r.randint(0, 4, size=shape).astype(np.float64)
        elif kind == "spd":          # shape = batch + (n, n): symmetric positive definite
            m = r.randn(*shape)
            a = m @ np.swapaxes(m, -1, -2) + 0.5 * np.eye(shape[-1])
        elif kind == "tril":         # lower-triangular with positive diagonal
            m = r.randn(*shape)
            a = np.tril(m, -1) + np.eye(shape[-1]) * (np.abs(m) + 0.5)
        else:
            raise ValueError(kind)
        a = np.asarray(a)
        if edge and kind in ("real", "pos", "unit", "smallint"):
            a = self.inject(a)
        return self.mon.register(a, label, layouts=kind in ("real", "pos", "unit", "smallint", "bool"))

    def own(self, a, label="arr"):
        return self.mon.register(a, label)

    def hold(self, *fs):
        for f in fs:
            if isinstance(f, (tuple, list)):
                self.hold(*f)
            elif isinstance(f, dict):
                self.hold(*f.values())
            else:
                self.mon.hold(f)
        return fs[0] if len(fs) == 1 else fs

    def t(self, thunk):
        """Evaluate one expression; hold its result.  A decline (any exception that is not a
        read-only write) is counted and skipped so that the rest of the program still runs."""
        try:
            r = thunk()
        except Exception as e:
            if is_readonly_error(e):
                raise
            self.declined += 1
            self.decl_kinds[type(e).__name__] = self.decl_kinds.get(type(e).__name__, 0) + 1
            return None
        self.evaluated += 1
        self.hold(r)
        return r

    def step(self, label, thunk):
        """One operation of a multi-step history: evaluate, hold the result, then re-verify every
        snapshot taken so far.  Raises MutationObserved with the history when something changed."""
        self.history.append(label)
        r = self.t(thunk)
        bad = self.mon.check(since=self.since)
        if bad:
            raise MutationObserved(list(self.history), bad)
        return r

    def inputs(self, names_sizes):
        return OrderedDict((n, Bint[s]) for n, s in names_sizes)

    def tensor(self, names_sizes, event=(), kind="real", dtype="real"):
        shape = tuple(s for _, s in names_sizes) + tuple(event)
        data = self.arr(shape, kind)
        inputs = self.mon.hold_dict(self.inputs(names_sizes))
        t = Tensor(data, inputs, dtype)
        self.hold(t)
        return t

    def pick_inputs(self, pool=(("i", 2), ("j", 3), ("k", 2), ("l", 4)), lo=0, hi=3):
        n = self.rng.randint(lo, hi)
        ns = self.rng.sample(list(pool), n)
        return ns

    def gaussian(self, int_ns, real_ns):
        """real_ns: [(name, shape tuple)]"""
        bshape = tuple(s for _, s in int_ns)
        dim = sum(int(np.prod(sh)) if sh else 1 for _, sh in real_ns)
        rank = dim if self.rng.random() < 0.7 else dim + 1
        prec_sqrt = self.arr(bshape + (dim, rank), "real", edge=False)
        if rank == dim:
            prec_sqrt = self.own(np.asarray(prec_sqrt) + 2.0 * np.eye(dim))
        white_vec = self.arr(bshape + (rank,), "real", edge=self.rng.random() < 0.3)
        inputs = self.inputs(int_ns)
        for n, sh in real_ns:
            inputs[n] = Reals[sh] if sh else Real
        self.mon.hold_dict(inputs)
        g = Gaussian(white_vec=white_vec, prec_sqrt=prec_sqrt, inputs=inputs)
        self.hold(g)
        return g


PROGRAMS = OrderedDict()


def program(fn):
    PROGRAMS[fn.__name__] = fn
    return fn


# ---- construction / conversion -------------------------------------------------------------------------

@program
def p_construct(b):
    ns = b.pick_inputs()
    ev = b.rng.choice([(), (2,), (2, 3)])
    t = b.tensor(ns, ev)
    # same data, different wrappers: hash-consing on the identical array object
    t2 = Tensor(t.data, t.inputs.copy(), t.dtype)
    b.hold(t2)
    n = b.hold(Number(b.rng.choice([0, 1, 2.5])))
    v = b.hold(Variable("x", Reals[ev] if ev else Real))
    b.hold(t + n, t * v if not ev else t + v)
    # bint-valued tensor
    ti = b.tensor(ns, (), kind="int:3", dtype=3)
    b.hold(ti)


@program
def p_to_funsor_to_data(b):
    ns = b.pick_inputs(lo=1)
    ev = b.rng.choice([(), (2,)])
    x = b.arr(tuple(s for _, s in ns) + ev)
    dim_to_name = OrderedDict((-len(ns) + i, n) for i, (n, _) in enumerate(ns))
    f = to_funsor(x, Reals[ev] if ev else Real, dim_to_name)
    b.hold(f)
    name_to_dim = {n: d for d, n in dim_to_name.items()}
    y = to_data(f, name_to_dim)
    assert isinstance(y, np.ndarray)
    b.hold(to_funsor(y, Reals[ev] if ev else Real, dim_to_name))
    b.hold(funsor.to_funsor(2.0), funsor.to_funsor(x[(0,) * len(ns)], Reals[ev] if ev else Real))
    assert to_data(Number(3.0)) == 3.0


@program
def p_align(b):
    ns = b.pick_inputs(lo=1, hi=4)
    t = b.tensor(ns, b.rng.choice([(), (2,)]))
    names = [n for n, _ in ns]
    b.rng.shuffle(names)
    b.hold(t.align(tuple(names)))
    extra = b.inputs(ns + [("z", 2)])
    items = list(extra.items())
    b.rng.shuffle(items)
    new_inputs = OrderedDict(items)
    d = align_tensor(new_inputs, t, expand=b.rng.random() < 0.5)
    assert isinstance(d, np.ndarray)
    u = b.tensor(b.pick_inputs(lo=1), ())
    if not t.output.shape:
        inputs, (d1, d2) = align_tensors(t, u, expand=True)
        b.hold(Tensor(d1, inputs), Tensor(d2, inputs))
        align_tensors(t, u, expand=False)
    align_tensors(t, t)


# ---- pointwise ops -------------------------------------------------------------------------------------------

BINOPS = ["add", "sub", "mul", "truediv", "max", "min", "logaddexp", "pow", "eq", "ne", "lt", "le",
          "gt", "ge", "safesub", "safediv"]
BOOLOPS = ["and_", "or_", "xor"]
UNOPS = ["neg", "abs", "exp", "log", "log1p", "sqrt", "sigmoid", "tanh", "reciprocal", "pos"]


@program
def p_binary(b):
    ev = b.rng.choice([(), (), (2,)])
    x = b.tensor(b.pick_inputs(), ev, kind="pos")
    y = b.tensor(b.pick_inputs(), ev, kind="pos")
    for name in b.rng.sample(BINOPS, 6):
        op = getattr(ops, name)
        b.hold(op(x, y), op(x, 2.0), op(0.5, y))
    p = b.tensor(b.pick_inputs(), (), kind="bool", dtype=2)
    q = b.tensor(b.pick_inputs(), (), kind="bool", dtype=2)
    for name in BOOLOPS:
        b.hold(getattr(ops, name)(p, q))
    b.hold(~p)
    # in-place syntax on funsors must rebind, not mutate
    z = x
    z += y
    z *= 2.0
    z -= x
    b.hold(z)
    if ev:
        m = b.tensor(b.pick_inputs(), (2, 2))
        b.hold(m @ x, x @ m, m @ m)


@program
def p_unary(b):
    ev = b.rng.choice([(), (2,), (2, 2)])
    x = b.tensor(b.pick_inputs(), ev, kind="unit")
    for name in b.rng.sample(UNOPS, 6):
        b.hold(getattr(ops, name)(x))
    b.t(lambda: ops.atanh(x * 0.5))
    b.t(lambda: ops.isnan(x))
    b.t(lambda: ops.clamp(x, 0.2, 0.8))
    if ev:
        b.hold(x.sum(), x.prod(), x.logsumexp(), x.max(), x.min(), x.argmax(-1) if len(ev) == 1 else x.sum(-1),
               x.mean(), x.std(), x.var(), x.all(), x.any())
        b.hold(x.reshape((int(np.prod(ev)),)), x[0], x[..., 0], x[::-1] if len(ev) == 1 else x[:, 1])
        for th in (lambda: ops.unsqueeze(x, 0), lambda: ops.transpose(x, -1, -2), lambda: ops.flip(x, 0),
                   lambda: ops.expand(ops.unsqueeze(x, 0), (3,) + ev),
                   lambda: ops.permute(x, tuple(reversed(range(len(ev))))),
                   lambda: ops.astype(x, "float32"), lambda: ops.detach(x), lambda: ops.full_like(x, 1.5),
                   lambda: ops.stack((x, x + 1.0)), lambda: ops.cat((x, x), 0)):
            b.t(th)


@program
def p_reduce(b):
    ns = b.pick_inputs(lo=1, hi=4)
    x = b.tensor(ns, b.rng.choice([(), (2,)]), kind="pos")
    names = [n for n, _ in ns]
    for op in (ops.add, ops.mul, ops.logaddexp, ops.max, ops.min, ops.mean, ops.std, ops.var):
        k = b.rng.randint(1, len(names))
        rv = frozenset(b.rng.sample(names, k))
        b.t(lambda: x.reduce(op, rv))
        b.t(lambda: x.reduce(op))
    p = b.tensor(ns, (), kind="bool", dtype=2)
    b.hold(p.reduce(ops.and_, names[0]), p.reduce(ops.or_), p.reduce(ops.and_))
    # a reduced variable that is not an input
    b.hold(x.reduce(ops.add, frozenset({Variable("zz", Bint[3])})))
    with lazy:
        r = Reduce(ops.add, x, frozenset({Variable(names[0], Bint[dict(ns)[names[0]]])}))
    b.hold(r, reinterpret(r))


# ---- substitution / indexing / structural terms ------------------------------------------------------------

@program
def p_subs(b):
    ns = b.pick_inputs(lo=1, hi=4)
    sizes = dict(ns)
    x = b.tensor(ns, b.rng.choice([(), (2,)]))
    names = [n for n, _ in ns]
    n0 = names[0]
    b.hold(x(**{n0: 0}), x(**{n0: sizes[n0] - 1}), x(**{n0: "w"}), x(**{n0: Variable("w", Bint[sizes[n0]])}))
    b.hold(x(**{n0: Slice("s", 0, sizes[n0], 1, sizes[n0])}), x(**{n0: Slice("s", sizes[n0] - 1, sizes[n0])}))
    idx = b.tensor(b.pick_inputs(pool=(("a", 2), ("b", 3), ("i", 2))), (), kind=f"int:{sizes[n0]}", dtype=sizes[n0])
    b.hold(x(**{n0: idx}))
    if len(names) >= 2:
        n1 = names[1]
        idx1 = b.tensor([("a", 2)], (), kind=f"int:{sizes[n1]}", dtype=sizes[n1])
        b.hold(x(**{n0: idx, n1: idx1}), x(**{n0: 0, n1: idx1}))
        if sizes[n0] == sizes[n1]:
            b.t(lambda: x(**{n0: n1}))             # rename onto a surviving input (diagonal)
            b.t(lambda: x(**{n0: n1, n1: n0}))     # swap
    with lazy:
        s = Subs(x, ((n0, Number(0, sizes[n0])),))
    b.hold(s, reinterpret(s))
    # partial substitution into a lazy expression
    y = Variable("y", Real)
    with lazy:
        e = (x + y) * x
    b.hold(e, e(y=2.0), e(**{n0: 0}), e(y=x) if not x.output.shape else e)


@program
def p_getitem_lambda(b):
    ns = b.pick_inputs(lo=1, hi=3)
    sizes = dict(ns)
    n0 = ns[0][0]
    x = b.tensor(ns, (3, 2))
    i = Variable("q", Bint[3])
    b.hold(x[i], x[i, 1], x[:, 0], x[1:], x[Variable("q", Bint[3]), Variable("r", Bint[2])])
    lam = Lambda(Variable(n0, Bint[sizes[n0]]), x)
    b.hold(lam, lam[0], lam[Variable(n0, Bint[sizes[n0]])])
    ti = b.tensor([("a", 2)], (), kind="int:3", dtype=3)
    b.hold(x[ti], x[ti, 0])
    # Independent
    xr = b.tensor(ns, ())
    f = xr + Variable("x_" + n0, Real)
    b.t(lambda: Independent(f, "x", n0, "x_" + n0))


@program
def p_stack_cat(b):
    ns = b.pick_inputs(lo=0, hi=2)
    parts = [b.tensor(ns, ()) for _ in range(b.rng.randint(1, 3))]
    st = Stack("t", tuple(parts))
    b.hold(st, st(t=0), st.reduce(ops.add, "t"), st(t=Slice("u", 0, len(parts), 1, len(parts))))
    cparts = [b.tensor(ns + [("c", s)], ()) for s in (b.rng.randint(1, 3), b.rng.randint(1, 3))]
    c = Cat("c", tuple(cparts))
    b.hold(c, c(c=0), c.reduce(ops.add, "c"))
    total = sum(p.inputs["c"].size for p in cparts)
    b.hold(c(c=Slice("d", 0, total, 1, total)))
    with lazy:
        lc = Cat("c", tuple(cparts))
        ls = Stack("t", tuple(parts))
    b.hold(lc, ls, reinterpret(lc), reinterpret(ls), lc(c=0), ls(t=0))
    # Stack of lazy parts
    v = Variable("v", Real)
    sl = Stack("t", (parts[0] + v, parts[0] * v))
    b.hold(sl, sl(v=1.5), sl(t=1))
    b.hold(FTuple((parts[0], c)))


@program
def p_einsum_ops(b):
    from funsor.einsum import einsum as feinsum, naive_einsum, naive_plated_einsum
    x = b.tensor([("a", 2), ("b", 3)], (), kind="pos")
    y = b.tensor([("b", 3), ("c", 2)], (), kind="pos")
    z = b.tensor([("c", 2)], (), kind="pos")
    for backend in ("numpy", "funsor.einsum.numpy_log", "funsor.einsum.numpy_map"):
        args = (x, y, z) if backend == "numpy" else (x.log(), y.log(), z.log())
        b.t(lambda: feinsum("ab,bc,c->a", *args, backend=backend))
        b.t(lambda: naive_einsum("ab,bc,c->", *args, backend=backend))
        b.t(lambda: naive_plated_einsum("ab,bc,c->b", *args, backend=backend, plates="c"))
    m = b.tensor([("i", 2)], (2, 3))
    n = b.tensor([("j", 3)], (3, 2))
    b.t(lambda: ops.einsum((m, n), "ab,bc->ac"))
    from funsor.tensor import Einsum
    b.t(lambda: Einsum("ab,bc->ac", (m, n)))


# ---- array-level ops of funsor.ops (incl. the ones that write on a private copy) ---------------------------

@program
def p_array_ops(b):
    x = b.arr((3, 4))
    y = b.arr((3, 4))
    idx = (b.own(np.array([0, 2, 1])), b.own(np.array([1, 3, 0])))
    src = b.arr((3,))
    r1 = ops.scatter(x, idx, src)
    r2 = ops.scatter_add(x, idx, src)
    assert not np.shares_memory(r1, x) and not np.shares_memory(r2, x)
    spd = b.arr((2, 3, 3), "spd")
    L = ops.cholesky(spd)
    rhs = b.arr((2, 3, 2))
    ops.cholesky_inverse(L)
    ops.cholesky_solve(rhs, L)
    tl = b.arr((2, 3, 3), "tril")
    ops.triangular_solve(rhs, tl)
    ops.triangular_solve(rhs, np.swapaxes(tl, -1, -2), upper=True)
    ops.triangular_inv(tl)
    ops.qr(spd)
    for f in (ops.logsumexp, ops.sum, ops.prod, ops.amax, ops.amin, ops.mean, ops.std, ops.var):
        f(x, 0)
        f(x, -1, keepdims=True) if f not in (ops.std, ops.var) else f(x, -1)
    ops.all(x > 0, 0)
    ops.any(x > 0, 1)
    ops.argmax(x, 1)
    ops.argmin(x, 0)
    ops.logaddexp(x, y)
    ops.logaddexp(x, 1.0)
    ops.logaddexp(0.5, y)
    ops.safediv(x, np.abs(y) + 1)
    ops.safesub(x, y)
    ops.max(x, 0.0)
    ops.min(0.0, y)
    ops.max(x, y)
    ops.min(x, y)
    ops.reciprocal(np.abs(x) + 1)
    ops.clamp(x, -0.5, 0.5)
    ops.cat((x, y), 0)
    ops.stack((x, y), 1)
    ops.einsum((x, y), "ab,ab->a")
    e = ops.expand(ops.unsqueeze(x, 0), (2, 3, 4))
    ops.permute(x, (1, 0))
    ops.transpose(x, 0, 1)
    ops.diagonal(spd, -1, -2)
    ops.flip(x, 0)
    ops.new_zeros(x, (2,))
    ops.new_full(x, (2,), 1.0)
    ops.new_eye(x, (2,))
    ops.new_arange(x, 3)
    ops.full_like(x, 2.0)
    ops.astype(x, "float32")
    ops.detach(x)
    ops.isnan(x)
    ops.exp(x), ops.log(np.abs(x) + 1), ops.sigmoid(x), ops.tanh(x), ops.sqrt(np.abs(x)), ops.log1p(np.abs(x))
    # results that are views of the operands must not be written by later funsor calls
    t = Tensor(e, b.inputs([("i", 2)]))
    b.hold(t, t + 1.0, t.reduce(ops.add, "i"), t(i=0))


# ---- sampling ----------------------------------------------------------------------------------------

@program
def p_sample(b):
    np.random.seed(b.rng.randrange(2 ** 31))
    ns = b.pick_inputs(lo=1, hi=3)
    logits = b.tensor(ns, ())
    names = [n for n, _ in ns]
    sv = frozenset(b.rng.sample(names, b.rng.randint(1, len(names))))
    s = logits.sample(sv)
    b.hold(s)
    s2 = logits.sample(sv, OrderedDict(particle=Bint[3]))
    b.hold(s2)
    g = b.gaussian(b.pick_inputs(hi=1), [("x", ()), ("y", (2,))])
    gs = g.sample(frozenset(["x"]))
    b.hold(gs)
    gs2 = g.sample(frozenset(["x", "y"]), OrderedDict(particle=Bint[2]))
    b.hold(gs2)
    joint = logits + g
    b.t(lambda: joint.sample(frozenset(["x"]) | sv))
    with MonteCarlo(particle=Bint[4]):
        b.t(lambda: Integrate(g, Variable("x", Real) * 2.0, frozenset(["x", "y"])))
    # Delta
    pt = b.tensor(b.pick_inputs(hi=1), ())
    d = Delta("x", pt)
    b.hold(d, d(x=pt), d.reduce(ops.logaddexp, "x"), d + g)
    b.hold((d + g).reduce(ops.logaddexp, "x"))


# ---- interpretations / optimizer / adjoint / compiler --------------------------------------------------

@program
def p_interpretations(b):
    x = b.tensor([("i", 2), ("j", 3)], (), kind="pos")
    y = b.tensor([("j", 3), ("k", 2)], (), kind="pos")
    z = b.tensor([("k", 2)], (), kind="pos")
    with lazy:
        e = (x * y * z).reduce(ops.add, frozenset(["j", "k"]))
    b.hold(e)
    b.hold(reinterpret(e))
    with reflect:
        e2 = (x * y).reduce(ops.add, "j") * z
    b.hold(e2, reinterpret(e2))
    with normalize:
        e3 = (x * y * z).reduce(ops.add, frozenset(["j", "k"]))
    b.hold(e3)
    b.hold(apply_optimizer(e), apply_optimizer(e2), apply_optimizer(e3))
    with memoize():
        b.hold(reinterpret(e), reinterpret(e))
    with sequential:
        b.hold(reinterpret(e))
    with lazy:
        e4 = (x.log() + y.log()).reduce(ops.logaddexp, "j") + z.log()
    b.hold(e4, reinterpret(e4), apply_optimizer(e4))
    c = Contraction(ops.add, ops.mul, frozenset([Variable("j", Bint[3])]), x, y)
    b.hold(c)
    repr(e), str(e2), e.pretty() if hasattr(e, "pretty") else None
    funsor.util.quote(e3) if hasattr(funsor.util, "quote") else None


@program
def p_adjoint(b):
    x = b.tensor([("i", 2), ("j", 3)], (), kind="real")
    y = b.tensor([("j", 3), ("k", 2)], (), kind="real")
    with AdjointTape() as tape:
        with lazy:
            e = (x + y).reduce(ops.logaddexp, frozenset(["j"]))
        fwd = apply_optimizer(e)
    b.t(lambda: tape.adjoint(ops.logaddexp, ops.add, fwd, (x, y)))
    with AdjointTape() as tape2:
        out = (x + y).reduce(ops.logaddexp, frozenset(["i", "j", "k"]))
    res2 = tape2.adjoint(ops.logaddexp, ops.add, out, (x, y))
    b.hold(out, res2)
    xp = b.tensor([("i", 2), ("j", 3)], (), kind="pos")
    yp = b.tensor([("j", 3)], (), kind="pos")
    with AdjointTape() as tape3:
        out3 = (xp * yp).reduce(ops.add, frozenset(["i", "j"]))
    b.hold(tape3.adjoint(ops.add, ops.mul, out3, (xp, yp)))
    with lazy:
        le = (x + y).reduce(ops.logaddexp, frozenset(["i", "j", "k"]))
    b.t(lambda: adjoint(ops.logaddexp, ops.add, le))
    b.t(lambda: forward_backward(ops.logaddexp, ops.add, le))


@program
def p_compile(b):
    from funsor.compiler import compile_funsor
    xv = Variable("x", Reals[3])
    yv = Variable("y", Reals[3])
    c = b.tensor([], (3,))
    with lazy:
        e = (xv * c + yv.exp()).sum()
    b.hold(e)
    prog = compile_funsor(e)
    ax = b.arr((3,))
    ay = b.arr((3,))
    out = prog(x=ax, y=ay)
    def printed():
        code = prog.as_code(name="program2")
        env = {}
        exec(code, None, env)       # SyntaxError when constants are arrays (repr is not code): a decline
        return env["program2"](x=ax, y=ay)
    b.t(printed)
    b.hold(e(x=ax, y=ay))
    e2 = FTuple((xv + c, (xv * yv).sum()))
    p2 = compile_funsor(e2)
    p2(x=ax, y=ay)
    from funsor.tensor import function
    @function(Reals[3], Reals[3], Reals[3])
    def addf(u, v):
        return u + v
    f = addf(c, Tensor(ay))
    b.hold(f)
    with lazy:
        lf = addf(xv, c)
    b.hold(lf, lf(x=ax))


# ---- Gaussians ---------------------------------------------------------------------------------------------

@program
def p_gaussian(b):
    ins = b.pick_inputs(pool=(("i", 2), ("j", 3)), hi=2)
    g = b.gaussian(ins, [("x", ()), ("y", (2,))])
    h = b.gaussian(b.pick_inputs(pool=(("i", 2), ("k", 2)), hi=2), [("y", (2,)), ("z", ())])
    s = g + h
    b.hold(s)
    t = b.tensor(ins, ())
    b.hold(g + t, g - t, g + 1.0)
    # real substitution (complete and partial), affine substitution, renaming
    xv = b.tensor(b.pick_inputs(pool=(("i", 2), ("m", 2)), hi=1), ())
    yv = b.tensor([], (2,))
    b.hold(g(x=xv), g(y=yv), g(x=xv, y=yv), g(x="w"), g(x=Variable("w", Real) * 2.0 + 1.0))
    b.hold(g(y=Variable("u", Reals[2]) + yv))
    if ins:
        n0, s0 = ins[0]
        b.hold(g(**{n0: 0}), g(**{n0: Slice("s", 0, s0, 1, s0)}))
        idx = b.tensor([("a", 2)], (), kind=f"int:{s0}", dtype=s0)
        b.hold(g(**{n0: idx}))
        b.hold(g.reduce(ops.add, n0))
        b.hold(g.reduce(ops.logaddexp, n0))
        with moment_matching:
            b.hold((g + t).reduce(ops.logaddexp, n0))
    # marginalisation
    b.hold(g.reduce(ops.logaddexp, "x"), g.reduce(ops.logaddexp, "y"), g.reduce(ops.logaddexp, frozenset(["x", "y"])))
    b.hold(s.reduce(ops.logaddexp, "y"), s.reduce(ops.logaddexp))
    b.hold(g.log_normalizer)
    # alignment
    names = list(g.inputs)
    b.rng.shuffle(names)
    b.hold(g.align(tuple(names)))
    # integrals
    b.hold(Integrate(g, Variable("x", Real), frozenset(["x"])))
    b.hold(Integrate(g, Variable("x", Real) * 2.0 + 1.0, frozenset(["x", "y"])))
    b.t(lambda: Integrate(g, g, frozenset(["x", "y"])))
    b.t(lambda: Integrate(g, h, frozenset(["y"])))
    # compression of a high-rank sum
    big = g + g + g
    b.hold(big, big.reduce(ops.logaddexp, "x"))
    # mean/precision constructor
    prec = b.arr((2, 2), "spd")
    mean = b.arr((2,))
    g2 = Gaussian(mean=mean, precision=prec, inputs=OrderedDict(v=Reals[2]))
    b.hold(g2, g2(v=mean))
    g2._mean, g2._precision, g2._covariance
    cov = b.arr((2, 2), "spd")
    b.t(lambda: Gaussian(mean=mean, covariance=cov, inputs=OrderedDict(v=Reals[2])))
    b.t(lambda: Gaussian(mean=mean, scale_tril=b.arr((2, 2), "tril"), inputs=OrderedDict(v=Reals[2])))


@program
def p_gaussian_mixture(b):
    g = b.gaussian([("i", 2)], [("x", ()), ("y", ())])
    t = b.tensor([("i", 2), ("j", 3)], ())
    mix = g + t
    b.hold(mix)
    b.hold(mix.reduce(ops.logaddexp, "x"), mix.reduce(ops.logaddexp, "j"), mix(i=0), mix(x=b.tensor([], ())))
    d = Delta("x", b.tensor([("i", 2)], ()))
    b.hold(mix + d, (mix + d).reduce(ops.logaddexp, "x"))
    with moment_matching:
        b.hold(mix.reduce(ops.logaddexp, "i"), mix.reduce(ops.logaddexp, frozenset(["i", "j"])))
    b.hold(mix.reduce(ops.logaddexp))
    from funsor.approximations import laplace_approximate, mean_approximate, argmax_approximate
    guide = b.gaussian([], [("x", ()), ("y", ())])
    with normalize:
        p1 = g.approximate(ops.logaddexp, guide, {"x", "y"})
        p2 = t.approximate(ops.logaddexp, t, {"j"})
    b.hold(p1, p2)
    np.random.seed(b.rng.randrange(2 ** 31))
    for interp in (laplace_approximate, mean_approximate, argmax_approximate, eager,
                   MonteCarlo(), MonteCarlo(particle=Bint[3])):
        def go(p):
            with interp:
                return reinterpret(p)
        b.t(lambda: go(p1))
        b.t(lambda: go(p2))


# ---- sum-product family ------------------------------------------------------------------------------------

@program
def p_sum_product(b):
    fs = [b.tensor([("a", 2), ("p", 3)], (), kind="pos"),
          b.tensor([("a", 2), ("b", 2), ("p", 3)], (), kind="pos"),
          b.tensor([("b", 2), ("q", 2)], (), kind="pos"),
          b.tensor([("c", 3)], (), kind="pos")]
    for sum_op, prod_op, tf in ((ops.add, ops.mul, lambda f: f), (ops.logaddexp, ops.add, lambda f: f.log()),
                                (ops.max, ops.add, lambda f: f.log()), (ops.min, ops.add, lambda f: f.log())):
        factors = [tf(f) for f in fs]
        b.hold(factors)
        b.hold(sum_product(sum_op, prod_op, factors, eliminate=frozenset("abcpq"), plates=frozenset("pq")))
        b.hold(sum_product(sum_op, prod_op, factors, eliminate=frozenset("ab"), plates=frozenset()))
        b.hold(partial_sum_product(sum_op, prod_op, factors, eliminate=frozenset("abp"), plates=frozenset("pq")))
        with lazy:
            le = sum_product(sum_op, prod_op, factors, eliminate=frozenset("abc"), plates=frozenset())
        b.hold(le, apply_optimizer(le))


@program
def p_markov(b):
    T = b.rng.randint(1, 6)
    s = b.rng.choice([2, 3])
    bat = b.rng.choice([[], [("n", 2)]])
    ns = [("time", T)] + bat + [("prev", s), ("curr", s)]
    b.rng.shuffle(ns)
    trans = b.tensor(ns, (), kind="pos")
    time = Variable("time", Bint[T])
    step = {"prev": "curr"}
    for sum_op, prod_op, f in ((ops.add, ops.mul, trans), (ops.logaddexp, ops.add, trans.log()),
                               (ops.max, ops.add, trans.log())):
        b.hold(f)
        b.hold(sequential_sum_product(sum_op, prod_op, f, time, step))
        b.hold(naive_sequential_sum_product(sum_op, prod_op, f, time, step))
        b.hold(mixed_sequential_sum_product(sum_op, prod_op, f, time, step, num_segments=b.rng.randint(1, T)))
        b.hold(MarkovProduct(sum_op, prod_op, f, time, step))
        with lazy:
            m = MarkovProduct(sum_op, prod_op, f, time, step)
        b.hold(m, reinterpret(m))
    # Gaussian HMM transition
    gt = b.gaussian([("time", T)], [("xp", ()), ("xc", ())])
    b.hold(sequential_sum_product(ops.logaddexp, ops.add, gt, time, {"xp": "xc"}))
    # sarkka-bilmes
    ns2 = [("time", T), ("x", s), ("_PREV_x", s)]
    tr2 = b.tensor(ns2, (), kind="pos")
    b.t(lambda: sarkka_bilmes_product(ops.add, ops.mul, tr2, time, frozenset()))
    b.t(lambda: naive_sarkka_bilmes_product(ops.add, ops.mul, tr2, time, frozenset()))


@program
def p_modified_psp(b):
    from funsor.sum_product import modified_partial_sum_product, dynamic_partial_sum_product
    T = b.rng.randint(2, 4)
    f1 = b.tensor([("x_0", 2)], (), kind="pos").log()
    f2 = b.tensor([("time", T), ("x_prev", 2), ("x_curr", 2)], (), kind="pos").log()
    f3 = b.tensor([("time", T), ("x_curr", 2), ("y", 3)], (), kind="pos").log()
    b.hold(f1, f2, f3)
    for fn in (modified_partial_sum_product, dynamic_partial_sum_product):
        b.t(lambda: fn(ops.logaddexp, ops.add, [f1, f2, f3],
                       eliminate=frozenset(["time", "x_0", "x_prev", "x_curr", "y"]),
                       plate_to_step={"time": frozenset([("x_0", "x_prev", "x_curr")])}
                       if fn is modified_partial_sum_product else {"time": {"x_prev": "x_curr"}}))
    from funsor.sum_product import partial_unroll
    b.t(lambda: partial_unroll([f1, f2, f3], eliminate=frozenset(["time", "x_0", "x_prev", "x_curr", "y"]),
                               plate_to_step={"time": frozenset([("x_0", "x_prev", "x_curr")])}))


@program
def p_recipes(b):
    from funsor.recipes import forward_filter_backward_rsample, forward_filter_backward_precondition
    np.random.seed(b.rng.randrange(2 ** 31))
    g1 = b.gaussian([], [("a", ())])
    g2 = b.gaussian([], [("a", ()), ("b", ())])
    g3 = b.gaussian([], [("b", ()), ("c", ())])
    factors = {"a": g1, "b": g2, "c": g3}
    elim = frozenset("abc")
    plates = frozenset()
    b.t(lambda: forward_filter_backward_rsample(factors, elim, plates, OrderedDict(particle=Bint[2])))
    b.t(lambda: forward_filter_backward_precondition(factors, elim, plates))


@program
def p_scatter_affine(b):
    from funsor.terms import Scatter
    from funsor.affine import affine_inputs, extract_affine, is_affine
    src = b.tensor([("i", 3)], (), kind="pos")
    idx = b.tensor([("i", 3)], (), kind="int:4", dtype=4)
    b.t(lambda: Scatter(ops.add, (("k", idx),), src, frozenset([Variable("i", Bint[3])])))
    b.t(lambda: Scatter(ops.logaddexp, (("k", idx),), src, frozenset([Variable("i", Bint[3])])))
    x = Variable("x", Reals[2])
    y = Variable("y", Real)
    m = b.tensor([("i", 3)], (2, 2))
    c = b.tensor([], (2,))
    with lazy:
        e = m @ x + c * y
    b.hold(e)
    affine_inputs(e)
    is_affine(e)
    const, coeffs = extract_affine(e)
    b.hold(const, [v[0] for v in coeffs.values()])
    affine_inputs(e)   # cached second time


@program
def p_scatter_delta_constant(b):
    from funsor.terms import Scatter
    from funsor.constant import Constant
    n = 5
    i = Tensor(b.own(np.array([0, 0, 1, 2, 2])), b.inputs([("n", n)]), 3)
    j = Tensor(b.own(np.array([0, 1, 0, 2, 3])), b.inputs([("n", n)]), 4)
    src = b.tensor([("n", n)], (), kind="pos")
    b.hold(i, j)
    rv = frozenset({Variable("n", Bint[n])})
    for op in (ops.add, ops.logaddexp, ops.max):
        b.t(lambda: Scatter(op, (("i", i), ("j", j)), src, rv))
    b.t(lambda: Scatter(ops.add, (("i", Number(0, 3)),), src, frozenset()))
    src2 = b.tensor([("bb", 4), ("n", 3)], ())
    i2 = Tensor(b.own(np.array([[0, 1], [3, 4], [5, 6]])), b.inputs([("n", 3), ("m", 2)]), 7)
    b.t(lambda: Scatter(ops.add, (("i", i2),), src2, frozenset({Variable("n", Bint[3]), Variable("m", Bint[2])})))
    k = Variable("k", Bint[3])
    src3 = b.tensor([("k", 3)], ())
    b.t(lambda: Scatter(ops.add, (("i", k), ("j", k)), src3, frozenset({k})))
    # Delta with change of variables (solve_unary) and log-density
    pt = b.tensor([("i", 2)], (2,), kind="pos")
    ld = b.tensor([("i", 2)], ())
    x = Variable("x", Reals[2])
    d = Delta("y", pt, ld)
    b.hold(d)
    for f in (ops.exp, ops.log, ops.neg, ops.sigmoid, ops.tanh):
        b.t(lambda: d(y=f(x)))
    b.t(lambda: d(y=x + 1.0))
    b.t(lambda: d(y=x * 2.0))
    b.t(lambda: (d + d(y="z")).reduce(ops.logaddexp, "y"))
    b.t(lambda: d.reduce(ops.add, "i"))
    b.t(lambda: d.reduce(ops.logaddexp, frozenset(["i", "y"])))
    # Constant
    data = b.tensor([("i", 2)], ())
    c = Constant(OrderedDict(bb=Real), data)
    b.hold(c)
    v = Variable("v", Real)
    b.t(lambda: c(bb=v))
    b.t(lambda: c(bb=b.tensor([("a", 2)], ())))
    b.t(lambda: c(i=0))
    b.t(lambda: c + c)
    b.t(lambda: c.reduce(ops.add, "i"))
    b.t(lambda: c.reduce(ops.add, "bb"))
    c2 = Constant(OrderedDict(x=Bint[3], y=Real), data)
    b.t(lambda: c2(x=0))
    b.t(lambda: c2(y=b.tensor([("a", 2)], ())))


@program
def p_tracer_factory(b):
    from funsor.ops.tracer import trace_function
    from funsor.factory import make_funsor, Bound, Fresh, Value, Has
    from funsor.domains import Array
    from funsor.op_factory import make_op

    def fn(x, y):
        return ops.add(x, ops.mul(x, y))

    data = dict(x=b.arr((3,)), y=b.arr((2, 1)))
    tr = trace_function(fn, data)
    tr(**data)

    def fn2(x, y):
        return (1, x, y, ops.mul(x, y))
    b.t(lambda: trace_function(fn2, data)(**data) and None)

    @make_funsor
    def GetitemGetitem(
        x: Funsor,
        i: Fresh[lambda x: Bint[x.shape[0]]],
        j: Fresh[lambda x: Bint[x.shape[1]]],
    ) -> Fresh[lambda x: Array[x.dtype, x.shape[2:]]]:
        return x[i][j]

    x = b.tensor(b.pick_inputs(hi=2), (3, 4))
    b.t(lambda: GetitemGetitem(x, "i9", "j9"))
    with lazy:
        lg = GetitemGetitem(x, "i9", "j9")
    b.hold(lg)
    b.t(lambda: reinterpret(lg))
    b.t(lambda: lg(i9=0))

    @make_funsor
    def LambdaLambda(i: Bound, j: Bound, x: Funsor) -> Fresh[lambda i, j, x: Array[x.dtype, (i.size, j.size) + x.shape]]:
        return Lambda(i, Lambda(j, x))

    y = b.tensor([("i", 2), ("j", 3)], ())
    b.t(lambda: LambdaLambda("i", "j", y))

    @make_op
    def softmax0(v: Reals[3]) -> Reals[3]:
        e = np.exp(v - v.max())
        return e / e.sum()
    z = b.tensor([("i", 2)], (3,))
    b.t(lambda: softmax0(z))
    with lazy:
        lz = softmax0(Variable("q", Reals[3]))
    b.hold(lz)
    b.t(lambda: lz(q=z))


@program
def p_cat_domains(b):
    # ops.cat / ops.stack on funsors, getitem with a Variable index on one axis, einsum broadcast helper
    x = b.tensor(b.pick_inputs(hi=2), (2, 3))
    y = b.tensor(b.pick_inputs(hi=2), (4, 3))
    b.t(lambda: ops.cat([x, y]))
    b.t(lambda: ops.stack([x, x + 1.0]))
    v = Variable("v", Bint[3])
    b.t(lambda: x[:, v])
    b.t(lambda: x[Variable("u", Bint[2]), v])
    b.t(lambda: x[1, v])
    from funsor.einsum.util import broadcast_all
    b.t(lambda: broadcast_all(x.data, y.data[:2]) and None)
    # adjoint through Subs / Cat
    f = b.tensor([("i", 3), ("j", 2)], ())
    idx = b.tensor([("k", 2)], (), kind="int:3", dtype=3)
    with AdjointTape() as tape:
        out = f(i=idx).reduce(ops.logaddexp)
    b.t(lambda: tape.adjoint(ops.logaddexp, ops.add, out, (f,)))
    c1 = b.tensor([("t", 2), ("j", 2)], ())
    c2 = b.tensor([("t", 3), ("j", 2)], ())
    with AdjointTape() as tape2:
        out2 = Cat("t", (c1, c2)).reduce(ops.logaddexp)
    b.t(lambda: tape2.adjoint(ops.logaddexp, ops.add, out2, (c1, c2)))
    # partial_sum_product with a plate-dependent chain of eliminations
    fs = [b.tensor([("a", 2)], (), kind="pos"), b.tensor([("a", 2), ("p", 2), ("b", 3)], (), kind="pos"),
          b.tensor([("b", 3), ("p", 2), ("q", 2), ("c", 2)], (), kind="pos")]
    b.t(lambda: partial_sum_product(ops.add, ops.mul, fs, eliminate=frozenset("abcpq"), plates=frozenset("pq")))
    b.t(lambda: partial_sum_product(ops.add, ops.mul, fs, eliminate=frozenset("bcq"), plates=frozenset("pq")))
    b.t(lambda: sum_product(ops.add, ops.mul, fs, eliminate=frozenset("abcq"), plates=frozenset("pq")))


@program
def p_logspace_contraction(b):
    """Log-space contractions whose operands do / do not mention the reduced variables, with -inf cells."""
    from funsor.einsum import einsum as feinsum
    fi = b.tensor([("i", 3)], (), kind="logp")
    fij = b.tensor([("i", 3), ("j", 2)], (), kind="logp")
    fj = b.tensor([("j", 2)], (), kind="logp")
    fjk = b.tensor([("j", 2), ("k", 2)], (), kind="logp")
    f0 = b.tensor([], (), kind="logp")
    sizes = {"i": 3, "j": 2, "k": 2}
    ops_ = [fi, fij, fj, fjk, f0]
    for _ in range(8):
        l, r = b.rng.sample(ops_, 2)
        names = sorted(set(l.inputs) | set(r.inputs) | {"k"})
        rv = frozenset(Variable(n, Bint[sizes[n]]) for n in b.rng.sample(names, b.rng.randint(1, len(names))))
        for red, bin_ in ((ops.logaddexp, ops.add), (ops.max, ops.add), (ops.min, ops.add)):
            b.t(lambda: Contraction(red, bin_, rv, l, r))
        b.t(lambda: Contraction(ops.logaddexp, ops.add, rv, l))
        b.t(lambda: (l + r).reduce(ops.logaddexp, frozenset(v.name for v in rv) & (set(l.inputs) | set(r.inputs))))
    b.t(lambda: Contraction(ops.logaddexp, ops.add, frozenset({Variable("j", Bint[2])}), fi, fij))
    b.t(lambda: Contraction(ops.logaddexp, ops.add, frozenset({Variable("j", Bint[2])}), fij, fi))
    b.t(lambda: Contraction(ops.logaddexp, ops.add, frozenset({Variable("j", Bint[2])}), fi, fij, fjk))
    for eq, args in (("i,ij->i", (fi, fij)), ("i,ij->", (fi, fij)), ("ij,j,jk->ik", (fij, fj, fjk)), ("i,j->ij", (fi, fj)),
                     (",i->i", (f0, fi))):
        for backend in ("funsor.einsum.numpy_log", "funsor.einsum.numpy_map"):
            b.t(lambda: feinsum(eq, *args, backend=backend))
    b.t(lambda: sum_product(ops.logaddexp, ops.add, [fi, fij, fjk], eliminate=frozenset("jk"), plates=frozenset()))
    b.t(lambda: sum_product(ops.logaddexp, ops.add, [fi, fij, fjk], eliminate=frozenset("ijk"), plates=frozenset("k")))
    with lazy:
        e = (fi + fij + fjk).reduce(ops.logaddexp, frozenset(["j", "k"]))
    b.hold(e)
    b.t(lambda: reinterpret(apply_optimizer(e)))
    b.t(lambda: reinterpret(e))
    # linear space with exact zeros
    gi = b.tensor([("i", 3)], (), kind="unit")
    gij = b.tensor([("i", 3), ("j", 2)], (), kind="unit")
    b.t(lambda: Contraction(ops.add, ops.mul, frozenset({Variable("j", Bint[2])}), gi, gij))
    b.t(lambda: feinsum("i,ij->i", gi, gij, backend="numpy"))
    b.t(lambda: feinsum("i,ij->i", gi.log(), gij.log(), backend="funsor.einsum.numpy_log"))


NONEAGER = (("lazy", lazy), ("reflect", reflect), ("normalize", normalize))


def asym_children(b):
    """Children whose input sets differ in every direction (each has inputs the others lack; the
    bound/reduced name `j` occurs in only some of them), incl. lazy compound terms and a Gaussian."""
    xa = b.tensor([("a", 3)], ())
    xaj = b.tensor([("a", 3), ("j", 3)], ())
    xjk = b.tensor([("j", 3), ("k", 2)], ())
    xk = b.tensor([("k", 2)], ())
    x0 = b.tensor([], ())
    with lazy:
        la = xa + Variable("r", Real)           # compound lazy child with a real input
        lk = xk * xjk
    b.hold(la, lk)
    return {"a": xa, "aj": xaj, "jk": xjk, "k": xk, "0": x0, "la": la, "lk": lk}


@program
def p_lazy_constructors(b):
    """Every term class whose __init__ derives inputs from its children, constructed under lazy /
    reflect / normalize with asymmetric children; all children are held and re-checked afterwards."""
    from funsor.terms import Scatter, Approximate, Finitary, Align
    from funsor.constant import Constant
    c = asym_children(b)
    g1 = b.gaussian([("a", 3)], [("x", ())])
    g2 = b.gaussian([("j", 3)], [("x", ()), ("y", ())])
    T = 3
    trans = b.tensor([("time", T), ("a", 3), ("p", 2), ("q", 2)], (), kind="pos")
    idx = b.tensor([("j", 3)], (), kind="int:4", dtype=4)
    pt = b.tensor([("a", 3)], ())
    ld = b.tensor([("k", 2)], ())
    vj = Variable("j", Bint[3])
    vk = Variable("k", Bint[2])
    va = Variable("a", Bint[3])
    fx = c["a"] + Variable("x_j", Real)
    b.hold(fx)
    keys = list(c)
    for iname, interp in NONEAGER:
        l, r = (c[k] for k in b.rng.sample(keys, 2))
        def under(th):
            def go():
                with interp:
                    return th()
            return b.t(go)
        for m_, g_ in ((c["a"], c["aj"]), (c["aj"], c["a"]), (c["la"], c["jk"]), (c["k"], c["aj"]), (l, r)):
            under(lambda: Approximate(ops.logaddexp, m_, g_, frozenset([vj])))
            under(lambda: m_.approximate(ops.logaddexp, g_, "j"))
            under(lambda: Binary(ops.add, m_, g_))
            under(lambda: Contraction(ops.logaddexp, ops.add, frozenset([vj]), m_, g_))
            under(lambda: Contraction(ops.add, ops.mul, frozenset([vj, vk]), m_, g_, c["k"]))
            under(lambda: Integrate(m_, g_, frozenset([vj])))
            under(lambda: Stack("s", (m_, g_)))
            under(lambda: FTuple((m_, g_)))
            under(lambda: Finitary(ops.stack, (m_, g_)))
            under(lambda: Subs(m_, (("a", g_),)) if g_.output == Bint[3] else Subs(m_, (("a", idx),)))
            under(lambda: Subs(g_, (("j", Variable("a", Bint[3])),)))
            under(lambda: m_(a=idx))
        under(lambda: Reduce(ops.add, c["aj"], frozenset([vj, vk])))
        under(lambda: Reduce(ops.logaddexp, c["la"], frozenset([vj])))
        under(lambda: Unary(ops.neg, c["la"]))
        under(lambda: Scatter(ops.add, (("i", idx),), c["aj"], frozenset([vj])))
        under(lambda: Scatter(ops.add, (("i", idx), ("h", idx)), c["jk"], frozenset([vj])))
        under(lambda: Independent(fx, "x", "j", "x_j"))
        under(lambda: Independent(c["aj"] + Variable("x_j", Real), "x", "j", "x_j"))
        under(lambda: MarkovProduct(ops.add, ops.mul, trans, Variable("time", Bint[T]), {"p": "q"}))
        under(lambda: MarkovProduct(ops.logaddexp, ops.add, trans.log(), "time", {"p": "q"}))
        under(lambda: Cat("j", (c["aj"], c["jk"](k=0)), "j"))
        under(lambda: Cat("c", (c["aj"](j="c"), c["jk"](j="c"))))
        under(lambda: Lambda(vj, c["aj"]))
        under(lambda: Lambda(vk, c["aj"]))
        under(lambda: Lambda(va, c["la"]))
        under(lambda: Delta("v", pt, ld))
        under(lambda: Delta((("v", (pt, ld)), ("w", (c["k"], c["0"])))))
        under(lambda: Delta("v", pt) + g1)
        under(lambda: g1 + g2)
        under(lambda: g1 + c["jk"])
        under(lambda: g2(x=c["aj"]))
        under(lambda: g2.reduce(ops.logaddexp, "y"))
        under(lambda: Constant(OrderedDict(z=Real), c["aj"]))
        under(lambda: Constant(OrderedDict(a=Bint[3], z=Real), c["jk"]))
        under(lambda: Align(c["aj"], ("j", "a")))
        under(lambda: c["aj"].align(("j", "a")))
        under(lambda: c["a"].reduce(ops.add, "j") + c["jk"].reduce(ops.logaddexp, "a"))
        # re-interpreting terms built above (alpha-renaming re-runs the constructors)
        with interp:
            q = b.t(lambda: Approximate(ops.logaddexp, c["la"], c["jk"], frozenset([vj])))
        if q is not None:
            b.t(lambda: reinterpret(q))
            b.t(lambda: q(a=0))
    # the call shape funsor.adjoint uses: Approximate(sum_op, out_adj, out_adj * arg, reduced_vars)
    with AdjointTape() as tape:
        with lazy:
            e = c["aj"].reduce(ops.logaddexp, "j") + c["a"]
        out = reinterpret(e)
    b.t(lambda: tape.adjoint(ops.logaddexp, ops.add, out, (c["aj"], c["a"])))


@program
def p_gaussian_histories(b):
    """Multi-step histories on ONE Gaussian term: op A on g, then op B on g, …; after every step all
    snapshots (leaf arrays, held results, cached derived arrays such as _mean/_precision) are re-verified
    and g's observable values under a fixed probe are compared with the ones taken before the history."""
    from funsor.approximations import (compute_argmax, argmax_approximate, mean_approximate,
                                       laplace_approximate)
    np.random.seed(b.rng.randrange(2 ** 31))
    D = b.rng.choice([(2,), (3,), (2, 2), (), (2,)])
    bat = b.rng.choice([[], [("i", 3)], [("i", 2)]])
    two = b.rng.random() < 0.35
    reals = [("x", D)] + ([("y", (2,))] if two else [])
    g = b.gaussian(bat, reals)
    other = b.gaussian([], [("x", D)])
    x = Variable("x", Reals[D] if D else Real)
    allreal = frozenset(n for n, _ in reals)
    allvars = frozenset(Variable(n, Reals[sh] if sh else Real) for n, sh in reals)
    probe = {n: b.tensor([], sh) for n, sh in reals}
    t = b.tensor(bat, ()) if bat else None
    with normalize:
        appr = g.approximate(ops.logaddexp, g, allreal)
    b.hold(appr)

    def observe():
        out = []
        for th in (lambda: g(**probe).data, lambda: g.reduce(ops.logaddexp, allreal).data,
                   lambda: compute_argmax(g, allvars)["x"].data, lambda: g._mean, lambda: g._precision,
                   lambda: g.log_normalizer.data, lambda: Integrate(g, x, allvars).data if not two else None):
            try:
                with np.errstate(all="ignore"):
                    v = th()
                out.append(None if v is None else (np.asarray(v).shape, np.asarray(v).tobytes()))
            except Exception as e:
                if is_readonly_error(e):
                    raise
                out.append(("exc", type(e).__name__))
        return out

    def reint(interp):
        with interp:
            return reinterpret(appr)

    steps = {
        "Integrate(g, x, {x})": lambda: Integrate(g, x, allvars),
        "Integrate(g, 2x+1, {x})": lambda: Integrate(g, x * 2.0 + 1.0, allvars),
        "Integrate(g, other, {x})": lambda: Integrate(g, other, allvars),
        "Integrate(g, g, {x})": lambda: Integrate(g, g, allvars),
        "compute_argmax(g)": lambda: compute_argmax(g, allvars),
        "argmax_approximate": lambda: reint(argmax_approximate),
        "mean_approximate": lambda: reint(mean_approximate),
        "laplace_approximate": lambda: reint(laplace_approximate),
        "g.reduce(logaddexp, x)": lambda: g.reduce(ops.logaddexp, "x"),
        "g.reduce(logaddexp)": lambda: g.reduce(ops.logaddexp, allreal),
        "g(x=probe)": lambda: g(x=probe["x"]),
        "g(x=affine)": lambda: g(x=Variable("w", Reals[D] if D else Real) * 2.0 + probe["x"]),
        "g.sample(x)": lambda: g.sample(frozenset(["x"])),
        "g.sample(all, particles)": lambda: g.sample(allreal, OrderedDict(particle=Bint[2])),
        "g + other": lambda: g + other,
        "g + g": lambda: g + g,
        "g - log_normalizer": lambda: g - g.log_normalizer,
        "MonteCarlo Integrate": lambda: _mc_integrate(g, x, allvars),
    }
    if bat:
        n0 = bat[0][0]
        def mm():
            with moment_matching:
                return (g + t).reduce(ops.logaddexp, n0)
        steps["moment_matching reduce"] = mm
        steps["g(i=0)"] = lambda: g(**{n0: 0})
        steps["g.reduce(add, i)"] = lambda: g.reduce(ops.add, n0)
    if two:
        steps["g.reduce(logaddexp, y)"] = lambda: g.reduce(ops.logaddexp, "y")
        steps["Integrate(g, y, all)"] = lambda: Integrate(g, Variable("y", Reals[2]), allvars)
    obs0 = observe()
    bad0 = b.mon.check(since=b.since)
    if bad0:
        raise MutationObserved(["observe g (probe substitution, mass, mode, first moment)"], bad0)
    names = list(steps)
    for _ in range(b.rng.randint(3, 8)):
        label = b.rng.choice(names + ["Integrate(g, x, {x})", "compute_argmax(g)"])
        b.step(label, steps[label])
        obs = observe()
        if obs != obs0:
            which = [i for i, (u, v) in enumerate(zip(obs0, obs)) if u != v]
            names_ = ["g(probe)", "log mass", "mode", "_mean", "_precision", "log_normalizer", "first moment"]
            raise MutationObserved(list(b.history), [("observable", "value of g changed: " + ", ".join(names_[i] for i in which))])
        bad = b.mon.check(since=b.since)
        if bad:
            raise MutationObserved(list(b.history) + ["observe g"], bad)


def _mc_integrate(g, x, allvars):
    with MonteCarlo(particle=Bint[3]):
        return Integrate(g, x, allvars)


@program
def p_approximations(b):
    """Approximation entry points on held Tensors: compute_argmax and Funsor.approximate(op, guide, vars)
    under argmax / laplace / mean / moment-matching / MonteCarlo, with guide = Tensor over a raw user array
    (with nan cells / -inf rows), guide = normalised intermediate, single and multiple approximated
    variables in leading / non-leading position."""
    from funsor.approximations import (compute_argmax, argmax_approximate, mean_approximate,
                                       laplace_approximate)
    np.random.seed(b.rng.randrange(2 ** 31))
    ns = [("p", 3), ("i", 3), ("q", 2)]
    b.rng.shuffle(ns)
    ns = ns[: b.rng.randint(2, 3)] if ("i", 3) in ns[:2] else [("i", 3)] + ns[:1]
    sizes = dict(ns)
    w = b.tensor(ns, (), kind="logp")
    special = b.rng.choice([float("nan"), float("nan"), float("-inf"), float("inf")])
    raw = b.own(b.inject(np.asarray(b.npr.randn(*[s_ for _, s_ in ns])),
                         always=(special, b.rng.choice(["one", "some", "row"]))))
    graw = b.hold(Tensor(raw, b.inputs(ns)))
    # an all -inf row, then normalised: the row becomes nan (-inf - -inf)
    lw = b.own(b.inject(np.asarray(b.npr.randn(*[s_ for _, s_ in ns])), always=(float("-inf"), "row")))
    tw = b.hold(Tensor(lw, b.inputs(ns)))
    names = [n for n, _ in ns]
    gnorm = b.t(lambda: tw - tw.reduce(ops.logaddexp, "i"))
    gnorm2 = b.t(lambda: w - w.reduce(ops.logaddexp, names[-1]))
    model = b.tensor(ns, ())
    guides = [g_ for g_ in (graw, gnorm, gnorm2, w, tw) if g_ is not None]
    varsets = [frozenset(["i"]), frozenset([names[0]]), frozenset([names[-1]]), frozenset(names[:2]),
               frozenset(names[-2:]), frozenset(names)]
    interps = [argmax_approximate, laplace_approximate, mean_approximate, moment_matching, eager,
               MonteCarlo(), MonteCarlo(particle=Bint[2])]
    for g_ in b.rng.sample(guides, min(3, len(guides))):
        for vs in b.rng.sample(varsets, 2):
            vv = frozenset(Variable(n, Bint[sizes[n]]) for n in vs)
            b.step(f"compute_argmax(guide, {sorted(vs)})", lambda: compute_argmax(g_, vv))
            for op in (ops.logaddexp, ops.max):
                with normalize:
                    lazy_ap = b.t(lambda: model.approximate(op, g_, vs))
                for interp in b.rng.sample(interps, 2):
                    def go():
                        with interp:
                            return model.approximate(op, g_, vs)
                    b.step(f"model.approximate({op}, guide, {sorted(vs)}) under {getattr(interp, '__name__', type(interp).__name__)}", go)
                    if lazy_ap is not None:
                        def go2():
                            with interp:
                                return reinterpret(lazy_ap)
                        b.t(go2)
    # adjoint under argmax_approximate (uses Approximate(sum_op, out_adj, out_adj * arg, vars))
    with argmax_approximate:
        with AdjointTape() as tape:
            out = (graw + model).reduce(ops.logaddexp, frozenset(names))
        b.t(lambda: tape.adjoint(ops.logaddexp, ops.add, out, (graw, model)))


def index_tensor(b, size, ns=(), dtype=np.int64):
    """A held integer index Tensor over a monitored user array with values in [0, size)."""
    shape = tuple(s_ for _, s_ in ns)
    a = b.npr.randint(0, size, size=shape).astype(dtype)
    if a.size and b.rng.random() < 0.5:
        a.reshape(-1)[b.npr.randint(a.size)] = b.rng.choice([0, size - 1])
    arr = b.mon.register(a, "index")
    return b.hold(Tensor(arr, b.inputs(list(ns)), size))


@program
def p_index_terms(b):
    """Symbolic index terms (Slice, Variable) and advanced indexing with HELD integer Tensors: every
    combination of start in {0, >0} x step in {1, >1}; indices int64/int32, with and without own inputs;
    Slices, Numbers; fused lazy substitutions; Stack/Cat name substitution; each index object is then
    RE-USED on another tensor and the result compared with plain numpy indexing of the original values."""
    n = 10
    x = b.tensor([("i", n), ("j", 3)], ())
    y = b.tensor([("i", n)], (2,))
    xs = Stack("s", tuple(b.tensor([("j", 3)], ()) for _ in range(4)))
    cat = Cat("c", (b.tensor([("c", 4), ("j", 3)], ()), b.tensor([("c", 6)], ())))
    b.hold(xs, cat)
    combos = [(0, 1), (2, 1), (0, 2), (1, 3), (3, 1), (2, 2)]
    # a seed-rotated subset per run: always one start>0/step=1 slice, plus two of the others
    for start, step in [b.rng.choice([(2, 1), (3, 1)])] + b.rng.sample(combos, 2):
        stop = b.rng.randint(start + 1, n)
        size = len(range(start, stop, step))
        sl = Slice("t", start, stop, step, n)
        b.hold(sl)
        # re-use targets whose indexed input has the slice's size
        yk = b.tensor([("k", size)], (2,))
        xsk = Stack("s", tuple(b.tensor([("j", 3)], ()) for _ in range(size))) if size <= 4 else None
        c1 = b.rng.randint(1, size) if size > 1 else 1
        catk = Cat("c", (b.tensor([("c", c1), ("j", 3)], ()),) + ((b.tensor([("c", size - c1)], ()),) if size > c1 else ()))
        b.hold(catk)
        idxs = [index_tensor(b, size, (), np.int64), index_tensor(b, size, [("a", 3)], np.int64),
                index_tensor(b, size, [("a", 2), ("bb", 2)], np.int32), index_tensor(b, size, [("j", 3)], np.int64)]
        for idx in b.rng.sample(idxs, 2):
            before = np.array(idx.data)
            label = f"Slice('t',{start},{stop},{step},{n})(t=idx{tuple(idx.inputs)}:{idx.data.dtype})"
            r = b.step(label, lambda: sl(t=idx))
            if r is not None and isinstance(r, Tensor):
                expect = start + step * before
                if not np.array_equal(np.asarray(r.data), expect):
                    raise MutationObserved(list(b.history), [("value", f"Slice(t=idx) returned {np.asarray(r.data).tolist()} expected {expect.tolist()}")])
            # fused lazy substitutions and direct advanced indexing with the SAME index object
            b.step("x(i=Slice)(t=idx)", lambda: x(i=sl)(t=idx))
            with lazy:
                lz = b.t(lambda: x(i=sl))
            if lz is not None:
                b.step("lazy x(i=Slice) then (t=idx)", lambda: lz(t=idx))
            with lazy:
                lz2 = b.t(lambda: y[Variable("i", Bint[n])](i=sl))
            if lz2 is not None:
                b.step("lazy y[i](i=Slice) then (t=idx)", lambda: lz2(t=idx))
            # re-use of the index object on another tensor: value must equal numpy indexing with `before`
            if xsk is not None:
                b.step("Stack(s=idx) (name substitution, re-using idx)", lambda: xsk(s=idx))
            r3 = b.step("yk(k=idx) re-using idx", lambda: yk(k=idx))
            if isinstance(r3, Tensor) and not idx.inputs:
                if not np.array_equal(np.asarray(r3.data), np.asarray(yk.data)[int(before)], equal_nan=True):
                    raise MutationObserved(list(b.history), [("value", "yk(k=idx) differs from yk.data[idx0]: index object changed")])
            b.step("Cat(c=idx) re-using idx", lambda: catk(c=idx))
        b.step("Slice(t=Slice)", lambda: sl(t=Slice("u", 0, size, 1, size)))
        if size > 1:
            b.step("Slice(t=strided Slice)", lambda: sl(t=Slice("u", 1, size, 2, size)))
        b.step("Slice(t=Number)", lambda: sl(t=Number(size - 1, size)))
        b.step("Slice(t=Variable)", lambda: sl(t=Variable("w", Bint[size])))
        b.step("x(i=Slice)", lambda: x(i=sl))
        b.step("cat(c=Slice)", lambda: cat(c=Slice("t", start, stop, step, 10)))
    # Variable(name)(name=idx), advanced indexing x[idx], x[idx, idx2]
    idx = index_tensor(b, n, [("a", 3)])
    idx0 = index_tensor(b, n, ())
    jdx = index_tensor(b, 3, [("a", 3)], np.int32)
    v = Variable("i", Bint[n])
    b.step("Variable('i')(i=idx)", lambda: v(i=idx))
    b.step("Variable('i')(i=idx0)", lambda: v(i=idx0))
    b.step("x(i=idx, j=jdx)", lambda: x(i=idx, j=jdx))
    b.step("y[idx]-style: y(i=idx)[jdx2]", lambda: y(i=idx)[index_tensor(b, 2, [("a", 3)])])
    z = b.tensor([], (n, 3))
    b.step("z[idx]", lambda: z[idx])
    b.step("z[idx, jdx]", lambda: z[idx, jdx])
    b.step("z[idx0]", lambda: z[idx0])
    b.step("(v * 2)(i=idx)", lambda: (v * 2)(i=idx))
    with lazy:
        e = Subs(x, (("i", v),))
    b.step("lazy Subs(x, i=v)(i=idx)", lambda: e(i=idx))


@program
def p_scalar_index(b):
    """Scalar indices — held 0-d integer Tensor, 0-d ndarray, np.int64, Python int, Number — substituted into
    LAZY Cat / Stack / Slice / Variable terms (parts mention a free real variable, or built under reflect /
    lazy) at positions in the first, middle and last part, twice with the SAME index object; the selected
    value is compared with numpy indexing of the concatenation by the index's ORIGINAL value."""
    z = Variable("z", Real)
    sizes = [b.rng.randint(1, 3) for _ in range(3)]
    parts_t = [b.tensor([("i", s_)], ()) for s_ in sizes]
    total = sum(sizes)
    full = np.concatenate([np.asarray(p_.data) for p_ in parts_t])
    cat_free = Cat("i", tuple(p_ * z for p_ in parts_t))           # stays lazy: free real variable
    with reflect:
        cat_refl = Cat("i", tuple(parts_t))
    with lazy:
        cat_lazy = Cat("c", tuple(p_(i="c") for p_ in parts_t), "c")
        st_lazy = Stack("s", tuple(parts_t[0](i=0) * 1.0 for _ in range(total)))
    st_free = Stack("s", tuple(b.tensor([], ()) * z for _ in range(total)))
    sl = Slice("t", 1, total + 1, 1, total + 2)
    v = Variable("i", Bint[total])
    b.hold(cat_free, cat_refl, cat_lazy, st_lazy, st_free, sl)
    positions = sorted({0, sizes[0] - 1, sizes[0], sizes[0] + sizes[1] - 1, sizes[0] + sizes[1], total - 1})
    for pos in b.rng.sample(positions, min(2, len(positions))) + [b.rng.choice([p_ for p_ in positions if p_ >= sizes[0]])]:
        k0 = b.mon.register(np.array(pos), "scalar index")               # user-held 0-d integer array
        idx = b.hold(Tensor(k0, OrderedDict(), total))
        k32 = b.mon.register(np.array(pos, dtype=np.int32), "scalar index")
        idx32 = b.hold(Tensor(k32, OrderedDict(), total))
        kinds = [("Tensor0d:int64", idx), ("Tensor0d:int32", idx32), ("ndarray0d", k0), ("np.int64", np.int64(pos)),
                 ("int", pos), ("Number", Number(pos, total))]
        for kname, k in b.rng.sample(kinds, 2) + [("Tensor0d:int64", idx)]:
            for rep_ in (1, 2):                                          # the same index object twice
                r = b.step(f"lazy Cat(parts*z)(i={kname}={pos}) #{rep_}", lambda: cat_free(i=k)(z=2.0))
                if isinstance(r, (Tensor, Number)) and not np.array_equal(np.asarray(r.data), 2.0 * full[pos], equal_nan=True):
                    raise MutationObserved(list(b.history), [("value", f"Cat(i={kname}) selected {np.asarray(r.data)} expected {2.0 * full[pos]} (position {pos})")])
                r = b.step(f"reflect Cat(i={kname}={pos}) #{rep_}", lambda: cat_refl(i=k))
                if isinstance(r, (Tensor, Number)) and not np.array_equal(np.asarray(r.data), full[pos], equal_nan=True):
                    raise MutationObserved(list(b.history), [("value", f"reflect Cat(i={kname}) selected {np.asarray(r.data)} expected {full[pos]}")])
                b.step(f"lazy Cat(c={kname}={pos}) #{rep_}", lambda: cat_lazy(c=k))
                b.step(f"lazy Stack(s={kname}={pos}) #{rep_}", lambda: st_lazy(s=k))
                b.step(f"Stack(parts*z)(s={kname}={pos}) #{rep_}", lambda: st_free(s=k)(z=1.5))
                b.step(f"Slice(t={kname}={pos}) #{rep_}", lambda: sl(t=k))
                b.step(f"Variable(i={kname}={pos}) #{rep_}", lambda: v(i=k))
                b.step(f"(v+1)(i={kname}) #{rep_}", lambda: (v + 1)(i=k))


_SWEEP_SKIP = {"__init__", "__new__", "__call__", "__class__", "__init_subclass__", "__subclasshook__", "__reduce__",
               "__reduce_ex__", "__getstate__", "__setstate__", "__setattr__", "__delattr__", "__getattribute__",
               "__dir__", "__sizeof__", "__format__", "__getitem__", "__class_getitem__", "__contains__"}
_SWEEP_ARGS = {
    "align": lambda t, b: (tuple(reversed(list(t.inputs))),),
    "reduce": lambda t, b: (ops.add,),
    "sample": lambda t, b: (frozenset(k for k, d in t.inputs.items()),),
    "unscaled_sample": None,
    "eager_subs": lambda t, b: (tuple((k, Number(0, d.size)) for k, d in list(t.inputs.items())[:1] if isinstance(d.dtype, int)),),
    "eager_reduce": lambda t, b: (ops.add, frozenset(list(t.inputs)[:1])),
    "eager_unary": lambda t, b: (ops.neg,),
    "reshape": lambda t, b: ((-1,),) if t.output.shape else ((),),
    "new_arange": lambda t, b: ("q", 3),
    "materialize": lambda t, b: (Variable("q", Bint[3]),),
    "requires_grad_": None,
    "astype": lambda t, b: ("float32",),
    "__eq__": lambda t, b: (t,), "__ne__": lambda t, b: (t,), "__add__": lambda t, b: (1.0,), "__radd__": lambda t, b: (1.0,),
    "__mul__": lambda t, b: (2.0,), "__rmul__": lambda t, b: (2.0,), "__sub__": lambda t, b: (1.0,), "__rsub__": lambda t, b: (1.0,),
    "__truediv__": lambda t, b: (2.0,), "__rtruediv__": lambda t, b: (2.0,), "__pow__": lambda t, b: (2.0,),
    "__lt__": lambda t, b: (0.0,), "__le__": lambda t, b: (0.0,), "__gt__": lambda t, b: (0.0,), "__ge__": lambda t, b: (0.0,),
    "__min__": lambda t, b: (0.0,), "__max__": lambda t, b: (0.0,),
}


def sweep_members(cls):
    """Public methods / properties of a term class found in the class dicts of its MRO (up to Funsor), at run
    time: (name, 'method'|'property').  Dunders that are ordinary protocol methods are included."""
    import inspect
    out = {}
    for c in cls.__mro__:
        if c is object:
            continue
        for n, v in vars(c).items():
            if n in out or n in _SWEEP_SKIP:
                continue
            if n.startswith("_") and not (n.startswith("__") and n.endswith("__")):
                continue
            if isinstance(v, property) or type(v).__name__ == "lazy_property":
                out[n] = "property"
            elif inspect.isfunction(v):
                out[n] = "method"
    return sorted(out.items())


@program
def p_method_sweep(b):
    """Generic method sweep: every public method / property of the classes of a few held terms (Tensor over an
    owning array and over a view, with +-inf / nan cells; bint Tensor; Number; Variable; Gaussian; Delta; lazy
    terms) is called with no arguments (or a simple argument from a small table); unknown signatures are
    skipped and counted.  Each call is a checked history step."""
    import inspect
    ev = b.rng.choice([(), (2,)])
    special = b.rng.choice([(float("inf"), "some"), (float("-inf"), "some"), (float("nan"), "one"), (float("inf"), "one")])
    raw = b.inject(np.asarray(b.npr.randn(3, *ev)), always=special)
    own = np.array(raw)                                   # owns its memory (base is None)
    b.mon.arrays.append(["owning array", own, digest(own), own, digest(own)])
    if b.mon.mode == "ro":
        own.flags.writeable = False
    t_own = b.hold(Tensor(own, b.inputs([("i", 3)])))
    t_view = b.tensor([("i", 3), ("j", 2)], ev)           # layout drawn by the monitor (view / broadcast / F-order)
    t_0d = b.hold(Tensor(b.mon.register(np.array(float("inf"))), OrderedDict()))
    terms = [t_own, t_view, t_0d, b.tensor([("i", 3)], (), kind="int:3", dtype=3), b.hold(Number(2.0)),
             b.hold(Variable("x", Reals[2])), b.gaussian([("i", 2)], [("x", (2,))]),
             b.hold(Delta("x", b.tensor([("i", 2)], (2,)))), b.hold(Slice("t", 1, 5, 2, 6))]
    with lazy:
        terms.append(b.hold(t_own + t_view))
        terms.append(b.hold(Cat("i", (t_own, t_own))))
    chosen = [t_own] + b.rng.sample(terms[1:], 1)
    for t in chosen:
        cname = type(t).__name__
        for name, kind in sweep_members(type(t)):
            if kind == "property":
                b.step(f"{cname}.{name}", lambda: getattr(t, name))
                continue
            try:
                m = getattr(t, name)
                sig_ = inspect.signature(m)
            except (TypeError, ValueError, AttributeError):
                b.skipped += 1
                continue
            req = [p for p in sig_.parameters.values()
                   if p.default is p.empty and p.kind in (p.POSITIONAL_ONLY, p.POSITIONAL_OR_KEYWORD)]
            if name in _SWEEP_ARGS:
                mk = _SWEEP_ARGS[name]
                if mk is None:
                    b.skipped += 1
                    continue
                args = mk(t, b)
            elif not req:
                args = ()
            else:
                b.skipped += 1        # unknown signature
                continue
            b.step(f"{cname}.{name}{args if args else '()'}"[:90], lambda: m(*args))
    for f_ in (repr, str, hash, bool, len, funsor.util.quote if hasattr(funsor.util, "quote") else repr):
        b.step(f"{getattr(f_, '__name__', 'f')}(t_own)", lambda: f_(t_own) and None)


def run_program(name, mon, rng, edge="auto"):
    """Run one program.  Returns (status, info): status in ok | declined | violation | harness-bug."""
    mon.rng = rng          # layout choices of this program's arrays come from its own PRNG (exact replay)
    b = B(mon, rng, edge)
    mon.last_b = b
    try:
        with np.errstate(all="ignore"):
            PROGRAMS[name](b)
    except MutationObserved as e:
        return "mutation", {"history": e.history, "changed": [f"{l}: {w}" for l, w in e.changed[:6]]}
    except Exception as e:
        msg = str(e)
        tb = traceback.extract_tb(e.__traceback__)
        if is_readonly_error(e):
            frames = [(os.path.abspath(f.filename), f.lineno, f.name, f.line) for f in tb]
            # innermost frame that belongs to funsor or to this harness (numpy/opt_einsum-internal Python
            # frames in between are attributed to whoever called them)
            own = [fr for fr in frames if fr[0].startswith(FUNSOR_DIR) or fr[0] == THIS_FILE]
            inner = own[-1] if own else frames[-1]
            in_funsor = [fr for fr in frames if fr[0].startswith(FUNSOR_DIR)]
            if inner[0].startswith(FUNSOR_DIR):
                return "violation", {"exception": msg, "where": f"{os.path.relpath(inner[0], FUNSOR_DIR)}:{inner[1]} in {inner[2]}: {inner[3]}",
                                     "stack": [f"{os.path.relpath(fr[0], FUNSOR_DIR)}:{fr[1]} {fr[2]}" for fr in in_funsor[-6:]]}
            return "harness-bug", {"exception": msg, "where": f"{inner[0]}:{inner[1]} {inner[3]}"}
        return "declined", {"exception": type(e).__name__, "msg": msg[:200],
                            "where": f"{os.path.basename(tb[-1].filename)}:{tb[-1].lineno}" if tb else ""}
    return "ok", None
