"""
C20 — correspondence stream for the object/container heap model (lean/FunsorVerif/Model/C20/Obj.lean).

Random straight-line programs over numpy arrays, dicts and ints (newarr / newobj / copyobj / alias / load / store /
del / setitem / const / augslot) are run (1) by the Lean model through the driver (`C20 orun`) and (2) on real
Python objects (dict API + numpy, identity-tracked).  Compared: completion, final array contents, final slot
tables, final registers (by identity), and the frame theorem `oframe_static(_partial)` is echoed on the real
objects: whenever the model's analysis accepts the program, every pre-existing array and dict is unchanged —
also when the run is cut short by an exception.
"""
import numpy as np

from fv.common import sx, parse_sx

RAISES = (KeyError, TypeError, IndexError, ValueError)


def gen_objprog(rng):
    narr = rng.randint(0, 2)
    nobj = rng.randint(0, 2)
    arrs = [[rng.randint(-3, 3) for _ in range(rng.choice([2, 2, 3]))] for _ in range(narr)]

    def rval():
        c = rng.random()
        if c < 0.4 and narr:
            b = rng.randrange(narr)
            return ["arr", b, list(range(len(arrs[b])))]
        if c < 0.75 and nobj:
            return ["obj", rng.randrange(nobj)]
        return ["imm", rng.randint(-2, 2)]

    objs = []
    for _ in range(nobj):
        keys = rng.sample(range(3), rng.randint(0, 2))
        objs.append([[k, rval()] for k in keys])
    regs = [rval() for _ in range(rng.randint(1, 4))]
    # type-directed generation (so that most programs run several instructions before raising, and a good share
    # is statically accepted): approximate type and freshness of every register, keys stored through it
    types = [v[0] for v in regs]
    fresh = [False] * len(regs)
    keys = [set(k for k, _ in objs[v[1]]) if v[0] == "obj" else set() for v in regs]
    instrs = []

    def push(ty, fr, ks=()):
        types.append(ty); fresh.append(fr); keys.append(set(ks))

    def pick(kind, want_fresh=False, need_keys=False):
        cand = [i for i, ty in enumerate(types) if ty == kind or ty == "?"]
        if need_keys and rng.random() < 0.85:
            ck = [i for i in cand if keys[i] and types[i] == kind]
            cand = ck or cand
        if not cand and rng.random() < 0.85:
            # nothing of the wanted kind yet: allocate one first
            if kind == "obj":
                instrs.append(["newobj"]); push("obj", True)
            elif kind == "arr":
                instrs.append(["newarr", rng.choice([2, 3]), rng.randint(-2, 2)]); push("arr", True)
            else:
                instrs.append(["const", rng.randint(-2, 2)]); push("imm", False)
            return len(types) - 1
        if want_fresh and rng.random() < 0.6:
            cf = [i for i in cand if fresh[i]]
            cand = cf or cand
        if cand and rng.random() < 0.9:
            return rng.choice(cand)
        return rng.randrange(len(types) + (1 if rng.random() < 0.05 else 0))

    def key(r):
        ks = sorted(keys[r]) if r < len(keys) else []
        if ks and rng.random() < 0.8:
            return rng.choice(ks)
        return rng.randrange(3)

    for _ in range(rng.randint(3, 9)):
        c = rng.random()
        if c < 0.08:
            instrs.append(["newarr", rng.choice([2, 3]), rng.randint(-2, 2)]); push("arr", True)
        elif c < 0.20:
            instrs.append(["newobj"]); push("obj", True)
        elif c < 0.28:
            r = pick("obj"); instrs.append(["copyobj", r]); push("obj", True, keys[r] if r < len(keys) else ())
        elif c < 0.34:
            r = pick(rng.choice(["obj", "arr", "imm"])); instrs.append(["alias", r])
            push(types[r] if r < len(types) else "?", fresh[r] if r < len(fresh) else False, keys[r] if r < len(keys) else ())
        elif c < 0.46:
            r = pick("obj", need_keys=True); instrs.append(["load", r, key(r)]); push("?", False, range(3))
        elif c < 0.70:
            r = pick("obj", True); k = rng.randrange(3)
            instrs.append(["store", r, k, pick(rng.choice(["obj", "arr", "imm", "imm"]))])
            if r < len(keys):
                keys[r].add(k)
        elif c < 0.76:
            r = pick("obj", True, need_keys=True); instrs.append(["del", r, key(r)])
        elif c < 0.84:
            r = pick("arr", True); instrs.append(["setitem", r, rng.randrange(3), rng.randint(5, 9)])
        elif c < 0.89:
            instrs.append(["const", rng.randint(-2, 2)]); push("imm", False)
        else:
            r = pick("obj", True, need_keys=True)
            instrs.append(["augslot", r, key(r), pick(rng.choice(["imm", "imm", "arr"])), int(rng.random() < 0.35)])
    return {"arrs": arrs, "objs": objs, "regs": regs, "instrs": instrs}


class OutsideModel(Exception):
    pass


def run_python(mp):
    """Execute on real Python objects.  Returns (completed, arrays, dicts, regs) with identity tracking."""
    arrays = [np.array(b, dtype=np.int64) for b in mp["arrs"]]
    dicts = [dict() for _ in mp["objs"]]

    def mk(v):
        if v[0] == "arr":
            return arrays[v[1]]
        if v[0] == "obj":
            return dicts[v[1]]
        return int(v[1])

    for d, sl in zip(dicts, mp["objs"]):
        for k, v in sl:
            d[k] = mk(v)
    R = [mk(v) for v in mp["regs"]]
    completed = True
    for ins in mp["instrs"]:
        op = ins[0]
        try:
            if op == "newarr":
                a = np.full(ins[1], ins[2], dtype=np.int64); arrays.append(a); R.append(a)
            elif op == "newobj":
                d = {}; dicts.append(d); R.append(d)
            elif op == "copyobj":
                d = {**R[ins[1]]}; dicts.append(d); R.append(d)
            elif op == "alias":
                R.append(R[ins[1]])
            elif op == "load":
                R.append(dict.__getitem__(R[ins[1]], ins[2]))
            elif op == "store":
                src = R[ins[3]]
                dict.__setitem__(R[ins[1]], ins[2], src)
            elif op == "del":
                dict.__delitem__(R[ins[1]], ins[2])
            elif op == "setitem":
                np.ndarray.__setitem__(R[ins[1]], ins[2], ins[3])
            elif op == "const":
                R.append(int(ins[1]))
            elif op == "augslot":
                d = R[ins[1]]
                cur = dict.__getitem__(d, ins[2])
                x = R[ins[3]]
                both_int = isinstance(cur, int) and isinstance(x, int)
                both_arr = isinstance(cur, np.ndarray) and isinstance(x, np.ndarray)
                if ins[4] and not isinstance(cur, int):
                    raise TypeError("guard: element must be immutable")   # the type test the guard column records
                if both_arr and cur.shape != x.shape:
                    raise ValueError("shape")      # the model has no broadcasting
                cur += x                           # the real augmented assignment …
                if not (both_int or both_arr):
                    raise OutsideModel()           # mixed int/array arithmetic succeeded: not modelled
                dict.__setitem__(d, ins[2], cur)   # … and the store back
        except RAISES:
            completed = False
            break
    return completed, arrays, dicts, R


def canon(v, arrays, dicts):
    if isinstance(v, np.ndarray):
        for i, a in enumerate(arrays):
            if a is v:
                return ("arr", i)
        return ("arr", None)
    if isinstance(v, dict):
        for i, d in enumerate(dicts):
            if d is v:
                return ("obj", i)
        return ("obj", None)
    return ("imm", int(v))


def lcanon(v):
    if v[0] == "arr":
        return ("arr", int(v[1]))
    if v[0] == "obj":
        return ("obj", int(v[1]))
    return ("imm", int(v[1]))


def objprog_cases(ctx, n):
    rng = ctx.rng
    progs = [gen_objprog(rng) for _ in range(n)]
    reqs = [f"C20 orun {sx(mp['arrs'])} {sx(mp['objs'])} {sx(mp['regs'])} {sx(mp['instrs'])}" for mp in progs]
    answers = ctx.driver.ask(reqs)
    for mp, req, ans in zip(progs, reqs, answers):
        if not ans.startswith("ok "):
            ctx.infra_errors.append(f"C20 driver (orun): {ans} for {req[:200]}")
            return
        d = {x[0]: x[1:] for x in parse_sx(ans[3:])}
        l_arrs = [[int(v) for v in b] for b in d["arrs"]]
        l_objs = [sorted((int(k), lcanon(v)) for k, v in sl) for sl in d["objs"]]
        l_regs = [lcanon(v) for v in d["regs"]]
        l_completed = d["completed"][0] == "true"
        l_static = d["static"][0] == "true"
        wit = {k: mp[k] for k in ("arrs", "objs", "regs", "instrs")}
        try:
            completed, arrays, dicts, R = run_python(mp)
        except OutsideModel:
            ctx.count("obj:outside-model(mixed int/array augmented assignment)")
            continue
        p_arrs = [[int(v) for v in a] for a in arrays]
        p_objs = [sorted((int(k), canon(v, arrays, dicts)) for k, v in dd.items()) for dd in dicts]
        p_regs = [canon(v, arrays, dicts) for v in R]
        for what, exp, got in (("completion", l_completed, completed), ("arrays", l_arrs, p_arrs),
                               ("slots", l_objs, p_objs), ("registers", l_regs, p_regs)):
            if exp != got:
                ctx.fail("correspondence", f"C20.object-model-vs-python:{what}", witness=wit,
                         expected=f"model {exp}", got=f"python {got}")
                return
        # echo of oframe_static / oframe_static_partial on the real objects
        pre_arr_ok = all(p_arrs[i] == [int(v) for v in mp["arrs"][i]] for i in range(len(mp["arrs"])))
        pre_obj_ok = all(p_objs[i] == sorted((int(k), lcanon(v)) for k, v in mp["objs"][i])
                         for i in range(len(mp["objs"])))
        unchanged = pre_arr_ok and pre_obj_ok
        if l_static and not unchanged:
            ctx.fail("correspondence", "C20.object-frame-theorem-echo", witness=wit,
                     expected="pre-existing arrays and dicts unchanged (program statically accepted)",
                     got=f"arrays {p_arrs} dicts {p_objs}")
            return
        nwrites = sum(1 for i in mp["instrs"] if i[0] in ("store", "del", "setitem", "augslot"))
        ctx.count("obj:static-ok" if l_static else "obj:static-rejected")
        ctx.count("obj:completed" if completed else "obj:raised")
        if not l_static:
            ctx.count("obj:rejected-and-mutated" if not unchanged else "obj:rejected-but-harmless")
        ctx.case(sample={"objprog": mp["instrs"][:6]} if ctx.evaluations < 3 else None,
                 nontrivial_key=("obj", str(wit)) if nwrites >= 1 else None)
