"""
fv/harness/c20_scan.py — the C20 translator: an AST scan of every store site in funsor that could
mutate an array or a term, with an intra-procedural, flow-sensitive provenance classification of the
object being written.

    scan_tree(root)            -> list[Site]      (root = <repo>/funsor)
    scan_source(text, file)    -> list[Site]      (used by the mini-program correspondence)

The analysis is a small abstract interpreter over Python statements.  Abstract values of expressions:

    FA   fresh array-like: allocated by this call of the function (np.zeros/…/ops.new_*/arithmetic
         result/deepcopy) or a view (subscript/reshape/transpose/…) of such an object
    FOF  fresh container whose elements are themselves fresh containers (defaultdict(list) …); demoted
         to FO as soon as anything not fresh is stored into it
    FOP  fresh list/generator of (key, value) pairs whose values are fresh objects built per element
         (`[(k, []) for k in ks]`); `OrderedDict(FOP)` / `dict(FOP)` is FOF.  Otherwise behaves like FO.
    FO   fresh container/object (list/dict/set/OrderedDict constructor, literal, comprehension,
         `.copy()`): the object itself is private to this call, its *elements* are not
    IM   immutable value (constant, tuple, frozenset, str, int(), len(), .shape …): `x += …` rebinds
    SI   `self` inside __init__/__new__ (the object under construction)
    N    anything else: parameters, attributes, subscripts of non-fresh objects, results of calls the
         scan knows nothing about, closure/global names

Joins at control-flow merges are conservative (anything ⊔ N = N); loop bodies are iterated to a
fixpoint.  A function's return value is summarised (fresh / tuple of fresh) and used at call sites
that resolve by simple name to exactly one scanned function (iterated to a fixpoint).

What this does NOT see (stated in the evidence): writes inside numpy/opt_einsum C code, writes reached
through aliases created inter-procedurally (a fresh array handed to a callee that stores it somewhere
and later writes), dynamic attribute names, exec/eval.
"""
import ast
import os
import re
from collections import OrderedDict

EXCLUDE_DIRS = ("torch", "jax", "pyro", "examples")
EXCLUDE_FILES = ("minipyro.py",)

FA, FO, FOF, FOP, IM, SI, N = "FA", "FO", "FOF", "FOP", "IM", "SI", "N"


def join(a, b):
    if a == b:
        return a
    if a is None:
        return b
    if b is None:
        return a
    if N in (a, b) or SI in (a, b):
        return N
    if isinstance(a, tuple) or isinstance(b, tuple):
        if isinstance(a, tuple) and isinstance(b, tuple) and len(a) == len(b):
            return tuple(join(x, y) for x, y in zip(a, b))
        return N
    if FO in (a, b) or FOF in (a, b) or FOP in (a, b):
        return FO
    return FA          # FA ⊔ IM : either a private array or an immutable; both are safe to `+=`


# --- classification tables of the translator (audited against live numpy by the harness) -------------
# module-level allocators: np.<name>(…) / numpy.<name>(…) returns memory not shared with any argument
NP_ALLOC = {"zeros", "ones", "empty", "full", "array", "arange", "eye", "zeros_like", "ones_like",
            "empty_like", "full_like", "concatenate", "stack", "copy", "identity", "tril", "triu",
            "exp", "log", "sqrt", "abs", "sum", "prod", "cumsum", "matmul", "where",
            "clip", "logaddexp", "maximum", "minimum", "reciprocal", "tile", "repeat", "linspace",
            "indices", "argsort", "argmax", "argmin", "any", "all",
            "amax", "amin", "max", "min", "mean", "var", "std", "log1p", "expm1", "sign", "isnan",
            "isinf", "isfinite", "floor", "ceil", "round", "power", "multiply", "add", "subtract",
            "divide", "negative", "logical_not", "logical_and", "logical_or", "pad", "triu_indices",
            "tril_indices", "unravel_index", "ravel_multi_index", "cholesky", "inv", "solve", "det",
            "outer", "dot", "tensordot", "kron"}
# np.<name>(x, …): result may alias x  -> provenance of x
NP_VIEW = {"asarray", "asanyarray", "ascontiguousarray", "broadcast_to", "reshape", "transpose",
           "squeeze", "expand_dims", "swapaxes", "moveaxis", "ravel", "atleast_1d", "atleast_2d",
           "diagonal", "flip", "broadcast_arrays", "real", "imag", "rollaxis", "split", "array_split"}
# x.<name>(…): result may alias x
VIEW_METHODS = {"reshape", "transpose", "view", "squeeze", "swapaxes", "ravel", "diagonal", "expand",
                "expand_as", "unsqueeze", "permute", "astype", "__getitem__", "values", "keys", "items",
                "get", "setdefault", "pop", "popitem", "real", "imag", "detach", "contiguous", "flat"}
# x.<name>(…): result is a private array whatever x is
ALLOC_METHODS = {"new_zeros", "new_ones", "new_full", "new_empty", "new_arange", "new_eye", "new_tensor",
                 "sum", "prod", "max", "min", "mean", "cumsum", "dot", "argsort", "argmax", "argmin",
                 "any", "all", "flatten", "tolist", "clone", "nonzero", "round", "clip"}
# ops.<name>(…) helpers of funsor.ops that allocate
OPS_ALLOC_PREFIX = ("new_",)
FRESH_CTORS = {"list", "dict", "set", "OrderedDict", "defaultdict", "sorted", "bytearray", "deque",
               "Counter", "WeakValueDictionary", "WeakKeyDictionary"}
IMM_FUNCS = {"tuple", "frozenset", "int", "float", "str", "len", "bool", "sum", "min", "max", "abs",
             "range", "zip", "enumerate", "reversed", "isinstance", "issubclass", "id", "hash", "type",
             "repr", "format", "callable", "hasattr", "any", "all", "round", "divmod", "pow", "ord",
             "chr", "bytes", "complex", "slice", "map", "filter", "iter", "reduce"}
IMM_ATTRS = {"shape", "size", "ndim", "dtype", "name", "__name__", "__qualname__", "num_elements",
             "itemsize", "nbytes", "strides", "__class__", "__module__"}
MODULE_ALIASES = {"np", "numpy", "ops", "math", "funsor", "functools", "itertools", "operator", "re",
                  "os", "sys", "typing", "warnings", "torch", "jax", "jnp", "opt_einsum", "copy",
                  "interpreter", "instrument", "inspect", "collections", "numbers", "weakref", "pytest",
                  "dist", "makefun", "string", "types", "contextlib", "builtins"}

# in-place ndarray / container methods
ARRAY_INPLACE_METHODS = {"fill", "sort", "resize", "put", "itemset", "setfield", "partition", "byteswap",
                         "setflags", "add_", "sub_", "mul_", "div_", "copy_", "fill_", "zero_",
                         "clamp_", "index_add_", "index_put_", "scatter_", "scatter_add_", "masked_fill_"}
CONTAINER_MUT_METHODS = {"append", "extend", "insert", "pop", "popitem", "remove", "clear", "update",
                         "setdefault", "add", "discard", "move_to_end", "reverse", "appendleft",
                         "difference_update", "intersection_update", "symmetric_difference_update",
                         "__setitem__", "__delitem__", "__setattr__"}
INPLACE_DUNDER = re.compile(r"__i(add|sub|mul|truediv|floordiv|mod|pow|and|or|xor|matmul|lshift|rshift|concat)__")
OPERATOR_INPLACE = {"iadd", "isub", "imul", "itruediv", "ifloordiv", "imod", "ipow", "iand", "ior", "ixor",
                    "imatmul", "ilshift", "irshift", "iconcat", "setitem", "delitem"}
# f(x, copy=False) only aliases x (no write); every other callee given copy=<not True> may write into x
COPY_FLAG_ALIAS_ONLY = {"array", "asarray", "asanyarray", "astype", "ascontiguousarray", "asfortranarray", "reshape",
                        "view", "to", "type", "require", "copy", "deepcopy", "Series", "DataFrame"}
NP_INPLACE_FUNCS = {"put", "copyto", "place", "putmask", "fill_diagonal", "put_along_axis", "shuffle"}
NP_UFUNC_INPLACE_ATTRS = {"at"}          # np.add.at(x, …)

# external base classes known to use plain `type.__call__` construction (no instance caching)
PLAIN_EXTERNAL_BASES = {"object", "ABC", "ContextDecorator", "AbstractContextManager"}

KINDS = ("subscriptStore", "augSubscript", "augName", "augAttr", "attrStore", "delItem", "delAttr",
         "arrayMethod", "containerMethod", "outKw", "npInplace", "setattrCall")
PROVS = ("freshLocal", "immutable", "initSelf", "importTime", "ownState", "notFresh")


class Site:
    __slots__ = ("file", "line", "col", "func", "cls", "kind", "target", "prov", "why", "guard")

    def __init__(self, **kw):
        for k, v in kw.items():
            setattr(self, k, v)

    def key(self):
        return (self.file, self.func, self.target)

    def as_dict(self):
        return {k: getattr(self, k) for k in self.__slots__}


def _root_name(e):
    while isinstance(e, (ast.Subscript, ast.Attribute, ast.Starred)):
        e = e.value
    if isinstance(e, ast.Call):
        return _root_name(e.func)
    return e.id if isinstance(e, ast.Name) else None


class FuncScan:
    """Abstract interpretation of one function body (or a module / class body)."""

    def __init__(self, scanner, file, qualname, cls, node, is_module_level):
        self.sc = scanner
        self.file = file
        self.qual = qualname
        self.cls = cls              # lexically enclosing class name or None
        self.node = node
        self.module_level = is_module_level
        self.sites = OrderedDict()  # (line, col, kind) -> Site
        self.guards = []
        self.returns = None
        self.nonlocal_names = set()
        self.env = {}

    # ---- expressions ------------------------------------------------------------------------------
    def ev(self, e, env):
        if e is None:
            return IM
        m = getattr(self, "ev_" + type(e).__name__, None)
        if m is None:
            for c in ast.iter_child_nodes(e):
                if isinstance(c, ast.expr):
                    self.ev(c, env)
            return N
        return m(e, env)

    def ev_Constant(self, e, env):
        return IM

    def ev_JoinedStr(self, e, env):
        for v in e.values:
            self.ev(v, env)
        return IM

    def ev_FormattedValue(self, e, env):
        self.ev(e.value, env)
        return IM

    def ev_Tuple(self, e, env):
        vals = tuple(self.ev(x, env) for x in e.elts)
        if isinstance(e.ctx, ast.Load) and vals and not any(isinstance(x, ast.Starred) for x in e.elts):
            return vals
        return IM

    def _container(self, elts, env):
        for x in elts:
            if x is not None:
                self.ev(x, env)
        return FO

    def ev_List(self, e, env):
        return self._container(e.elts, env)

    def ev_Set(self, e, env):
        return self._container(e.elts, env)

    def ev_Dict(self, e, env):
        return self._container(list(e.keys) + list(e.values), env)

    def _comp(self, e, env, parts):
        env2 = dict(env)
        for g in e.generators:
            self.ev(g.iter, env2)
            self.bind(g.target, N, env2)
            for c in g.ifs:
                self.ev(c, env2)
        return [self.ev(p, env2) for p in parts]

    @staticmethod
    def _fresh_elem(v):
        return v in (FO, FA, FOF, FOP)

    def _seq_of(self, elt_value):
        """Abstract value of a list/generator comprehension from the value of its element expression:
        elements built fresh per iteration -> FOF; (key, fresh value) pairs -> FOP."""
        if self._fresh_elem(elt_value):
            return FOF
        if isinstance(elt_value, tuple) and len(elt_value) == 2 and self._fresh_elem(elt_value[1]):
            return FOP
        return FO

    def ev_ListComp(self, e, env):
        return self._seq_of(self._comp(e, env, [e.elt])[0])

    def ev_SetComp(self, e, env):
        self._comp(e, env, [e.elt])
        return FO

    def ev_GeneratorExp(self, e, env):
        return self._seq_of(self._comp(e, env, [e.elt])[0])

    def ev_DictComp(self, e, env):
        vals = self._comp(e, env, [e.key, e.value])
        return FOF if self._fresh_elem(vals[1]) else FO

    def ev_BinOp(self, e, env):
        a = self.ev(e.left, env)
        b = self.ev(e.right, env)
        if isinstance(e.op, ast.Mod) and isinstance(e.left, ast.Constant):
            return IM
        if _flat(a) == IM and _flat(b) == IM:
            return IM
        return FA

    def ev_UnaryOp(self, e, env):
        a = self.ev(e.operand, env)
        if isinstance(e.op, ast.Not):
            return IM
        return IM if _flat(a) == IM else FA

    def ev_Compare(self, e, env):
        self.ev(e.left, env)
        for c in e.comparators:
            self.ev(c, env)
        return FA

    def ev_BoolOp(self, e, env):
        out = None
        for v in e.values:
            out = join(out, self.ev(v, env))
        return out

    def ev_IfExp(self, e, env):
        self.ev(e.test, env)
        return join(self.ev(e.body, env), self.ev(e.orelse, env))

    def ev_Name(self, e, env):
        if e.id in self.nonlocal_names:
            return N
        if e.id in ("None", "True", "False"):
            return IM
        return env.get(e.id, N)

    def ev_Attribute(self, e, env):
        v = self.ev(e.value, env)
        if e.attr in IMM_ATTRS:
            return IM
        if e.attr in ("T", "mT", "real", "imag", "flat"):
            return FA if v == FA else N
        return N

    def ev_Subscript(self, e, env):
        v = self.ev(e.value, env)
        self.ev(e.slice, env)
        if v == FA:
            return FA
        if v == FOF:
            return FO
        if isinstance(v, tuple) and isinstance(e.slice, ast.Constant) and isinstance(e.slice.value, int) \
                and -len(v) <= e.slice.value < len(v):
            return v[e.slice.value]
        return N

    def ev_Slice(self, e, env):
        for x in (e.lower, e.upper, e.step):
            if x is not None:
                self.ev(x, env)
        return IM

    def ev_Starred(self, e, env):
        self.ev(e.value, env)
        return N

    def ev_Lambda(self, e, env):
        # body analysed as a nested function (it can contain calls with out= etc.)
        sub = FuncScan(self.sc, self.file, self.qual + ".<lambda>", self.cls, e, False)
        sub.ev(e.body, {})
        self.sc.collect(sub)
        return IM

    def ev_NamedExpr(self, e, env):
        v = self.ev(e.value, env)
        self.bind(e.target, v, env)
        return v

    def ev_Await(self, e, env):
        self.ev(e.value, env)
        return N

    def ev_Yield(self, e, env):
        if e.value is not None:
            self.ev(e.value, env)
        return N

    def ev_YieldFrom(self, e, env):
        self.ev(e.value, env)
        return N

    def ev_Call(self, e, env):
        f = e.func
        argv = [self.ev(a, env) for a in e.args]
        kwv = {kw.arg: self.ev(kw.value, env) for kw in e.keywords}
        # --- out= keyword: writes into the given array -------------------------------------------
        for kw in e.keywords:
            if kw.arg == "out" and not (isinstance(kw.value, ast.Constant) and kw.value.value is None):
                self.site(e, "outKw", kw.value, env)
            # in-place flags of library calls: f(x, …, copy=False) writes into x unless f is known to merely
            # alias its argument (np.array / asarray / astype …); f(…, inplace=True) always writes.
            flag_false = isinstance(kw.value, ast.Constant) and kw.value.value is False
            flag_true_const = isinstance(kw.value, ast.Constant) and kw.value.value is True
            fname = f.attr if isinstance(f, ast.Attribute) else getattr(f, "id", "")
            if kw.arg == "copy" and not flag_true_const and fname not in COPY_FLAG_ALIAS_ONLY:
                tgt = e.args[0] if e.args else (f.value if isinstance(f, ast.Attribute) else None)
                if tgt is not None:
                    self.site(e, "npInplace", tgt, env)
            if kw.arg == "inplace" and not flag_false:
                tgt = f.value if isinstance(f, ast.Attribute) and not (
                    isinstance(f.value, ast.Name) and f.value.id in MODULE_ALIASES and f.value.id not in env) \
                    else (e.args[0] if e.args else None)
                if tgt is not None:
                    self.site(e, "npInplace", tgt, env)
        if isinstance(f, ast.Name):
            name = f.id
            if name in ("setattr", "delattr") and e.args:
                self.site(e, "setattrCall", e.args[0], env, attr_store=True)
                return IM
            if name == "defaultdict" and len(e.args) == 1 and isinstance(e.args[0], ast.Name) \
                    and e.args[0].id in ("list", "set", "dict", "OrderedDict") and not e.keywords:
                return FOF
            if name in ("OrderedDict", "dict") and len(argv) == 1 and argv[0] == FOP and not e.keywords:
                return FOF
            if name in ("list", "sorted", "deque") and len(argv) == 1 and argv[0] == FOF and not e.keywords \
                    and not isinstance(e.args[0], ast.Name):
                return FOF          # a fresh sequence of per-element fresh objects, consumed on the spot
            if name in FRESH_CTORS or name == "get_type_hints":
                self.escape_args(e, env)
                return FO
            if name in IMM_FUNCS:
                if name in ("zip", "map", "filter", "reduce", "iter", "enumerate", "reversed"):
                    self.escape_args(e, env)      # hands out the elements
                return IM
            self.escape_args(e, env)
            if name == "deepcopy":
                return FA
            if name == "copy":
                return FO
            if name in env or name in self.nonlocal_names:
                return N            # a local callable
            if self.sc.is_plain_class(name):
                return FO           # constructor of a plain (non-term, no metaclass, no __new__) class
            return self.sc.summary(self.file, name)
        if isinstance(f, ast.Attribute):
            self.escape_args(e, env)
            recv = f.value
            attr = f.attr
            is_mod = isinstance(recv, ast.Name) and recv.id in MODULE_ALIASES and recv.id not in env
            np_like = is_mod and recv.id in ("np", "numpy", "jnp", "torch")
            # np.add.at(x, idx, v) / np.linalg.xxx
            if isinstance(recv, ast.Attribute) and isinstance(recv.value, ast.Name) \
                    and recv.value.id in ("np", "numpy") and recv.value.id not in env:
                if attr in NP_UFUNC_INPLACE_ATTRS and e.args:
                    self.site(e, "npInplace", e.args[0], env)
                    return IM
                if recv.attr in ("linalg", "random", "fft", "special"):
                    if recv.attr == "random" and attr == "shuffle" and e.args:
                        self.site(e, "npInplace", e.args[0], env)
                    return FA
                self.ev(recv, env)
                return N
            if np_like:
                if attr in NP_INPLACE_FUNCS and e.args:
                    self.site(e, "npInplace", e.args[0], env)
                    return IM
                if attr in NP_VIEW:
                    v = argv[0] if argv else N
                    return FA if v == FA else N
                if attr in NP_ALLOC:
                    # np.array(x, copy=False) and friends may alias their argument
                    cp = [kw for kw in e.keywords if kw.arg == "copy"]
                    if cp and not (isinstance(cp[0].value, ast.Constant) and cp[0].value.value is True):
                        return FA if (argv and argv[0] == FA) else N
                    return FA
                return N
            if is_mod:
                if recv.id == "ops":
                    if attr.startswith(OPS_ALLOC_PREFIX):
                        return FA
                    if attr in ("expand", "permute", "transpose", "unsqueeze", "astype", "detach",
                                "diagonal", "einsum_view"):
                        v = argv[0] if argv else N
                        return FA if v == FA else N
                    return N
                if recv.id == "copy":
                    return FA if attr == "deepcopy" else FO
                if recv.id == "math":
                    return IM
                if recv.id == "operator" and attr in OPERATOR_INPLACE and e.args:
                    self.site(e, "npInplace", e.args[0], env)
                    return N
                if recv.id == "collections" and attr in FRESH_CTORS:
                    return FO
                if recv.id == "typing" and attr == "get_type_hints":
                    return FO
                if recv.id in ("interpreter", "instrument", "funsor"):
                    return self.sc.summary(self.file, attr)
                return N
            rv = self.ev(recv, env)
            if attr in ARRAY_INPLACE_METHODS or INPLACE_DUNDER.fullmatch(attr):
                self.site(e, "arrayMethod", recv, env)
                return N
            if attr in CONTAINER_MUT_METHODS:
                own_method = (isinstance(recv, ast.Name) and recv.id in ("self", "cls")
                              and recv.id == self.first_param) or \
                             (isinstance(recv, ast.Call) and isinstance(recv.func, ast.Name)
                              and recv.func.id == "super")
                if not own_method:
                    self.site(e, "containerMethod", recv, env)
                was_fof = isinstance(recv, ast.Name) and env.get(recv.id) == FOF
                if was_fof and attr not in ("pop", "popitem", "clear", "move_to_end"):
                    if not all(self._fresh_elem(_flat(a)) for a in argv[-1:]) or attr in ("update", "extend") \
                            or not argv:
                        self.demote_fof(env)
                if was_fof and env.get(recv.id) == FOF:
                    # elements of a container of fresh objects are fresh objects
                    if attr == "pop" and len(argv) <= 1:
                        return FO
                    if attr == "popitem":
                        return (N, FO)
                    if attr == "setdefault" and len(argv) == 2:
                        return FO
                return N
            if attr in ("copy", "clone"):
                return FO
            if attr in ALLOC_METHODS:
                return FA
            if attr in VIEW_METHODS:
                return FA if rv == FA else N
            if attr in ("join", "format", "split", "strip", "startswith", "endswith", "index", "count",
                        "replace", "lower", "upper", "lstrip", "rstrip", "item", "bit_length"):
                return IM
            if attr in ("union", "intersection", "difference", "symmetric_difference"):
                return FO if rv in (FO, FA) else FO   # set algebra returns a new set
            return N
        self.ev(f, env)
        return N

    def demote_fof(self, env):
        """Something not provably fresh may have been put into a container of fresh objects; aliases are
        not tracked, so every such container of this function loses the property."""
        for k, v in list(env.items()):
            if v == FOF:
                env[k] = FO

    def escape_args(self, e, env):
        """A container of fresh objects handed to a callee (which may insert anything, or hand its
        elements on) is afterwards only a fresh container."""
        for a in list(e.args) + [kw.value for kw in e.keywords]:
            if isinstance(a, ast.Starred):
                a = a.value
            if isinstance(a, ast.Name) and env.get(a.id) == FOF:
                self.demote_fof(env)
                return

    # ---- stores -----------------------------------------------------------------------------------
    def classify_object(self, obj, env, attr_store=False):
        """Provenance of the object denoted by expression `obj` (the thing being written into)."""
        if self.module_level:
            return "importTime", "module/class body executes once at import"
        v = self.ev(obj, env)
        v = _flat(v) if not isinstance(v, tuple) else IM
        if v in (FA, FO, FOF, FOP):
            return "freshLocal", v
        if v == SI:
            return ("initSelf", "self in __init__/__new__") if attr_store else ("notFresh", "self")
        if v == IM:
            return "immutable", "IM"
        # own bookkeeping state of a non-term object: self.<attr> (depth 1) or self/cls itself
        root = _root_name(obj)
        if root in ("self", "cls") and self.cls is not None and root not in self.rebound_self \
                and not self.sc.is_term_class(self.file, self.cls):
            depth_ok = (isinstance(obj, ast.Name) or
                        (isinstance(obj, ast.Attribute) and isinstance(obj.value, ast.Name)))
            if depth_ok and self.first_param == root:
                return "ownState", self.cls
        return "notFresh", self.describe_root(obj, env)

    def describe_root(self, obj, env):
        r = _root_name(obj)
        if r is None:
            return "expr"
        if r in self.params:
            return "param:" + r
        if r in env:
            return "local:" + r
        return "free:" + r

    def site(self, node, kind, obj, env, attr_store=False, target_text=None):
        prov, why = self.classify_object(obj, env, attr_store=attr_store)
        key = (node.lineno, node.col_offset, kind, ast.unparse(obj))
        s = Site(file=self.file, line=node.lineno, col=node.col_offset, func=self.qual,
                 cls=self.cls or "", kind=kind, target=target_text or ast.unparse(obj),
                 prov=prov, why=str(why),
                 # type guards of `x += …` sites: the enclosing if/elif tests (with polarity) that narrow a type
                 # (isinstance / type(..) / issubclass).  A
                 # review that calls such a site "rebinding of an immutable value" rests on these type guards,
                 # so they are part of the table: widening a guard changes the entry.
                 guard=" && ".join(g for g in self.guards if "isinstance" in g or "type(" in g or "issubclass" in g)
                 if kind == "augName" else "")
        old = self.sites.get(key)
        if old is None or PROVS.index(prov) > PROVS.index(old.prov):
            self.sites[key] = s       # keep the worst classification seen over loop iterations

    def store(self, t, v, env, stmt):
        """Assignment of abstract value v to target t."""
        if isinstance(t, ast.Name):
            env[t.id] = v
        elif isinstance(t, (ast.Tuple, ast.List)):
            star = any(isinstance(x, ast.Starred) for x in t.elts)
            for i, x in enumerate(t.elts):
                if isinstance(v, tuple) and not star and len(v) == len(t.elts):
                    self.store(x, v[i], env, stmt)
                else:
                    self.store(x, N, env, stmt)
        elif isinstance(t, ast.Starred):
            self.store(t.value, FO if isinstance(t.value, ast.Name) else N, env, stmt)
        elif isinstance(t, ast.Subscript):
            self.ev(t.slice, env)
            self.site(stmt, "subscriptStore", t.value, env)
            if isinstance(t.value, ast.Name) and env.get(t.value.id) == FOF and not self._fresh_elem(_flat(v)):
                self.demote_fof(env)
            if v == FOF:
                self.demote_fof(env)      # the container itself escapes into another object
        elif isinstance(t, ast.Attribute):
            self.site(stmt, "attrStore", t.value, env, attr_store=True, target_text=ast.unparse(t))
            if v == FOF:
                self.demote_fof(env)

    def bind(self, t, v, env):
        if isinstance(t, ast.Name):
            env[t.id] = v
        elif isinstance(t, (ast.Tuple, ast.List)):
            for x in t.elts:
                self.bind(x, N, env)
        elif isinstance(t, ast.Starred):
            self.bind(t.value, N, env)
        else:
            # for x[i] in …  (exotic): a store
            self.store(t, v, env, t)

    # ---- statements -------------------------------------------------------------------------------
    def run_body(self, body, env):
        for st in body:
            self.stmt(st, env)

    def stmt(self, st, env):
        m = getattr(self, "st_" + type(st).__name__, None)
        if m is not None:
            return m(st, env)
        for c in ast.iter_child_nodes(st):
            if isinstance(c, ast.expr):
                self.ev(c, env)
            elif isinstance(c, ast.stmt):
                self.stmt(c, env)

    def st_Expr(self, st, env):
        self.ev(st.value, env)

    def st_Assign(self, st, env):
        v = self.ev(st.value, env)
        for t in st.targets:
            self.store(t, v, env, st)

    def st_AnnAssign(self, st, env):
        if st.value is not None:
            v = self.ev(st.value, env)
            self.store(st.target, v, env, st)

    def st_AugAssign(self, st, env):
        self.ev(st.value, env)
        t = st.target
        if isinstance(t, ast.Name):
            self.site(st, "augName", t, env)
            cur = env.get(t.id, N) if t.id not in self.nonlocal_names else N
            if _flat(cur) == IM or isinstance(cur, tuple):
                env[t.id] = FA     # rebinding to the (new) result of the arithmetic
        elif isinstance(t, ast.Subscript):
            self.ev(t.slice, env)
            self.site(st, "augSubscript", t.value, env)
        elif isinstance(t, ast.Attribute):
            self.site(st, "augAttr", t.value, env, attr_store=True, target_text=ast.unparse(t))

    def st_Delete(self, st, env):
        for t in st.targets:
            if isinstance(t, ast.Subscript):
                self.ev(t.slice, env)
                self.site(st, "delItem", t.value, env)
            elif isinstance(t, ast.Attribute):
                self.site(st, "delAttr", t.value, env, attr_store=True, target_text=ast.unparse(t))
            elif isinstance(t, ast.Name):
                env.pop(t.id, None)

    def st_Return(self, st, env):
        v = self.ev(st.value, env) if st.value is not None else IM
        self.returns = v if self.returns is None else join(self.returns, v)

    def _join_envs(self, envs):
        keys = set()
        for e in envs:
            keys |= set(e)
        out = {}
        for k in keys:
            if any(k not in e for e in envs):
                out[k] = N      # unbound on some path: stay conservative
                continue
            v = None
            for e in envs:
                v = join(v, e[k])
            out[k] = v
        return out

    def st_If(self, st, env):
        self.ev(st.test, env)
        e1 = dict(env)
        e2 = dict(env)
        test_txt = ast.unparse(st.test)
        self.guards.append("T:" + test_txt)
        self.run_body(st.body, e1)
        self.guards[-1] = "F:" + test_txt
        self.run_body(st.orelse, e2)
        self.guards.pop()
        t1 = _terminates(st.body)
        t2 = _terminates(st.orelse)
        if t1 and not t2:
            new = e2
        elif t2 and not t1:
            new = e1
        else:
            new = self._join_envs([e1, e2])
        env.clear()
        env.update(new)

    def _loop(self, st, env, pre):
        cur = dict(env)
        for _ in range(4):
            e = dict(cur)
            pre(e)
            self.run_body(st.body, e)
            nxt = self._join_envs([cur, e])
            # names first bound inside the loop stay as bound by the body
            for k in e:
                if k not in cur:
                    nxt[k] = e[k]
            if nxt == cur:
                break
            cur = nxt
        e = dict(cur)
        self.run_body(st.orelse, e)
        env.clear()
        env.update(self._join_envs([cur, e]) if st.orelse else cur)

    def st_For(self, st, env):
        itv = self.ev(st.iter, env)

        def pre(e):
            v = N
            if isinstance(st.iter, ast.Call) and isinstance(st.iter.func, ast.Name) \
                    and st.iter.func.id == "range":
                v = IM
            self.bind(st.target, v, e)
        self._loop(st, env, pre)

    st_AsyncFor = st_For

    def st_While(self, st, env):
        def pre(e):
            self.ev(st.test, e)
        self._loop(st, env, pre)

    def st_With(self, st, env):
        for it in st.items:
            self.ev(it.context_expr, env)
            if it.optional_vars is not None:
                v = N
                ce = it.context_expr
                if isinstance(ce, ast.Call) and isinstance(ce.func, ast.Name) and ce.func.id not in env \
                        and self.sc.is_plain_class(ce.func.id) and self.sc.enter_returns_self(ce.func.id):
                    v = FO      # `with C(...) as y`: y is the object constructed right here
                self.bind(it.optional_vars, v, env)
        self.run_body(st.body, env)

    st_AsyncWith = st_With

    def st_Try(self, st, env):
        e0 = dict(env)
        e1 = dict(env)
        self.run_body(st.body, e1)
        outs = []
        e_else = dict(e1)
        self.run_body(st.orelse, e_else)
        if not _terminates(st.body + st.orelse):
            outs.append(e_else)
        for h in st.handlers:
            eh = self._join_envs([e0, e1])
            if h.name:
                eh[h.name] = N
            if h.type is not None:
                self.ev(h.type, eh)
            self.run_body(h.body, eh)
            if not _terminates(h.body):
                outs.append(eh)
        new = self._join_envs(outs) if outs else e1
        self.run_body(st.finalbody, new)
        env.clear()
        env.update(new)

    st_TryStar = st_Try

    def st_Global(self, st, env):
        self.nonlocal_names |= set(st.names)

    st_Nonlocal = st_Global

    def st_FunctionDef(self, st, env):
        for d in st.decorator_list:
            self.ev(d, env)
        for d in list(st.args.defaults) + [x for x in st.args.kw_defaults if x is not None]:
            self.ev(d, env)
        env[st.name] = N
        self.sc.scan_function(self.file, st, self.qual_prefix() + st.name, self.cls_for_child())

    st_AsyncFunctionDef = st_FunctionDef

    def st_ClassDef(self, st, env):
        for d in st.decorator_list:
            self.ev(d, env)
        env[st.name] = N
        self.sc.scan_class(self.file, st, self.qual_prefix() + st.name)

    def st_Import(self, st, env):
        pass

    st_ImportFrom = st_Import

    def st_Assert(self, st, env):
        self.ev(st.test, env)
        if st.msg is not None:
            self.ev(st.msg, env)

    def st_Raise(self, st, env):
        if st.exc is not None:
            self.ev(st.exc, env)

    def st_Match(self, st, env):
        self.ev(st.subject, env)
        outs = []
        for c in st.cases:
            e = dict(env)
            for n in ast.walk(c.pattern):
                for fld in ("name", "rest"):
                    nm = getattr(n, fld, None)
                    if isinstance(nm, str):
                        e[nm] = N
            self.run_body(c.body, e)
            outs.append(e)
        new = self._join_envs(outs + [dict(env)])
        env.clear()
        env.update(new)

    # ---- helpers ----------------------------------------------------------------------------------
    def qual_prefix(self):
        if self.qual in ("<module>",):
            return ""
        if isinstance(self.node, ast.ClassDef):
            return self.qual + "."
        return self.qual + ".<locals>."

    def cls_for_child(self):
        return self.cls

    def run(self):
        node = self.node
        self.params = []
        self.first_param = None
        self.rebound_self = set()
        env = {}
        if isinstance(node, (ast.FunctionDef, ast.AsyncFunctionDef)):
            a = node.args
            allp = list(a.posonlyargs) + list(a.args) + list(a.kwonlyargs)
            if a.vararg:
                allp.append(a.vararg)
            if a.kwarg:
                allp.append(a.kwarg)
            self.params = [p.arg for p in allp]
            for p in self.params:
                env[p] = N
            if (a.posonlyargs or a.args):
                self.first_param = (list(a.posonlyargs) + list(a.args))[0].arg
            if self.cls is not None and node.name in ("__init__", "__new__") and self.first_param == "self" \
                    and self.is_method:
                env["self"] = SI
            # *args is a fresh tuple, **kwargs a fresh dict (their elements are not)
            if a.vararg:
                env[a.vararg.arg] = IM
            if a.kwarg:
                env[a.kwarg.arg] = FO
            # a method that rebinds self/cls loses ownState status for it
            for n in ast.walk(node):
                if isinstance(n, ast.Name) and isinstance(n.ctx, ast.Store) and n.id in ("self", "cls"):
                    self.rebound_self.add(n.id)
            self.run_body(node.body, env)
        elif isinstance(node, (ast.Module, ast.ClassDef)):
            self.run_body(node.body, env)
        self.env = env
        return self

    is_method = False


def _flat(v):
    if isinstance(v, tuple):
        return IM
    return v


def _terminates(body):
    if not body:
        return False
    last = body[-1]
    if isinstance(last, (ast.Return, ast.Raise, ast.Continue, ast.Break)):
        return True
    if isinstance(last, ast.If):
        return _terminates(last.body) and _terminates(last.orelse)
    return False


class Scanner:
    def __init__(self):
        self.sites = []
        self.func_returns = {}      # (file, simple name) -> abstract return
        self.by_name = {}           # simple name -> set of files defining it at module level
        self.class_bases = {}       # (file, class) -> [base simple names]
        self.class_meta = {}        # (file, class) -> metaclass simple name or None
        self.prev_returns = {}
        self.trees = {}
        self.class_has_new = set()
        self.class_nodes = {}

    # -- class hierarchy (syntactic; cross-checked against the live classes by the harness) ---------
    def index_classes(self):
        for file, tree in self.trees.items():
            for n in ast.walk(tree):
                if isinstance(n, ast.ClassDef):
                    bases = []
                    for b in n.bases:
                        while isinstance(b, ast.Subscript):
                            b = b.value
                        if isinstance(b, ast.Attribute):
                            bases.append(b.attr)
                        elif isinstance(b, ast.Name):
                            bases.append(b.id)
                    self.class_bases[(file, n.name)] = bases
                    self.class_nodes[(file, n.name)] = n
                    meta = None
                    for kw in n.keywords:
                        if kw.arg == "metaclass":
                            meta = kw.value.attr if isinstance(kw.value, ast.Attribute) else getattr(kw.value, "id", None)
                    self.class_meta[(file, n.name)] = meta
                    if any(isinstance(b, ast.FunctionDef) and b.name == "__new__" for b in n.body):
                        self.class_has_new.add((file, n.name))
        self._all_bases = {}
        for (f, c), bs in self.class_bases.items():
            self._all_bases.setdefault(c, set()).update(bs)

    def ancestors(self, cname):
        seen = set()
        todo = [cname]
        while todo:
            c = todo.pop()
            for b in self._all_bases.get(c, ()):
                if b not in seen:
                    seen.add(b)
                    todo.append(b)
        return seen

    def is_term_class(self, file, cname):
        """True if stores through self/cls in this class may touch a term: Funsor subclasses and
        the metaclasses that construct them."""
        anc = self.ancestors(cname) | {cname}
        if "Funsor" in anc:
            return True
        if anc & {"FunsorMeta", "type", "GenericTypeMeta"}:
            return True
        return False

    def is_plain_class(self, cname):
        defs = [(f, c) for (f, c) in self.class_bases if c == cname]
        if len(defs) != 1:
            return False
        if self.is_term_class(defs[0][0], cname):
            return False
        for c in {cname} | self.ancestors(cname):
            ds = [(f, c2) for (f, c2) in self.class_bases if c2 == c]
            if c in PLAIN_EXTERNAL_BASES:
                continue
            if len(ds) != 1:
                return False      # unknown / external base class
            if self.class_meta.get(ds[0]) is not None or ds[0] in self.class_has_new:
                return False
        return True

    def enter_returns_self(self, cname):
        """True iff the `__enter__` found first along the scanned ancestry of `cname` only ever
        `return self` (so `with C(...) as y` binds y to the newly constructed object)."""
        order = [cname] + sorted(self.ancestors(cname))
        for c in order:
            for (f, c2), node in self.class_nodes.items():
                if c2 != c:
                    continue
                for b in node.body:
                    if isinstance(b, ast.FunctionDef) and b.name == "__enter__":
                        rets = [n for n in ast.walk(b) if isinstance(n, ast.Return)]
                        return bool(rets) and all(isinstance(r.value, ast.Name) and r.value.id == "self"
                                                  for r in rets)
        return False

    # -- summaries ----------------------------------------------------------------------------------
    def summary(self, file, name):
        if (file, name) in self.prev_returns:
            return self.prev_returns[(file, name)]
        files = self.by_name.get(name, ())
        if len(files) == 1:
            return self.prev_returns.get((next(iter(files)), name), N)
        return N

    # -- driving ------------------------------------------------------------------------------------
    def collect(self, fs):
        self.sites.extend(fs.sites.values())

    def scan_function(self, file, node, qual, cls, is_method=False):
        fs = FuncScan(self, file, qual, cls, node, False)
        fs.is_method = is_method
        fs.run()
        self.collect(fs)
        if "." not in qual:
            r = fs.returns if fs.returns is not None else IM
            # generators: the call returns a generator object, not the yielded values
            if any(isinstance(n, (ast.Yield, ast.YieldFrom)) for n in ast.walk(node)):
                r = N
            self.func_returns[(file, qual)] = r
        return fs

    def scan_class(self, file, node, qual):
        fs = FuncScan(self, file, qual, node.name, node, True)
        # class body: methods get is_method=True
        env = {}
        for st in node.body:
            if isinstance(st, (ast.FunctionDef, ast.AsyncFunctionDef)):
                for d in st.decorator_list:
                    fs.ev(d, env)
                static = any((isinstance(d, ast.Name) and d.id == "staticmethod") for d in st.decorator_list)
                self.scan_function(file, st, qual + "." + st.name, node.name, is_method=not static)
            else:
                fs.stmt(st, env)
        self.collect(fs)

    def scan_module(self, file, tree):
        fs = FuncScan(self, file, "<module>", None, tree, True)
        fs.run()
        self.collect(fs)

    def run(self, sources):
        """sources: {relative file name: source text}"""
        for file, text in sources.items():
            self.trees[file] = ast.parse(text)
        self.index_classes()
        for file, tree in self.trees.items():
            for n in tree.body:
                if isinstance(n, (ast.FunctionDef, ast.AsyncFunctionDef)):
                    self.by_name.setdefault(n.name, set()).add(file)
        for _ in range(4):
            self.sites = []
            self.func_returns = {}
            for file, tree in self.trees.items():
                self.scan_module(file, tree)
            if self.func_returns == self.prev_returns:
                break
            # every round is sound given the previous round's summaries (round 0 assumes N everywhere)
            self.prev_returns = dict(self.func_returns)
        self.sites.sort(key=lambda s: (s.file, s.line, s.col, s.kind, s.target))
        return self.sites


def read_tree(root):
    sources = OrderedDict()
    root = str(root)
    for dp, dn, fn in sorted(os.walk(root)):
        rel = os.path.relpath(dp, root)
        parts = [] if rel == "." else rel.split(os.sep)
        if parts and parts[0] in EXCLUDE_DIRS:
            continue
        if "__pycache__" in parts:
            continue
        for f in sorted(fn):
            if not f.endswith(".py") or f in EXCLUDE_FILES:
                continue
            p = os.path.join(dp, f)
            relf = "funsor/" + (os.path.relpath(p, root).replace(os.sep, "/"))
            with open(p) as fh:
                sources[relf] = fh.read()
    return sources


def scan_tree(root):
    sc = Scanner()
    sites = sc.run(read_tree(root))
    return sites, sc


def scan_source(text, file="prog.py"):
    sc = Scanner()
    return sc.run({file: text}), sc
