"""
fv/main.py — `./check Cxx --tier quick|thorough [--replay FILE]`

Steps (DESIGN.md 2.1): extract -> build -> audit -> correspondence -> search -> evidence.
A harness module fv/harness/cxx.py provides:

    extract(ctx)            optional: regenerate lean/FunsorVerif/Gen/*.lean from /repo
    correspond(ctx)         run impl vs model (ctx.driver) vs spec; call ctx.case()/ctx.fail()
    search(ctx, broken)     optional: `broken` is a list of names (theorems/modules/correspondences)
                            that no longer check; look for a concrete failing input on the real
                            code and call ctx.fail(kind="input", ...) when one is found
    replay(ctx, doc)        optional: re-run a replay document; return True if it still fails
"""
import argparse
import importlib
import json
import os
import sys
import traceback

from . import common


def main(argv=None):
    ap = argparse.ArgumentParser()
    ap.add_argument("prop")
    ap.add_argument("--tier", default=os.environ.get("VERIF_TIER", "quick"), choices=["quick", "thorough"])
    ap.add_argument("--replay", default=None)
    ap.add_argument("--seed", type=int, default=None)
    a = ap.parse_args(argv)
    prop = a.prop.upper()
    ctx = common.Ctx(prop, a.tier, a.seed)
    try:
        h = importlib.import_module(f"fv.harness.{prop.lower()}")
    except ModuleNotFoundError as e:
        print(f"no harness for {prop}: {e}", file=sys.stderr)
        return 2

    if a.replay:
        doc = json.loads(open(a.replay).read())
        if not hasattr(h, "replay"):
            py = doc.get("python")
            if not py:
                print("replay document has no python snippet", file=sys.stderr)
                return 2
            common.import_funsor()
            g = {}
            try:
                exec(py, g)
                still = bool(g.get("FAILS", False))
            except Exception:
                traceback.print_exc()
                still = True
        else:
            still = h.replay(ctx, doc)
        if still:
            print(f"VIOLATION property={prop} replay={a.replay}")
            return 1
        print(f"{prop}: replay no longer fails")
        return 0

    try:
        if hasattr(h, "extract"):
            h.extract(ctx)
        ctx.build()
        broken = []
        if not ctx.build_ok:
            broken += ctx.broken_modules() or ["lake-build"]
        if ctx.props_ok_safe():
            if not ctx.audit():
                d = ctx.audit_detail
                broken += [f"axiom-audit:{n}" for n, _ in d["bad_axioms"]]
                broken += [f"forbidden-token:{h_}" for h_ in d["forbidden_tokens"]]
                if d["rc"] != 0 or not ctx.theorems:
                    broken.append("axiom-audit-run")
            if a.tier == "thorough" and os.environ.get("VERIF_NO_LEANCHECKER") != "1":
                if not ctx.leanchecker():
                    broken.append("leanchecker")
        n_before = len(ctx.failures)
        if getattr(ctx, "driver_ok", False) or getattr(h, "NEEDS_DRIVER", True) is False:
            h.correspond(ctx)
        else:
            broken.append("driver-build")
        corr_broken = [f.name for f in ctx.failures[n_before:] if f.witness is None]
        if broken or corr_broken:
            found_before = sum(1 for f in ctx.failures if f.witness is not None)
            if hasattr(h, "search"):
                try:
                    h.search(ctx, broken + corr_broken)
                except Exception:
                    ctx.extra["search_error"] = traceback.format_exc()[-2000:]
            found_after = sum(1 for f in ctx.failures if f.witness is not None)
            if found_after == found_before:
                # nothing concrete found: the property is no longer shown to hold
                for b in broken:
                    ctx.fail("obligation", b, detail=ctx.build_log[-4000:] if not ctx.build_ok else
                             json.dumps(getattr(ctx, "audit_detail", {}), default=str)[:4000])
            else:
                # concrete inputs found: drop witness-less correspondence entries that they explain
                ctx.failures = [f for f in ctx.failures if f.witness is not None]
                ctx.extra["broken_obligations"] = broken + corr_broken
    except Exception:
        ctx.infra_errors.append(traceback.format_exc()[-3000:])
    return ctx.finish()


if __name__ == "__main__":
    sys.exit(main())
