"""Regenerate MANIFEST.json from the table below (run: /venv/bin/python -m fv.manifest_gen)."""
import json
from pathlib import Path

VERIF = Path(__file__).resolve().parents[1]

CLAIMED = {
    "C10": dict(
        text="Lean 4 theorems (any semigroup, any duration, any num_segments): scan_eq_fold, halveIdx_eq_halve (the Slice/Cat "
             "index arithmetic), naive_eq_fold, mixed_eq_fold incl. remainder recursion; the model's executable definitions are "
             "tied to funsor/sum_product.py by a correspondence run on every check (real funsor vs native Lean driver vs fold oracle).",
        note="Trusted: Lean kernel + {propext, Classical.choice, Quot.sound}; the hand-written model FV.C10 is tied to the code by "
             "differential testing only; sarkka_bilmes_product is compared with its naive counterpart without a theorem; float64 "
             "exactness on small integers / dyadics.",
        technique="Lean 4 proof (fun_induction over the halving scan) + model/implementation correspondence",
        design_ref="5 C10"),
}

NOT_YET = {}

ALL = [f"C{i:02d}" for i in range(1, 21)]


def main():
    checks = []
    for pid in ALL:
        if pid not in CLAIMED:
            continue
        c = CLAIMED[pid]
        checks.append({
            "property_id": pid,
            "quick_cmd": f"./check {pid} --tier quick",
            "thorough_cmd": f"./check {pid} --tier thorough",
            "evidence_file": f"evidence/{pid}.json",
            "replay_cmd_template": f"./check {pid} --replay {{path}}",
            "engine": "lean-proof+correspondence",
            "level_claimed": {"category": "proof", "text": c["text"], "design_ref": f"DESIGN.md section {c['design_ref']}"},
            "level_note": c["note"],
            "technique": c["technique"],
        })
    man = {
        "version": 1,
        "setup_cmd": "cd lean && lake build",
        "hooks": {
            "guard": "FUNSOR_VERIF",
            "enable": "no hooks are needed: harnesses observe funsor through public/run-time attributes only",
            "baseline_off_cmd": "cd /repo && /venv/bin/python -m pytest -ra -q -p no:cacheprovider --timeout=900 --continue-on-collection-errors -n 12",
            "source_commits": [],
            "add_only": True,
        },
        "engines": [{
            "name": "lean-proof+correspondence", "path": "check",
            "serves_properties": sorted(CLAIMED),
            "kind_free_text": "Lean 4 model + theorems (lean/FunsorVerif), translators (fv/extract) regenerating Gen/*.lean from /repo, "
                              "and a correspondence harness (fv/harness) diffing real funsor against the native Lean driver",
        }],
        "checks": checks,
        "notes": "See DESIGN.md. Exit 0 held / 1 violation / 2 infrastructure failure.",
        "not_applicable": [{"property_id": p, "reason": NOT_YET.get(p, "check not built yet in this round (work in progress; see DESIGN.md section 9)")}
                           for p in ALL if p not in CLAIMED],
    }
    (VERIF / "MANIFEST.json").write_text(json.dumps(man, indent=1) + "\n")


if __name__ == "__main__":
    main()
