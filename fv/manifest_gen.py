"""Regenerate MANIFEST.json from the table below (run: /venv/bin/python -m fv.manifest_gen)."""
import json
from pathlib import Path

VERIF = Path(__file__).resolve().parents[1]

CLAIMED = json.loads((VERIF / 'fv' / 'claims.json').read_text())

NOT_YET = {}

ALL = [f"C{i:02d}" for i in range(1, 21)]


def _props_modules(pid):
    base = VERIF / "lean" / "FunsorVerif" / "Props"
    mods = []
    if (base / f"{pid}.lean").exists():
        mods.append(f"FunsorVerif.Props.{pid}")
    if (base / pid).is_dir():
        mods += [f"FunsorVerif.Props.{pid}.{g.stem}" for g in sorted((base / pid).glob("*.lean"))]
    return mods


def main():
    checks = []
    for pid in ALL:
        if pid not in CLAIMED:
            continue
        c = CLAIMED[pid]
        checks.append({
            "property_id": pid,
            "quick_cmd": f"./check {pid} --tier quick",
            "thorough_cmd": f"./check {pid} --tier thorough",
            "evidence_file": f"evidence/{pid}.json",
            "replay_cmd_template": f"./check {pid} --replay {{path}}",
            "engine": "lean-proof+correspondence",
            "level_claimed": {"category": "proof", "text": c["text"], "design_ref": f"DESIGN.md section {c['design_ref']}"},
            "level_note": c["note"],
            "technique": c["technique"],
        })
    man = {
        "version": 1,
        # drivers + audit must build; the Props modules are pre-built for speed only — every check rebuilds its own
        # (after regenerating Gen/* from /repo), so a stale generated snapshot must not fail the setup.
        "setup_cmd": "cd lean && lake build FunsorVerif.Audit " + " ".join(f"drv_{p.lower()}" for p in sorted(CLAIMED))
                     + " && (lake build " + " ".join(" ".join(_props_modules(p)) for p in sorted(CLAIMED))
                     + " || echo 'setup: some Props modules did not build from the committed Gen snapshot; checks rebuild them')",
        "hooks": {
            "guard": "FUNSOR_VERIF",
            "enable": "no hooks are needed: harnesses observe funsor through public/run-time attributes only",
            "baseline_off_cmd": "cd /repo && /venv/bin/python -m pytest -ra -q -p no:cacheprovider --timeout=900 --continue-on-collection-errors -n 12",
            "source_commits": [],
            "add_only": True,
        },
        "engines": [{
            "name": "lean-proof+correspondence", "path": "check",
            "serves_properties": sorted(CLAIMED),
            "kind_free_text": "Lean 4 model + theorems (lean/FunsorVerif), translators (fv/extract) regenerating Gen/*.lean from /repo, "
                              "and a correspondence harness (fv/harness) diffing real funsor against the native Lean driver",
        }],
        "checks": checks,
        "notes": "See DESIGN.md. Exit 0 held / 1 violation / 2 infrastructure failure.",
        "not_applicable": [{"property_id": p, "reason": NOT_YET.get(p, "check not built yet in this round (work in progress; see DESIGN.md section 9)")}
                           for p in ALL if p not in CLAIMED],
    }
    (VERIF / "MANIFEST.json").write_text(json.dumps(man, indent=1) + "\n")


if __name__ == "__main__":
    main()
