"""Regenerate MANIFEST.json from the table below (run: /venv/bin/python -m fv.manifest_gen)."""
import json
from pathlib import Path

VERIF = Path(__file__).resolve().parents[1]

CLAIMED = {
    "C01": dict(
        text="Lean 4: the textbook meaning `denote` of funsor's term language (Model/Term.lean) is the specification; named-tensor "
             "operation lemmas and the partial evaluator soundness theorem (Props/C01.lean) are proved for all ranks/sizes. Tie: every "
             "generated expression is built through funsor's public API eagerly and as syntax, the syntax is serialised to the Lean "
             "driver and both are compared exactly on the whole finite input space.",
        note="Trusted: Lean kernel + {propext, Classical.choice, Quot.sound}; hand-written model tied by differential testing; numpy "
             "primitives modelled as index functions; exact fragment only (no transcendental ops); float64 exact on small integers.",
        technique="Lean 4 proof over a denotational term model + model/implementation correspondence",
        design_ref="5 C01"),
    "C09": dict(
        text="Lean 4 theorems over any CommSemiring: generalized distributive law (prod_sum_swap), independence of connected components, "
             "plate regrouping, scale-as-power, one-step invariant step_preserves_unroll with the ordinal-bookkeeping lemmas that "
             "discharge its side conditions, nested plan = flat unrolling (sum_product_exact_partial). The executable model of the "
             "elimination loop and the brute-force `unroll` oracle are tied to funsor/sum_product.py by correspondence on every run.",
        note="Partial: the lift of the step invariant to the whole while-loop of the executable model is not proved (run-time echo "
             "psp = unroll on every case instead). Gaussian factors outside the model. Trusted: Lean kernel, Mathlib, harness.",
        technique="Lean 4 proof (Finset sum/product algebra, loop-step invariant) + exhaustive/random factor-graph correspondence",
        design_ref="5 C09"),
    "C10": dict(
        text="Lean 4 theorems (any semigroup, any duration, any num_segments): scan_eq_fold, halveIdx_eq_halve (the Slice/Cat "
             "index arithmetic), naive_eq_fold, mixed_eq_fold incl. remainder recursion; the model's executable definitions are "
             "tied to funsor/sum_product.py by a correspondence run on every check (real funsor vs native Lean driver vs fold oracle).",
        note="Trusted: Lean kernel + {propext, Classical.choice, Quot.sound}; the hand-written model FV.C10 is tied to the code by "
             "differential testing only; sarkka_bilmes_product is compared with its naive counterpart without a theorem; float64 "
             "exactness on small integers / dyadics.",
        technique="Lean 4 proof (fun_induction over the halving scan) + model/implementation correspondence",
        design_ref="5 C10"),
    "C14": dict(
        text="Lean 4 theorems: Delta evaluation/reduction/integration identities, mixed-radix decode/encode bijection for any sizes, "
             "inverse-CDF index lemma for the draw as the source reads now (valid for 0 <= r < 1, clamp is a no-op in exact arithmetic), "
             "mass preservation per batch element and particle, Gaussian sample affine/mean/covariance identities over Q. The draw "
             "statement of Tensor._sample is re-read from /repo's AST on every run (Gen/C14Variant.lean) and the obligation over it "
             "re-elaborated; RNG-stubbed correspondence with chosen uniforms ties the model to the code.",
        note="Exact arithmetic: float rounding of cumsum is outside the theorem (covered by dedicated rounding-prone rows in the harness); "
             "triangular solve / Cholesky enter as hypotheses. Trusted: Lean kernel, Mathlib matrices, translator, harness.",
        technique="Lean 4 proof + AST translator of the draw statement + RNG-stubbed correspondence",
        design_ref="5 C14"),
    "C19": dict(
        text="Lean 4 theorems for all ranks and sizes: ravel/unravel inverses, toFunsor_sem, toFunsor_rejects_unnamed, "
             "toData_toFunsor_roundtrip, align_sem (values and inputs order), alignTensor_sem, materialize_sem. Exhaustive "
             "correspondence (ranks 0-4 quick / 0-5 thorough) where .inputs order and .data layout are the gated observables.",
        note="Partial: toData for non-sorted name_to_dim and align of lazy terms/Contraction/Delta are tied by correspondence and a Python "
             "oracle only. Trusted: Lean kernel, harness; numpy reshape/transpose modelled at index level.",
        technique="Lean 4 proof (index arithmetic by induction) + exhaustive conversion/alignment correspondence",
        design_ref="5 C19"),
}

NOT_YET = {}

ALL = [f"C{i:02d}" for i in range(1, 21)]


def _props_modules(pid):
    base = VERIF / "lean" / "FunsorVerif" / "Props"
    mods = []
    if (base / f"{pid}.lean").exists():
        mods.append(f"FunsorVerif.Props.{pid}")
    if (base / pid).is_dir():
        mods += [f"FunsorVerif.Props.{pid}.{g.stem}" for g in sorted((base / pid).glob("*.lean"))]
    return mods


def main():
    checks = []
    for pid in ALL:
        if pid not in CLAIMED:
            continue
        c = CLAIMED[pid]
        checks.append({
            "property_id": pid,
            "quick_cmd": f"./check {pid} --tier quick",
            "thorough_cmd": f"./check {pid} --tier thorough",
            "evidence_file": f"evidence/{pid}.json",
            "replay_cmd_template": f"./check {pid} --replay {{path}}",
            "engine": "lean-proof+correspondence",
            "level_claimed": {"category": "proof", "text": c["text"], "design_ref": f"DESIGN.md section {c['design_ref']}"},
            "level_note": c["note"],
            "technique": c["technique"],
        })
    man = {
        "version": 1,
        "setup_cmd": "cd lean && lake build FunsorVerif.Audit " + " ".join(
            f"drv_{p.lower()} " + " ".join(_props_modules(p)) for p in sorted(CLAIMED)),
        "hooks": {
            "guard": "FUNSOR_VERIF",
            "enable": "no hooks are needed: harnesses observe funsor through public/run-time attributes only",
            "baseline_off_cmd": "cd /repo && /venv/bin/python -m pytest -ra -q -p no:cacheprovider --timeout=900 --continue-on-collection-errors -n 12",
            "source_commits": [],
            "add_only": True,
        },
        "engines": [{
            "name": "lean-proof+correspondence", "path": "check",
            "serves_properties": sorted(CLAIMED),
            "kind_free_text": "Lean 4 model + theorems (lean/FunsorVerif), translators (fv/extract) regenerating Gen/*.lean from /repo, "
                              "and a correspondence harness (fv/harness) diffing real funsor against the native Lean driver",
        }],
        "checks": checks,
        "notes": "See DESIGN.md. Exit 0 held / 1 violation / 2 infrastructure failure.",
        "not_applicable": [{"property_id": p, "reason": NOT_YET.get(p, "check not built yet in this round (work in progress; see DESIGN.md section 9)")}
                           for p in ALL if p not in CLAIMED],
    }
    (VERIF / "MANIFEST.json").write_text(json.dumps(man, indent=1) + "\n")


if __name__ == "__main__":
    main()
