import json, sys, subprocess
pid, variant = sys.argv[1], sys.argv[2]
wt = f"/tmp/seedwt_{pid}_{variant}"; out = f"/tmp/seedout/{pid}_{variant}"
p = [json.loads(l) for l in open('/verif/properties.jsonl') if json.loads(l)['id']==pid][0]
subprocess.run(['git','-C','/repo','worktree','add','-q','--detach',wt,'HEAD'],check=True)
t = open('/verif/fv/SEED_PROMPT.txt').read()
anch = "; ".join(f"{m['name']} ({m.get('where')})" for m in p['anchors']['mechanism'])
t = (t.replace('{WT}',wt).replace('{OUT}',out).replace('{PID}',pid).replace('{TITLE}',p['title'])
      .replace('{STATEMENT}',p['statement']).replace('{QUANT}',p['quantifier']['text']).replace('{ANCHORS}',anch).replace('{VARIANT}',variant))
import glob, os
used = []
for m in sorted(glob.glob('/verif/seeded/*/meta.json')):
    mm = json.load(open(m))
    used.append(f"- {mm.get('files')}: {str(mm.get('summary',''))[:160]}")
if int(variant) >= 4:
    t += ("\n\nFor this variant prefer one of: (a) TWO cooperating edits in different functions/files that each look harmless alone; "
          "(b) a defect that needs a MULTI-STEP history (state left behind by an earlier call: caches, counters, interned objects, the "
          "interpretation stack, mutated defaults); (c) a defect in a rarely used code path reachable only through a less common public "
          "entry point (a different module than earlier seeds: look beyond the anchor files, at their callers and helpers).\n")
if int(variant) >= 6:
    t += ("\nFor this variant also consider how the property's mechanism is reached from funsor's higher-level or peripheral modules "
          "(funsor/recipes.py, funsor/montecarlo.py, funsor/approximations.py, funsor/constant.py, funsor/factory.py, funsor/einsum/, "
          "funsor/syntax.py, funsor/instrument.py, funsor/util.py, funsor/typing.py, funsor/ops/*.py helper functions) and seed the defect "
          "THERE when that breaks this property through a public entry point; defects whose trigger is a numeric or structural edge "
          "(size-1 dimensions, empty shapes, zero-size reductions, duplicate names across nesting levels, negative steps/indices, "
          "dtype promotion) are welcome as long as ordinary use does not expose them.\n")
if int(variant) >= 8:
    t += ("\nFor this variant prefer a defect in how TWO FEATURES COMBINE (each correct alone): e.g. an optimisation that is valid for one "
          "argument kind / interpretation / semiring / dtype / shape class but is applied to another; a fast path guarded by a condition that is "
          "slightly too weak; an early return that skips a later normalisation step; an equality / identity / hash test used where the other "
          "notion was meant; iteration over a dict or set where order or multiplicity matters. Keep the diff under ~15 changed lines.\n")
if int(variant) >= 9:
    t += ("\nFor this variant start from USAGE: skim funsor's README.md, docs/source/*.rst and examples/*.py (those that run on the numpy backend) "
          "for public usage patterns relevant to this property whose numerical result the test suite does not pin down, and seed the defect on "
          "the code path such a pattern takes (helper functions, default arguments, convenience wrappers, operator sugar, __call__/__getitem__ "
          "desugaring, to_funsor/to_data registrations for Python builtins, pretty-printing/quote round trips where the property covers them).\n")
if int(variant) >= 10:
    t += ("\nFor this variant let MEASUREMENT pick the site: instrument a run of the relevant test files (sys.settrace / a counting decorator / "
          "`python -m trace --count` — the `coverage` package may not be installed) to list functions and branches on this property's path "
          "that funsor's suite never executes, or executes with a single argument kind / shape class only; seed the defect in such a branch so "
          "that it is reachable from the public API. Say in meta.json which measurement justified the choice.\n")
t += "\n\nSites ALREADY USED by earlier seeded changes (for any property) — choose a DIFFERENT function and mechanism:\n" + "\n".join(used) + "\n"
open(f'/tmp/seedprompt_{pid}_{variant}.txt','w').write(t)
print(f'/tmp/seedprompt_{pid}_{variant}.txt')
