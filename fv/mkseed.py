import json, sys, subprocess
pid, variant = sys.argv[1], sys.argv[2]
wt = f"/tmp/seedwt_{pid}_{variant}"; out = f"/tmp/seedout/{pid}_{variant}"
p = [json.loads(l) for l in open('/verif/properties.jsonl') if json.loads(l)['id']==pid][0]
subprocess.run(['git','-C','/repo','worktree','add','-q','--detach',wt,'HEAD'],check=True)
t = open('/verif/fv/SEED_PROMPT.txt').read()
anch = "; ".join(f"{m['name']} ({m.get('where')})" for m in p['anchors']['mechanism'])
t = (t.replace('{WT}',wt).replace('{OUT}',out).replace('{PID}',pid).replace('{TITLE}',p['title'])
      .replace('{STATEMENT}',p['statement']).replace('{QUANT}',p['quantifier']['text']).replace('{ANCHORS}',anch).replace('{VARIANT}',variant))
open(f'/tmp/seedprompt_{pid}_{variant}.txt','w').write(t)
print(f'/tmp/seedprompt_{pid}_{variant}.txt')
