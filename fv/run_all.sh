#!/bin/sh
# Run every claimed check (quick by default) against /repo; print one summary line per property.
cd "$(dirname "$0")/.."
TIER="${1:-quick}"
for i in 01 02 03 04 05 06 07 08 09 10 11 12 13 14 15 16 17 18 19 20; do
  out=$(timeout 3600 ./check C$i --tier "$TIER" 2>&1); rc=$?
  echo "C$i rc=$rc $(echo "$out" | grep -E "$TIER seed" | tail -1) $(echo "$out" | grep -c '^VIOLATION') violations"
  echo "$out" | grep -E '^VIOLATION|^INFRA' | head -3
done
