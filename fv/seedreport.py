"""Regenerate seeded/README.md from seeded/*/meta.json (which checks catch which seeded changes)."""
import json
from pathlib import Path
VERIF = Path(__file__).resolve().parents[1]
rows = []
for d in sorted((VERIF / "seeded").iterdir()):
    m = d / "meta.json"
    if not m.exists():
        continue
    meta = json.loads(m.read_text())
    checks = meta.get("checks", {})
    def _static_only(r):
        v = r.get("violations") or []
        return bool(v) and all("no-failing-input-found" in x for x in v)
    caught = sorted((p + "°" if _static_only(r) else p) for p, r in checks.items() if r.get("exit") == 1)
    missed = sorted(p for p, r in checks.items() if r.get("exit") == 0)
    own = checks.get(meta["property"], {})
    rows.append((d.name, meta["property"], meta.get("summary", "")[:220].replace("\n", " ").replace("|", "/"),
                 meta.get("needs", "")[:200].replace("\n", " ").replace("|", "/"),
                 "caught" if own.get("exit") == 1 else ("MISSED" if own.get("exit") == 0 else str(own.get("exit"))),
                 ", ".join(caught), ", ".join(missed), meta.get("strengthened", "")))
out = ["# Seeded changes (independent sub-agents, property text only) and which checks catch them", "",
       "`°` after a check name: that check exits 1 but only because a proof obligation / source-form table no longer checks and its search found no failing input (`no-failing-input-found`) — i.e. it notices that the code changed under it, not that the property is violated.", "",
       "Each directory holds `patch.diff`, `demo.py` (passes on the clean tree, fails with the patch — confirmed by `fv/seedtest.py adopt` in a fresh scratch worktree) and `meta.json` (incl. the exit code of every check run against the patched tree).", "",
       "| seed | property | change | needs | own check | checks that exit 1 | checks that exit 0 | strengthening done |", "|---|---|---|---|---|---|---|---|"]
for r in rows:
    out.append("| " + " | ".join(r) + " |")
(VERIF / "seeded" / "README.md").write_text("\n".join(out) + "\n")
print(f"{len(rows)} seeds; own-check caught: {sum(1 for r in rows if r[4]=='caught')}, missed: {sum(1 for r in rows if r[4]=='MISSED')}")
