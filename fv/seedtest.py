"""
fv/seedtest.py — confirm a seeded defect and run checks against it.

  /venv/bin/python -m fv.seedtest adopt <outdir> <seed-id>     copy patch/demo/meta from a seeding agent's output into
                                                               seeded/<seed-id>/, after confirming in a fresh scratch worktree that
                                                               the demo passes on the clean tree and fails with the patch
  /venv/bin/python -m fv.seedtest run <seed-id> [props…]       run ./check for the given properties (default: the seeded one)
                                                               against a scratch worktree with the patch applied; record results
  /venv/bin/python -m fv.seedtest suite <seed-id>              run funsor's full test suite on the patched worktree (slow)

Scratch worktrees live under /tmp and are removed afterwards.
"""
import json
import os
import shutil
import subprocess
import sys
import time
from pathlib import Path

VERIF = Path(__file__).resolve().parents[1]
SEEDED = VERIF / "seeded"


def sh(cmd, **kw):
    return subprocess.run(cmd, stdout=subprocess.PIPE, stderr=subprocess.STDOUT, text=True, **kw)


class PreserveGenerated:
    """Checks regenerate lean/FunsorVerif/Gen/Cxx* and evidence/Cxx.json from the tree they run against; when
    that tree is a MUTANT the regenerated files must not survive.  Snapshot the files of the properties being
    run before, restore them after (per property, so that concurrent runs for other properties and checks on
    /repo are not disturbed)."""
    GEN = VERIF / "lean" / "FunsorVerif" / "Gen"
    EVI = VERIF / "evidence"

    def __init__(self, props=None):
        self.props = list(props) if props else None

    def _files(self):
        out = []
        for p in self.props:
            out += [f for f in self.GEN.glob(f"{p}*") if f.is_file()]
            out += [f for f in self.EVI.glob(f"{p}.json")]
        return out

    def __enter__(self):
        self.tmp = Path(f"/tmp/seedkeep_{os.getpid()}_{id(self)}")
        shutil.rmtree(self.tmp, ignore_errors=True)
        self.tmp.mkdir(parents=True)
        if self.props is None:
            self.props = sorted({f.name[:3] for f in self.GEN.iterdir() if f.is_file()})
        self.saved = {}
        for i, f in enumerate(self._files()):
            shutil.copy2(f, self.tmp / str(i))
            self.saved[f] = self.tmp / str(i)
        return self

    def __exit__(self, *a):
        for f in self._files():
            if f not in self.saved:
                f.unlink()          # created by the mutant run
        for f, src in self.saved.items():
            if not f.exists() or f.read_bytes() != src.read_bytes():
                shutil.copy2(src, f)
        shutil.rmtree(self.tmp, ignore_errors=True)


class Worktree:
    def __init__(self, tag):
        self.path = f"/tmp/seedrun_{tag}_{os.getpid()}"

    def __enter__(self):
        r = sh(["git", "-C", "/repo", "worktree", "add", "-q", "--detach", self.path, "HEAD"])
        if r.returncode:
            raise RuntimeError(r.stdout)
        return self.path

    def __exit__(self, *a):
        sh(["git", "-C", "/repo", "worktree", "remove", "--force", self.path])
        shutil.rmtree(self.path, ignore_errors=True)


def run_demo(wt, demo):
    env = dict(os.environ, PYTHONPATH=wt, PYTHONDONTWRITEBYTECODE="1")
    r = sh(["/venv/bin/python", "-B", str(demo)], cwd=wt, env=env, timeout=900)
    return r.returncode, r.stdout[-1500:]


def adopt(outdir, sid):
    outdir = Path(outdir)
    patch = outdir / "patch.diff"
    demo = outdir / "demo.py"
    meta = json.loads((outdir / "meta.json").read_text())
    with Worktree(sid) as wt:
        rc_clean, out_clean = run_demo(wt, demo)
        r = sh(["git", "-C", wt, "apply", str(patch)])
        if r.returncode:
            print("patch does not apply:", r.stdout)
            return 1
        rc_mut, out_mut = run_demo(wt, demo)
    print(f"demo clean rc={rc_clean}, mutant rc={rc_mut}")
    if rc_clean != 0 or rc_mut == 0:
        print("NOT CONFIRMED\n--- clean:\n", out_clean, "\n--- mutant:\n", out_mut)
        return 1
    d = SEEDED / sid
    d.mkdir(parents=True, exist_ok=True)
    shutil.copy(patch, d / "patch.diff")
    shutil.copy(demo, d / "demo.py")
    meta.update({"confirmed": {"demo_clean_rc": rc_clean, "demo_mutant_rc": rc_mut,
                               "demo_mutant_tail": out_mut[-400:],
                               "how": "fresh scratch worktree of /repo HEAD; demo run before and after `git apply patch.diff`"},
                 "repo_head": sh(["git", "-C", "/repo", "rev-parse", "--short", "HEAD"]).stdout.strip()})
    (d / "meta.json").write_text(json.dumps(meta, indent=1))
    print("adopted", d)
    return 0


def run(sid, props):
    d = SEEDED / sid
    meta = json.loads((d / "meta.json").read_text())
    props = props or [meta["property"]]
    results = meta.setdefault("checks", {})
    with PreserveGenerated(props), Worktree(sid) as wt:
        r = sh(["git", "-C", wt, "apply", str(d / "patch.diff")])
        if r.returncode:
            print("patch does not apply:", r.stdout)
            return 1
        for p in props:
            t0 = time.time()
            env = dict(os.environ, FUNSOR_REPO=wt)
            r = sh([str(VERIF / "check"), p, "--tier", "quick"], cwd=VERIF, env=env, timeout=3600)
            lines = [l for l in r.stdout.splitlines() if "conda" not in l]
            viol = [l for l in lines if l.startswith("VIOLATION")]
            results[p] = {"exit": r.returncode, "violations": viol[:5], "tail": lines[-1:] if lines else [],
                          "wall_s": round(time.time() - t0, 1),
                          "replays": []}
            # keep the replay documents next to the seed (they are evidence of detection)
            for v in viol[:2]:
                try:
                    rp = v.split("replay=")[1].split()[0]
                    doc = json.loads((VERIF / rp).read_text())
                    results[p]["replays"].append({"broken": doc.get("broken"), "expected": str(doc.get("expected"))[:300],
                                                  "got": str(doc.get("got"))[:300]})
                except Exception:
                    pass
            print(p, "exit", r.returncode, viol[:2])
    (d / "meta.json").write_text(json.dumps(meta, indent=1))
    return 0


def suite(sid):
    d = SEEDED / sid
    meta = json.loads((d / "meta.json").read_text())
    with Worktree(sid) as wt:
        sh(["git", "-C", wt, "apply", str(d / "patch.diff")])
        env = dict(os.environ, PYTHONPATH=wt)
        r = sh(["/venv/bin/python", "-m", "pytest", "-q", "-p", "no:cacheprovider", "--timeout=900",
                "--continue-on-collection-errors", "-n", "12"], cwd=wt, env=env, timeout=3600)
        tail = r.stdout.strip().splitlines()[-1]
    meta["suite_confirmed"] = tail
    (d / "meta.json").write_text(json.dumps(meta, indent=1))
    print(tail)
    return 0


if __name__ == "__main__":
    cmd = sys.argv[1]
    if cmd == "adopt":
        sys.exit(adopt(sys.argv[2], sys.argv[3]))
    if cmd == "run":
        sys.exit(run(sys.argv[2], sys.argv[3:]))
    if cmd == "suite":
        sys.exit(suite(sys.argv[2]))
    if cmd == "matrix":
        pass  # handled at the end of the file (after `matrix` is defined)


def matrix(sids, props, jobs=6):
    """Run every listed property's quick check against every listed seed (one seed at a time, the
    properties of a seed in parallel) and record exit codes in seeded/<id>/meta.json["checks"].
    NOTE: checks regenerate lean/FunsorVerif/Gen/* and evidence/* from the MUTANT tree; re-run the
    checks on /repo afterwards before committing evidence."""
    from concurrent.futures import ThreadPoolExecutor
    for sid in sids:
        d = SEEDED / sid
        meta = json.loads((d / "meta.json").read_text())
        results = meta.setdefault("checks", {})
        with PreserveGenerated(props), Worktree(sid) as wt:
            r = sh(["git", "-C", wt, "apply", str(d / "patch.diff")])
            if r.returncode:
                print(sid, "patch does not apply:", r.stdout)
                continue

            def one(p):
                t0 = time.time()
                env = dict(os.environ, FUNSOR_REPO=wt)
                try:
                    r = sh([str(VERIF / "check"), p, "--tier", "quick"], cwd=VERIF, env=env, timeout=1800)
                    lines = [l for l in r.stdout.splitlines() if "conda" not in l]
                    viol = [l for l in lines if l.startswith("VIOLATION")]
                    return p, {"exit": r.returncode, "violations": viol[:3], "wall_s": round(time.time() - t0, 1)}
                except subprocess.TimeoutExpired:
                    return p, {"exit": "timeout", "violations": [], "wall_s": round(time.time() - t0, 1)}
            with ThreadPoolExecutor(jobs) as ex:
                for p, res in ex.map(one, props):
                    old = results.get(p, {})
                    old.update(res)
                    results[p] = old
        (d / "meta.json").write_text(json.dumps(meta, indent=1))
        print(sid, {p: results[p]["exit"] for p in props})


if __name__ == "__main__" and len(sys.argv) > 1 and sys.argv[1] == "matrix":
    sids = sys.argv[2].split(",")
    props = sys.argv[3].split(",")
    matrix(sids, props)
