"""
fv/ser.py — funsor term  ->  wire S-expression understood by lean/FunsorVerif/Model/TermParse.lean

    to_wire(f)            nested python lists/atoms for fv.common.sx(); raises Unsupported for
                          anything outside the modelled term language ("beyond model")
    impl_values(f, ins, env)   values of a *ground* implementation result over all points of the named
                          integer inputs `ins` (row-major) as exact numbers — the counterpart of the
                          driver's `denote TERM INS ENV` answer
    parse_table(answer)   driver answer -> list of (shape, [values]) | None
    env_wire(env)         {"x": ndarray | scalar}  ->  wire environment

Only public attributes of funsor objects are read.
"""
import itertools
from collections import OrderedDict
from fractions import Fraction

import numpy as np

from .common import Q, parse_sx, atom_to_num
from . import futil
from .futil import funsor, Tensor, Number, Variable, exact

from funsor.terms import (Unary, Binary, Reduce, Subs, Slice, Stack, Cat, Lambda, Independent, Align,
                          Finitary, Funsor)
from funsor.cnf import Contraction
from funsor.delta import Delta
import funsor.ops as ops


class Unsupported(Exception):
    pass


OPNAME = {"and_": "and", "or_": "or"}

EXACT_UNARY = {"neg", "pos", "abs", "invert", "reciprocal"}
EXACT_BINARY = {"add", "sub", "mul", "truediv", "floordiv", "mod", "pow", "max", "min", "and", "or", "xor",
                "eq", "ne", "lt", "le", "gt", "ge", "getitem", "matmul"}
REDUCTION_OPS = {"sum", "prod", "amax", "amin", "all", "any"}
ASSOC = {"add", "mul", "max", "min", "and", "or", "xor", "null"}


def opname(op):
    n = getattr(op, "name", None) or getattr(op, "__name__", None)
    if n is None:
        raise Unsupported(f"op {op!r}")
    return OPNAME.get(n, n)


def dom_wire(d):
    dt = d.dtype
    if dt == "real":
        return ["real"] + [int(s) for s in d.shape]
    if isinstance(dt, int):
        return ["bint", int(dt)] + [int(s) for s in d.shape]
    raise Unsupported(f"domain {d!r}")


def dtype_wire(dt):
    if dt == "real":
        return "real"
    if isinstance(dt, int):
        return int(dt)
    raise Unsupported(f"dtype {dt!r}")


def num_wire(x):
    x = x.item() if hasattr(x, "item") else x
    if isinstance(x, (bool, np.bool_)):
        return 1 if x else 0
    if isinstance(x, int):
        return x
    return float(x)  # sx() turns floats into exact rationals / specials


def _slice_item(part, size):
    if isinstance(part, (int, np.integer)):
        i = int(part)
        if i < 0:
            i += size
        return ["int", i]
    if isinstance(part, slice):
        start, stop, step = part.indices(size)
        if step <= 0:
            raise Unsupported("negative slice step")
        stop = max(start, stop)
        return ["slice", start, stop, step]
    raise Unsupported(f"index item {part!r}")


def op_wire(op, arg_shape=None):
    n = opname(op)
    d = dict(getattr(op, "defaults", {}) or {})
    if n in REDUCTION_OPS:
        axis = d.get("axis", None)
        if axis is None:
            ax = "none"
        elif isinstance(axis, (int, np.integer)):
            ax = int(axis)
        else:
            ax = [int(a) for a in axis]
        return [n, ["axis", ax], ["keepdims", bool(d.get("keepdims", False))]]
    if n == "reshape":
        return [n, ["shape", [int(s) for s in d["shape"]]]]
    if n == "getitem":
        return [n, ["offset", int(d.get("offset", 0))]]
    if n == "getslice":
        index = d["index"]
        if not isinstance(index, tuple):
            index = (index,)
        if any(p is Ellipsis or p is None for p in index):
            raise Unsupported("getslice with Ellipsis/None")
        if arg_shape is None or len(index) > len(arg_shape):
            raise Unsupported("getslice rank")
        return [n, ["index", [_slice_item(p, arg_shape[i]) for i, p in enumerate(index)]]]
    if d:
        raise Unsupported(f"op {n} with parameters {d}")
    return [n]


def vars_wire(vs):
    return [[Q(v.name), dom_wire(v.output)] for v in sorted(vs, key=lambda v: v.name)]


def to_wire(f, ext=False):
    """`ext=True` (opt-in, used by C01) additionally serialises `Finitary` nodes of ops.stack / ops.cat /
    ops.einsum as (finitary OP term*), which Model/C01Ext.lean desugars; default behaviour is unchanged."""
    if isinstance(f, Variable):
        return ["var", Q(f.name), dom_wire(f.output)]
    if isinstance(f, Number):
        return ["num", num_wire(f.data), dtype_wire(f.dtype)]
    if isinstance(f, Tensor):
        data = np.asarray(f.data)
        ins = [[Q(k), int(v.size)] for k, v in f.inputs.items()]
        for k, v in f.inputs.items():
            if v.shape:
                raise Unsupported("tensor input with shape")
        return ["tensor", ins, dom_wire(f.output), [num_wire(x) for x in data.reshape(-1)]]
    if isinstance(f, Unary):
        n = opname(f.op)
        if n not in EXACT_UNARY and n not in REDUCTION_OPS and n not in ("reshape", "getslice"):
            raise Unsupported(f"unary op {n}")
        return ["unary", op_wire(f.op, tuple(f.arg.output.shape)), to_wire(f.arg, ext)]
    if isinstance(f, Binary):
        n = opname(f.op)
        if n not in EXACT_BINARY:
            raise Unsupported(f"binary op {n}")
        return ["binary", op_wire(f.op), to_wire(f.lhs, ext), to_wire(f.rhs, ext)]
    if isinstance(f, Reduce):
        n = opname(f.op)
        if n not in ASSOC:
            raise Unsupported(f"reduce op {n}")
        return ["reduce", n, to_wire(f.arg, ext), vars_wire(f.reduced_vars)]
    if isinstance(f, Subs):
        return ["subs", to_wire(f.arg, ext), [[Q(k), to_wire(v, ext)] for k, v in f.subs.items()]]
    if isinstance(f, Slice):
        s = f.slice
        return ["slice", Q(f.name), int(s.start), int(s.stop), int(s.step), int(f.output.dtype)]
    if isinstance(f, Stack):
        return ["stack", Q(f.name)] + [to_wire(p, ext) for p in f.parts]
    if isinstance(f, Cat):
        sizes = [int(p.inputs[f.part_name].size) for p in f.parts]
        return ["cat", Q(f.name), Q(f.part_name), sizes] + [to_wire(p, ext) for p in f.parts]
    if isinstance(f, Lambda):
        return ["lambda", Q(f.var.name), int(f.var.output.size), to_wire(f.expr, ext)]
    if isinstance(f, Independent):
        return ["independent", to_wire(f.fn, ext), Q(f.reals_var), Q(f.bint_var), Q(f.diag_var),
                int(f.fn.inputs[f.bint_var].size)]
    if isinstance(f, Align):
        return ["align", to_wire(f.arg, ext), [Q(n) for n in f._ast_values[1]]]
    if isinstance(f, Contraction):
        r, b = opname(f.red_op), opname(f.bin_op)
        if r not in ASSOC or b not in ASSOC:
            raise Unsupported(f"contraction ops {r},{b}")
        return ["contraction", r, b, vars_wire(f.reduced_vars)] + [to_wire(t, ext) for t in f.terms]
    if isinstance(f, Delta):
        return ["delta"] + [[Q(name), to_wire(point, ext), to_wire(logd, ext)] for name, (point, logd) in f.terms]
    if ext and isinstance(f, Finitary):
        return finitary_wire(f, ext)
    raise Unsupported(type(f).__name__)


def finitary_wire(f, ext=True):
    """Finitary(ops.stack | ops.cat | ops.einsum, args) -> (finitary (OP params…) term*)  [opt-in, C01]."""
    n = opname(f.op)
    d = dict(getattr(f.op, "defaults", {}) or {})
    args = [to_wire(a, ext) for a in f.args]
    if n == "stack":
        dim = int(d.get("dim", 0))
        if dim != 0:
            raise Unsupported("finitary stack dim != 0")
        return ["finitary", ["stack", ["dim", 0]]] + args
    if n == "cat":
        axis = int(d.get("axis", 0))
        if axis != 0 or any(len(a.output.shape) < 1 for a in f.args):
            raise Unsupported("finitary cat axis != 0")
        return ["finitary", ["cat", ["axis", 0], ["sizes", [int(a.output.shape[0]) for a in f.args]]]] + args
    if n == "einsum":
        eq = d["equation"].replace(" ", "")
        if "->" not in eq or "." in eq:
            raise Unsupported("einsum without explicit output / with ellipsis")
        lhs, out = eq.split("->")
        ins = lhs.split(",")
        if len(ins) != len(f.args):
            raise Unsupported("einsum arity")
        letters = {}
        for sub, a in zip(ins, f.args):
            if len(sub) != len(a.output.shape):
                raise Unsupported("einsum rank")
            for c, size in zip(sub, a.output.shape):
                if letters.setdefault(c, int(size)) != int(size):
                    raise Unsupported("einsum size mismatch")
        return ["finitary", ["einsum", ["letters", [[Q(c), k] for c, k in sorted(letters.items())]],
                             ["inputs", [Q(s_) for s_ in ins]], ["output", Q(out)]]] + args
    raise Unsupported(f"finitary {n}")


def env_wire(env):
    out = []
    for k, v in env.items():
        a = np.asarray(v.data if isinstance(v, (Tensor, Number)) else v)
        if a.ndim == 0:
            out.append([Q(k), num_wire(a)])
        else:
            out.append([Q(k), ["arr", [int(s) for s in a.shape], [num_wire(x) for x in a.reshape(-1)]]])
    return out


def ins_wire(ins):
    return [[Q(n), int(s)] for n, s in ins]


def impl_values(f, ins, env=None):
    """Ground implementation result -> list over all points of `ins` (row-major) of
    (shape, [exact values]); returns None if `f` is not a Tensor/Number after binding `env`
    (a lazy result = declined)."""
    if env:
        f = f(**{k: v for k, v in env.items() if k in f.inputs})
    if not isinstance(f, (Tensor, Number)):
        return None
    tab = futil.table(f, list(ins))
    nb = len(ins)
    ev_shape = tuple(tab.shape[nb:])
    out = []
    for p in itertools.product(*[range(s) for _, s in ins]):
        cell = tab[p]
        out.append((list(ev_shape), [exact(x) for x in np.asarray(cell).reshape(-1)]))
    return out


def parse_table(answer):
    """`ok ((arr (shape) (vals)) | undef …)` -> list of (shape, [values]) | None ; None on error."""
    if not answer.startswith("ok "):
        return None
    t = parse_sx(answer[3:])
    out = []
    for cell in t:
        if cell == "undef":
            out.append(None)
        else:
            _, shape, vals = cell
            out.append(([int(s) for s in shape], [atom_to_num(v) for v in vals]))
    return out


def tables_equal(impl, model, tol=0.0):
    """Compare impl_values output with parse_table output cell by cell.
    Returns (ok, first_bad_index). A model cell `None` (undef) never matches a value."""
    if impl is None or model is None or len(impl) != len(model):
        return False, -1
    for i, (a, b) in enumerate(zip(impl, model)):
        if b is None:
            return False, i
        if list(a[0]) != list(b[0]) or len(a[1]) != len(b[1]):
            return False, i
        for x, y in zip(a[1], b[1]):
            if not futil.same_num(x, y, tol):
                return False, i
    return True, None
