/-
  Driver.lean — line protocol.  One request per line on stdin:
      <PROP> <cmd> <sexp>*
  one answer per line on stdout (`ok …` / `err …`).  Imports only core-only modules
  (Core/, Model/, Gen/, Drv/), so it links natively without Mathlib.
-/
import FunsorVerif.Drv.C01
import FunsorVerif.Drv.C02
import FunsorVerif.Drv.C03
import FunsorVerif.Drv.C04
import FunsorVerif.Drv.C05
import FunsorVerif.Drv.C06
import FunsorVerif.Drv.C07
import FunsorVerif.Drv.C08
import FunsorVerif.Drv.C09
import FunsorVerif.Drv.C10
import FunsorVerif.Drv.C11
import FunsorVerif.Drv.C12
import FunsorVerif.Drv.C13
import FunsorVerif.Drv.C14
import FunsorVerif.Drv.C15
import FunsorVerif.Drv.C16
import FunsorVerif.Drv.C17
import FunsorVerif.Drv.C18
import FunsorVerif.Drv.C19
import FunsorVerif.Drv.C20
open FV

def dispatch (line : String) : String :=
  match Sexp.parseMany line with
  | none => "err parse"
  | some [] => "err empty"
  | some (Sexp.atom p :: args) =>
    match p with
    | "C01" => Drv.C01.handle args
    | "C02" => Drv.C02.handle args
    | "C03" => Drv.C03.handle args
    | "C04" => Drv.C04.handle args
    | "C05" => Drv.C05.handle args
    | "C06" => Drv.C06.handle args
    | "C07" => Drv.C07.handle args
    | "C08" => Drv.C08.handle args
    | "C09" => Drv.C09.handle args
    | "C10" => Drv.C10.handle args
    | "C11" => Drv.C11.handle args
    | "C12" => Drv.C12.handle args
    | "C13" => Drv.C13.handle args
    | "C14" => Drv.C14.handle args
    | "C15" => Drv.C15.handle args
    | "C16" => Drv.C16.handle args
    | "C17" => Drv.C17.handle args
    | "C18" => Drv.C18.handle args
    | "C19" => Drv.C19.handle args
    | "C20" => Drv.C20.handle args
    | "ping" => "ok pong"
    | _ => "err unknown-property"
  | some _ => "err bad-request"

partial def loop (hin : IO.FS.Stream) (hout : IO.FS.Stream) : IO Unit := do
  let line ← hin.getLine
  if line.isEmpty then return ()
  let l := line.trimAscii.toString
  if l.isEmpty then
    hout.putStrLn "err empty"
  else
    hout.putStrLn (dispatch l)
  loop hin hout

def main : IO Unit := do
  let hin ← IO.getStdin
  let hout ← IO.getStdout
  loop hin hout
  hout.flush
