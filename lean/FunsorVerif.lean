-- Root of the `FunsorVerif` library; the lakefile globs every module under FunsorVerif/.
import FunsorVerif.Core.Sexp
import FunsorVerif.Core.XR
