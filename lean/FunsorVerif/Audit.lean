/-
  Audit.lean — `#audit_module "Prefix"`: for every theorem declared in a module whose name
  starts with the prefix, print its name and the axioms it depends on (one line each):
      THEOREM <name> AXIOMS <a1> <a2> …
  Used by the check runner to count obligations and to audit the axiom set.
-/
import Lean
open Lean Elab Command

namespace FV.Audit

def isAuxName (n : Name) : Bool :=
  n.isInternalDetail || n.components.any (fun c =>
    let s := c.toString
    s.startsWith "_" || s.startsWith "eq_" || s == "eq_def" || s.startsWith "match_" ||
    s.startsWith "proof_" || s == "induct" || s == "induct_unfolding" || s == "fun_cases" ||
    s == "fun_cases_unfolding" || s == "sizeOf_spec" || s == "injEq" || s == "inj" ||
    s == "noConfusion" || s == "congr_simp" || s == "mutual_induct" || s == "ext_iff" || s == "ext")

elab "#audit_module " pfx:str : command => do
  let env ← getEnv
  let pfx := pfx.getString
  let mut out : Array (String × String) := #[]
  for (name, ci) in env.constants.map₁.toList do
    if let .thmInfo _ := ci then
      if let some idx := env.getModuleIdxFor? name then
        let modName := env.header.moduleNames[idx.toNat]!
        if modName.toString.startsWith pfx && !isAuxName name then
          let axs ← liftCoreM (collectAxioms name)
          let axs := axs.qsort (fun a b => a.toString < b.toString)
          out := out.push (name.toString, " ".intercalate (axs.toList.map (·.toString)))
  for (n, a) in out.qsort (fun a b => a.1 < b.1) do
    IO.println s!"THEOREM {n} AXIOMS {a}"

end FV.Audit
