/-
  Core/Loop.lean — the line-protocol loop shared by the per-property drivers.
  One request per line on stdin:   <PROP> <cmd> <sexp>*      (the leading <PROP> tag is optional)
  one answer per line on stdout:   ok …   |   err …
-/
import FunsorVerif.Core.Sexp
namespace FV

def dispatchLine (tag : String) (handle : List Sexp → String) (line : String) : String :=
  match Sexp.parseMany line with
  | none => "err parse"
  | some [] => "err empty"
  | some (Sexp.atom "ping" :: _) => "ok pong"
  | some (Sexp.atom p :: args) => if p == tag then handle args else handle (Sexp.atom p :: args)
  | some args => handle args

partial def runLoopAux (tag : String) (handle : List Sexp → String)
    (hin hout : IO.FS.Stream) : IO Unit := do
  let line ← hin.getLine
  if line.isEmpty then return ()
  let l := line.trimAscii.toString
  hout.putStrLn (if l.isEmpty then "err empty" else dispatchLine tag handle l)
  runLoopAux tag handle hin hout

def runLoop (tag : String) (handle : List Sexp → String) : IO Unit := do
  let hin ← IO.getStdin
  let hout ← IO.getStdout
  runLoopAux tag handle hin hout
  hout.flush

end FV
