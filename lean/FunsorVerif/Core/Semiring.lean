/-
  Core/Semiring.lean — the executable semirings the driver computes in, over XR.
  (add,mul) (max,add) (min,add) (max,mul) (min,mul) and the boolean (or,and) on {0,1}.
  (logaddexp,add) is exercised by the harness through the exp/log isomorphism with (add,mul).
-/
import FunsorVerif.Core.XR
namespace FV

structure SR where
  name : String
  add : XR → XR → XR
  mul : XR → XR → XR
  zero : XR
  one : XR

namespace SR

def addMul : SR := ⟨"add-mul", XR.add, XR.mul, 0, 1⟩
def maxAdd : SR := ⟨"max-add", XR.max, XR.add, XR.ninf, 0⟩
def minAdd : SR := ⟨"min-add", XR.min, XR.add, XR.pinf, 0⟩
def maxMul : SR := ⟨"max-mul", XR.max, XR.mul, 0, 1⟩     -- carrier: non-negative
def minMul : SR := ⟨"min-mul", XR.min, XR.mul, XR.pinf, 1⟩ -- carrier: non-negative
def orAnd  : SR := ⟨"or-and", XR.max, XR.min, 0, 1⟩       -- carrier: {0,1}

def ofName? : String → Option SR
  | "add-mul" => some addMul
  | "max-add" => some maxAdd
  | "min-add" => some minAdd
  | "max-mul" => some maxMul
  | "min-mul" => some minMul
  | "or-and" => some orAnd
  | _ => none

def sum (s : SR) (xs : List XR) : XR := xs.foldl s.add s.zero
def prod (s : SR) (xs : List XR) : XR := xs.foldl s.mul s.one

end SR

/-- Dense matrices as lists of rows. -/
abbrev Mat := List (List XR)

namespace Mat

def col (m : Mat) (j : Nat) : List XR := m.map (fun r => r.getD j XR.nan)
def ncols (m : Mat) : Nat := (m.head?.map List.length).getD 0

/-- Semiring matrix product: (a·b)[i][k] = ⨁_j a[i][j] ⊗ b[j][k]; the ⊕-fold starts from the
    first term (not from `zero`) so that no unit convention is needed for non-empty sums. -/
def mul (s : SR) (a b : Mat) : Mat :=
  a.map fun row =>
    (List.range b.ncols).map fun k =>
      let terms := List.zipWith s.mul row (b.col k)
      match terms with
      | [] => s.zero
      | t :: ts => ts.foldl s.add t

def toSexp (m : Mat) : Sexp := Sexp.list (m.map fun r => Sexp.list (r.map XR.toSexp))

def ofSexp? (s : Sexp) : Option Mat := do
  let rows ← s.asList?
  rows.mapM fun r => do
    let xs ← r.asList?
    xs.mapM XR.ofSexp?

end Mat
end FV
