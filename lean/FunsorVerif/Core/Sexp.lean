/-
  Core/Sexp.lean — S-expressions used by the line protocol between the Python
  harness and the Lean driver.  Core-only (no Mathlib) so the driver links natively.

  Syntax:  atom  ::= bare token (no whitespace, parens or quotes)
           str   ::= "…"   (no escapes needed: names never contain quotes)
           list  ::= ( sexp* )
-/
namespace FV

inductive Sexp where
  | atom : String → Sexp
  | str  : String → Sexp
  | list : List Sexp → Sexp
  deriving Repr, Inhabited, BEq

namespace Sexp

inductive Tok where
  | lp | rp
  | atom (s : String)
  | str (s : String)
  deriving Repr, BEq

/-- Tokeniser; total, by structural recursion on the character list. -/
def tokAux : List Char → (cur : List Char) → (inStr : Bool) → List Tok → List Tok
  | [], cur, _, acc =>
      let acc := if cur.isEmpty then acc else Tok.atom (String.ofList cur.reverse) :: acc
      acc.reverse
  | c :: cs, cur, true, acc =>
      if c == '"' then tokAux cs [] false (Tok.str (String.ofList cur.reverse) :: acc)
      else tokAux cs (c :: cur) true acc
  | c :: cs, cur, false, acc =>
      let flush := if cur.isEmpty then acc else Tok.atom (String.ofList cur.reverse) :: acc
      if c == '(' then tokAux cs [] false (Tok.lp :: flush)
      else if c == ')' then tokAux cs [] false (Tok.rp :: flush)
      else if c == '"' then tokAux cs [] true flush
      else if c == ' ' || c == '\t' || c == '\n' || c == '\r' then tokAux cs [] false flush
      else tokAux cs (c :: cur) false acc

def tokenize (s : String) : List Tok := tokAux s.toList [] false []

/-- Parser with an explicit stack of partially built lists; total. -/
def parseAux : List Tok → (stack : List (List Sexp)) → (top : List Sexp) → Option (List Sexp)
  | [], [], top => some top.reverse
  | [], _ :: _, _ => none
  | Tok.lp :: ts, stack, top => parseAux ts (top :: stack) []
  | Tok.rp :: ts, s :: stack, top => parseAux ts stack (Sexp.list top.reverse :: s)
  | Tok.rp :: _, [], _ => none
  | Tok.atom a :: ts, stack, top => parseAux ts stack (Sexp.atom a :: top)
  | Tok.str a :: ts, stack, top => parseAux ts stack (Sexp.str a :: top)

/-- Parse a whole line into the list of top-level S-expressions. -/
def parseMany (s : String) : Option (List Sexp) := parseAux (tokenize s) [] []

def parse (s : String) : Option Sexp :=
  match parseMany s with
  | some [x] => some x
  | _ => none

partial def toString : Sexp → String
  | atom a => a
  | str s => "\"" ++ s ++ "\""
  | list xs => "(" ++ " ".intercalate (xs.map toString) ++ ")"

instance : ToString Sexp := ⟨Sexp.toString⟩

def asAtom? : Sexp → Option String
  | atom a => some a
  | _ => none

def asStr? : Sexp → Option String
  | str a => some a
  | atom a => some a
  | _ => none

def asList? : Sexp → Option (List Sexp)
  | list xs => some xs
  | _ => none

def asInt? (s : Sexp) : Option Int := s.asAtom?.bind String.toInt?

def asNat? (s : Sexp) : Option Nat := s.asAtom?.bind String.toNat?

/-- A list whose head is the atom `tag`: returns the remaining items. -/
def tagged? (tag : String) : Sexp → Option (List Sexp)
  | list (atom t :: rest) => if t == tag then some rest else none
  | _ => none

def head? : Sexp → Option String
  | list (atom t :: _) => some t
  | _ => none

def ofNat (n : Nat) : Sexp := atom (ToString.toString n)
def ofInt (n : Int) : Sexp := atom (ToString.toString n)
def ofBool (b : Bool) : Sexp := atom (if b then "true" else "false")
def ofNats (ns : List Nat) : Sexp := list (ns.map ofNat)
def ofInts (ns : List Int) : Sexp := list (ns.map ofInt)

def asNats? (s : Sexp) : Option (List Nat) := do
  let xs ← s.asList?
  xs.mapM asNat?

def asInts? (s : Sexp) : Option (List Int) := do
  let xs ← s.asList?
  xs.mapM asInt?

def asStrs? (s : Sexp) : Option (List String) := do
  let xs ← s.asList?
  xs.mapM asStr?

def asBool? : Sexp → Option Bool
  | atom "true" => some true
  | atom "false" => some false
  | atom "True" => some true
  | atom "False" => some false
  | _ => none

end Sexp
end FV
