/-
  Core/XR.lean — extended rationals: Rat ∪ {−∞, +∞, NaN}, with IEEE/numpy conventions
  for the special values.  Executable carrier used by the driver so that the
  correspondence with numpy (on small integers / dyadic rationals) is exact.
-/
import FunsorVerif.Core.Sexp
namespace FV

inductive XR where
  | fin (q : Rat)
  | pinf
  | ninf
  | nan
  deriving Repr, Inhabited, DecidableEq

namespace XR

instance : OfNat XR n := ⟨fin (n : Rat)⟩
def ofInt (i : Int) : XR := fin (i : Rat)

def isNan : XR → Bool
  | nan => true
  | _ => false

def neg : XR → XR
  | fin q => fin (-q)
  | pinf => ninf
  | ninf => pinf
  | nan => nan

def add : XR → XR → XR
  | nan, _ => nan
  | _, nan => nan
  | fin a, fin b => fin (a + b)
  | pinf, ninf => nan
  | ninf, pinf => nan
  | pinf, _ => pinf
  | _, pinf => pinf
  | ninf, _ => ninf
  | _, ninf => ninf

def sub (a b : XR) : XR := add a (neg b)

/-- sign: -1, 0, 1 (nan ↦ 0, unused). -/
def sgn : XR → Int
  | fin q => if q < 0 then -1 else if q = 0 then 0 else 1
  | pinf => 1
  | ninf => -1
  | nan => 0

def mul : XR → XR → XR
  | nan, _ => nan
  | _, nan => nan
  | fin a, fin b => fin (a * b)
  | a, b =>
    let s := sgn a * sgn b
    if s = 0 then nan else if s > 0 then pinf else ninf

def le : XR → XR → Bool
  | nan, _ => false
  | _, nan => false
  | ninf, _ => true
  | _, pinf => true
  | fin a, fin b => a ≤ b
  | pinf, _ => false
  | _, ninf => false

def lt (a b : XR) : Bool := le a b && !(le b a)

/-- numpy `maximum`: propagates NaN. -/
def max : XR → XR → XR
  | nan, _ => nan
  | _, nan => nan
  | a, b => if le a b then b else a

def min : XR → XR → XR
  | nan, _ => nan
  | _, nan => nan
  | a, b => if le a b then a else b

def toSexp : XR → Sexp
  | fin q => if q.den = 1 then Sexp.atom (toString q.num)
             else Sexp.atom (toString q.num ++ "/" ++ toString q.den)
  | pinf => Sexp.atom "inf"
  | ninf => Sexp.atom "-inf"
  | nan => Sexp.atom "nan"

def parseRat (s : String) : Option Rat :=
  match s.splitOn "/" with
  | [n] => n.toInt?.map (fun i => (i : Rat))
  | [n, d] => do
      let n ← n.toInt?
      let d ← d.toNat?
      if d = 0 then none else some ((n : Rat) / (d : Rat))
  | _ => none

def ofSexp? : Sexp → Option XR
  | Sexp.atom "inf" => some pinf
  | Sexp.atom "-inf" => some ninf
  | Sexp.atom "nan" => some nan
  | Sexp.atom "true" => some (fin 1)
  | Sexp.atom "false" => some (fin 0)
  | Sexp.atom a => (parseRat a).map fin
  | _ => none

instance : ToString XR := ⟨fun x => toString (toSexp x)⟩

end XR

/-- Plain rationals on the wire. -/
def ratToSexp (q : Rat) : Sexp :=
  if q.den = 1 then Sexp.atom (toString q.num)
  else Sexp.atom (toString q.num ++ "/" ++ toString q.den)

def ratOfSexp? : Sexp → Option Rat
  | Sexp.atom a => XR.parseRat a
  | _ => none

end FV
