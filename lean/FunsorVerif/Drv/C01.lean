/- Drv/C01.lean — driver handler for property C01 (eager evaluation = textbook value). -/
import FunsorVerif.Core.Sexp
import FunsorVerif.Core.XR
import FunsorVerif.Model.TermParse
namespace FV.Drv.C01
open FV

/--
  C01 denote TERM (("n" size)*) ENV     table of the textbook value over all points of the named inputs
  C01 fv TERM                           free names of the term (sorted, de-duplicated by the harness)
-/
def handle (args : List Sexp) : String :=
  match args with
  | Sexp.atom "denote" :: rest => (handleDenote rest).getD "err bad-args"
  | [Sexp.atom "fv", t] =>
    match parseTerm t with
    | some t => "ok " ++ toString (Sexp.list (t.fv.map Sexp.str))
    | none => "err bad-term"
  | _ => "err bad-request"

end FV.Drv.C01
