/- Drv/C01.lean — driver handler for property C01 (eager evaluation = textbook value). -/
import FunsorVerif.Core.Sexp
import FunsorVerif.Core.XR
import FunsorVerif.Model.TermParse
import FunsorVerif.Model.C01Ext
import FunsorVerif.Model.C01Fin
import FunsorVerif.Model.C01Slice
namespace FV.Drv.C01
open FV FV.C01

def ntToSexp (t : NT) : Sexp :=
  Sexp.list [Sexp.atom "nt",
    Sexp.list (t.inputs.map fun (n, s) => Sexp.list [Sexp.str n, Sexp.ofNat s]),
    Sexp.ofNats t.shape,
    Sexp.list (t.flat.map XR.toSexp)]

def parseIns (ins : Sexp) : Option (List (Name × Nat)) := do
  let ins ← ins.asList?
  ins.mapM fun x => match x with
    | Sexp.list [n, s] => do pure ((← n.asStr?), (← s.asNat?))
    | _ => none

/-- Table of an `NT` over all points of the named inputs `ins` (same format as `denote`). -/
def ntTable (t : NT) (ins : List (Name × Nat)) (env : Env) : List (Option Sem) :=
  match assignments (ins.map fun (n, k) => (n, ⟨DType.bint k, []⟩)) with
  | none => []
  | some asgs => asgs.map fun a => t.atEnv (a ++ env)

/--
  C01 denote TERM (("n" size)*) ENV     table of the textbook value over all points of the named inputs
                                        (extended evaluator: also `finitary` einsum/stack/cat nodes)
  C01 peval TERM                        the model of eager evaluation: `ok none` (declined) or
                                        `ok (nt (("n" size)*) (shape*) (flat data*))`
  C01 pevalT TERM (("n" size)*) ENV     table of the peval result (or `ok none`)
  C01 pevalInd FN "rv" "bv" "dv" size V   the model of Independent(FN, rv, bv, dv) with rv bound to the tensor term V
  C01 core TERM                         `ok true|false`: is TERM in the core fragment (Model/C01: `isCore`)
  C01 fv TERM                           free names of the term
  C01 finstack d (TERM*)                the model of eager_finitary_stack (Model/C01Fin: `finStack`) on evaluated parts,
                                        new event axis at position d
  C01 pyslice n START STOP step         positions read by x[START:STOP:step] on an axis of size n (START/STOP = int | none),
                                        Model/C01Slice `slicePositions`: `ok (p*)` or `ok none` (step = 0 raises)
-/
def handle (args : List Sexp) : String :=
  match args with
  | [Sexp.atom "denote", t, ins, env] =>
    match parseTerm t, parseIns ins, parseEnv env with
    | some t, some ins, some env => "ok " ++ toString (tableToSexp (denoteTableX t ins env))
    | _, _, _ => "err bad-args"
  | [Sexp.atom "peval", t] =>
    match parseTerm t with
    | some t =>
      match peval t with
      | some r => "ok " ++ toString (ntToSexp r)
      | none => "ok none"
    | none => "err bad-term"
  | [Sexp.atom "pevalT", t, ins, env] =>
    match parseTerm t, parseIns ins, parseEnv env with
    | some t, some ins, some env =>
      match peval t with
      | some r => "ok " ++ toString (tableToSexp (ntTable r ins env))
      | none => "ok none"
    | _, _, _ => "err bad-args"
  | [Sexp.atom "pevalInd", fn, rv, bv, dv, size, v] =>
    match parseTerm fn, rv.asStr?, bv.asStr?, dv.asStr?, size.asNat?, parseTerm v with
    | some fn, some rv, some bv, some dv, some size, some v =>
      match (peval v).bind (pevalIndependent fn rv bv dv size) with
      | some r => "ok " ++ toString (ntToSexp r)
      | none => "ok none"
    | _, _, _, _, _, _ => "err bad-args"
  | [Sexp.atom "core", t] =>
    match parseTerm t with
    | some t => "ok " ++ (if isCore [] t then "true" else "false")
    | none => "err bad-term"
  | [Sexp.atom "fv", t] =>
    match parseTerm t with
    | some t => "ok " ++ toString (Sexp.list (t.fv.map Sexp.str))
    | none => "err bad-term"
  | [Sexp.atom "finstack", d, Sexp.list ts] =>
    match d.asNat?, ts.mapM parseTerm with
    | some d, some ts =>
      match (pevalList ts).bind (finStack d) with
      | some r => "ok " ++ toString (ntToSexp r)
      | none => "ok none"
    | _, _ => "err bad-args"
  | [Sexp.atom "pyslice", n, a, b, c] =>
    let optInt (x : Sexp) : Option (Option Int) :=
      if x.asAtom? == some "none" then some none else x.asInt?.map some
    match n.asNat?, optInt a, optInt b, c.asInt? with
    | some n, some a, some b, some c =>
      match slicePositions n a b c with
      | some ps => "ok " ++ toString (Sexp.ofNats ps)
      | none => "ok none"
    | _, _, _, _ => "err bad-args"
  | _ => "err bad-request"

end FV.Drv.C01
