/- Drv/C02.lean — driver handler for property C02 (every rewrite step preserves value). -/
import FunsorVerif.Core.Sexp
import FunsorVerif.Core.XR
import FunsorVerif.Model.TermParse
import FunsorVerif.Model.C02
namespace FV.Drv.C02
open FV FV.C02

/-- Compare two value tables cell by cell on the in-range indices of the shape.
    Answer: `same n` | `differ k CELL1 CELL2` | `undef-lhs k` (spec undefined) | `undef-rhs k CELL1`. -/
def compareTables (a b : List (Option Sem)) : String :=
  let rec go : List (Option Sem) → List (Option Sem) → Nat → String
    | [], [], k => s!"ok same {k}"
    | none :: _, _ :: _, k => s!"ok undef-lhs {k}"
    | some x :: _, none :: _, k => s!"ok undef-rhs {k} {semToSexp x}"
    | some x :: xs, some y :: ys, k =>
      if semEq x y then go xs ys (k + 1) else s!"ok differ {k} {semToSexp x} {semToSexp y}"
    | _, _, k => s!"err table-length {k}"
  go a b 0

def parseIns (ins : Sexp) : Option (List (Name × Nat)) := do
  let ins ← ins.asList?
  ins.mapM fun x => match x with
    | Sexp.list [n, s] => do pure ((← n.asStr?), (← s.asNat?))
    | _ => none

/--
  C02 denote TERM INS ENV                 table of the textbook value (shared handler)
  C02 equiv  REFLECTED RESULT INS ENV     denote both over all points of INS (+ENV) and compare
  C02 rule   NAME REFLECTED RESULT INS ENV
        apply the Lean model of rule NAME to REFLECTED; `ok declined` if the model does not fire,
        else compare denote (model result) with denote RESULT (the implementation's result)
  C02 fv TERM                             free names
-/
def handle (args : List Sexp) : String :=
  match args with
  | Sexp.atom "denote" :: rest => (handleDenote rest).getD "err bad-args"
  | [Sexp.atom "equiv", t1, t2, ins, env] =>
    match parseTerm t1, parseTerm t2, parseIns ins, parseEnv env with
    | some t1, some t2, some ins, some env =>
      compareTables (denoteTable t1 ins env) (denoteTable t2 ins env)
    | none, _, _, _ => "err bad-term-1"
    | _, none, _, _ => "err bad-term-2"
    | _, _, _, _ => "err bad-args"
  | [Sexp.atom "rule", Sexp.atom name, t1, t2, ins, env] =>
    match parseTerm t1, parseTerm t2, parseIns ins, parseEnv env with
    | some t1, some t2, some ins, some env =>
      match ruleByName name with
      | none => "err unknown-rule"
      | some r =>
        match r t1 with
        | none => "ok declined"
        | some t' =>
          -- lhs = implementation result (so `undef-lhs` = implementation result outside the fragment)
          "ok fired " ++ (compareTables (denoteTable t2 ins env) (denoteTable t' ins env)).drop 3
    | _, _, _, _ => "err bad-args"
  | [Sexp.atom "fv", t] =>
    match parseTerm t with
    | some t => "ok " ++ toString (Sexp.list (t.fv.map Sexp.str))
    | none => "err bad-term"
  | _ => "err bad-request"

end FV.Drv.C02
