/- Drv/C03.lean — driver handler for property C03 (line protocol; core-only imports). -/
import FunsorVerif.Core.Sexp
import FunsorVerif.Core.XR
import FunsorVerif.Model.TermParse
import FunsorVerif.Model.C03
namespace FV.Drv.C03
open FV FV.C03

def parseGraph (s : Sexp) : Option Graph := do
  let xs ← s.asList?
  xs.mapM fun x => match x with
    | Sexp.list [i, ks] => do pure ((← i.asNat?), (← ks.asNats?))
    | _ => none

def parseReqs (s : Sexp) : Option (List (Nat × Nat)) := do
  let xs ← s.asList?
  xs.mapM fun x => match x with
    | Sexp.list [c, k] => do pure ((← c.asNat?), (← k.asNat?))
    | _ => none

def parseIns (s : Sexp) : Option (List (Name × Nat)) := do
  let xs ← s.asList?
  xs.mapM fun x => match x with
    | Sexp.list [n, k] => do pure ((← n.asStr?), (← k.asNat?))
    | _ => none

def parseLEvs (s : Sexp) : Option (List LEv) := do
  let xs ← s.asList?
  xs.mapM fun x => match x with
    | Sexp.list [Sexp.atom "alloc", a, v] => do pure (LEv.alloc ⟨← a.asNat?, ← v.asNat?⟩)
    | Sexp.list [Sexp.atom "drop", a] => do pure (LEv.drop (← a.asNat?))
    | Sexp.list [Sexp.atom "request", a, v] => do pure (LEv.request ⟨← a.asNat?, ← v.asNat?⟩)
    | _ => none

def showResp : Option ((Nat × Nat) × Nat) → Sexp
  | some ((c, k), src) => Sexp.list [Sexp.ofNat c, Sexp.ofNat k, Sexp.ofNat src]
  | none => Sexp.atom "none"

/--
  C03 denote TERM (("n" size)*) ENV          textbook value table (shared handler)
  C03 refold TERM (("n" size)*) ENV          table of `reRec constFold TERM` (a sound interpretation applied bottom-up)
  C03 anf ROOT ((id (kid*))*)                `anf` on the identity graph: `ok (order*) topo-flag tree-calls`
  C03 memo real|full ((cls key)*)            Memoize state machine on a history of requests; the base returns
                                             its own request (cls key); answer per request: (cls key src) where src
                                             is the index of the request that computed the returned object
  C03 memolife keep|id ((alloc addr val)|(drop addr)|(request addr val) …)
                                             cache shared over rounds: responses (the `val` whose result is returned),
                                             or `ok impossible` if an allocation reuses a live address (with `keep`, the
                                             arguments inside cache keys are live)
  C03 seqreduce OP TERM (("n" size)*) INS ENV   table of the term `sequential_reduce` builds, or `ok defer`
  C03 collide                                candidate pairs of the generated class table are answered by the
                                             harness from Gen/C03ClassTable (see Props); not a driver request
-/
def handle (args : List Sexp) : String :=
  match args with
  | Sexp.atom "denote" :: rest => (handleDenote rest).getD "err bad-args"
  | [Sexp.atom "refold", t, ins, env] =>
    match parseTerm t, parseIns ins, parseEnv env with
    | some t, some ins, some env => "ok " ++ toString (tableToSexp (denoteTable (reRec constFold t) ins env))
    | _, _, _ => "err bad-args"
  | [Sexp.atom "anf", root, g] =>
    match root.asNat?, parseGraph g with
    | some root, some g =>
      match anf g root with
      | some order =>
        "ok " ++ toString (Sexp.list [Sexp.ofNats order, Sexp.ofBool (topoIds g order root),
                                      Sexp.ofNat (treeCalls g (fun _ => true) (g.length + 1) root)])
      | none => "ok none"
    | _, _ => "err bad-args"
  | [Sexp.atom "memo", Sexp.atom kind, reqs] =>
    match parseReqs reqs with
    | some reqs =>
      let base : Nat → Nat → Option (Nat × Nat) := fun c k => some (c, k)
      let out := if kind == "real" then runMemo (realKey (C := Nat)) base 0 [] reqs
                 else (runMemo (fullKey (C := Nat) (A := Nat)) base 0 [] reqs)
      "ok " ++ toString (Sexp.list (out.map showResp))
    | none => "err bad-args"
  | [Sexp.atom "memolife", Sexp.atom kind, evs] =>
    match parseLEvs evs with
    | some evs =>
      match lrun (kind == "keep") id ⟨[], []⟩ evs with
      | some rs => "ok " ++ toString (Sexp.list (rs.map fun r => match r with
          | some v => Sexp.ofNat v
          | none => Sexp.atom "-"))
      | none => "ok impossible"
    | none => "err bad-args"
  | [Sexp.atom "seqreduce", Sexp.atom op, t, vars, ins, env] =>
    match parseTerm t, parseIns vars, parseIns ins, parseEnv env with
    | some t, some vars, some ins, some env =>
      match seqReduce op t vars with
      | some s => "ok " ++ toString (tableToSexp (denoteTable s ins env))
      | none => "ok defer"
    | _, _, _, _ => "err bad-args"
  | _ => "err bad-request"

end FV.Drv.C03
