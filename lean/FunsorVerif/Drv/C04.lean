/- Drv/C04.lean — driver handler for property C04 (line protocol; core-only imports). -/
import FunsorVerif.Core.Sexp
import FunsorVerif.Core.XR
namespace FV.Drv.C04
open FV

/-- `args` are the top-level S-expressions following the property tag on the request line. -/
def handle (args : List Sexp) : String :=
  match args with
  | _ => "err unimplemented"

end FV.Drv.C04
