/- Drv/C04.lean — driver handler for property C04 (line protocol; core-only imports). -/
import FunsorVerif.Core.Sexp
import FunsorVerif.Core.XR
import FunsorVerif.Model.TermParse
import FunsorVerif.Model.C04
namespace FV.Drv.C04
open FV FV.C04

def parseIns (s : Sexp) : Option Inputs := do
  let xs ← s.asList?
  xs.mapM fun x => match x with
    | Sexp.list [n, k] => do pure ((← n.asStr?), (← k.asNat?))
    | _ => none

/-- SVAL ::= (num n) | (var "x" size) | (slice "x" start stop step) | (tensor (("n" size)*) (n*)) -/
def parseSVal : Sexp → Option SVal
  | Sexp.list [Sexp.atom "num", n] => n.asNat?.map SVal.num
  | Sexp.list [Sexp.atom "var", x, d] => do pure (SVal.var (← x.asStr?) (← d.asNat?))
  | Sexp.list [Sexp.atom "slice", x, a, b, c] => do
      pure (SVal.slice (← x.asStr?) (← a.asNat?) (← b.asNat?) (← c.asNat?))
  | Sexp.list [Sexp.atom "tensor", ins, data] => do
      let ins ← parseIns ins
      let data ← data.asNats?
      pure (SVal.tensor (NT.ofFlatNat ins data.toArray))
  | _ => none

def parseSigma (s : Sexp) : Option Sigma := do
  let xs ← s.asList?
  xs.mapM fun x => match x with
    | Sexp.list [k, v] => do pure ((← k.asStr?), (← parseSVal v))
    | _ => none

def parseSubst (s : Sexp) : Option Subst := do
  let xs ← s.asList?
  xs.mapM fun x => match x with
    | Sexp.list [k, v] => do pure ((← k.asStr?), (← parseTerm v))
    | _ => none

def ntToSexp (t : NT XR) : Sexp :=
  Sexp.list [Sexp.atom "nt",
    Sexp.list (t.inputs.map fun p => Sexp.list [Sexp.str p.1, Sexp.ofNat p.2]),
    Sexp.ofNats t.shape,
    Sexp.list (t.table.map XR.toSexp)]

def slToSexp (s : Sl) : Sexp := Sexp.ofNats [s.start, s.stop, s.step, s.dtype, s.size]

/--
  C04 denote TERM (("n" size)*) ENV            the specification (shared `denote`)
  C04 subst TERM SUBST (("n" size)*) ENV       `ok BOUNDFRESH TABLE`: table of `denote (substitute TERM SUBST)`
  C04 ntsubs head|pre INS (shape) (data) SIGMA the model of Tensor.eager_subs: `ok (nt INS (shape) (data))`
  C04 slice2 (a b s d) (a b s d)               Slice-into-Slice: `ok (head: start stop step dtype size) (pre: …)`
  C04 catslice head|pre (sizes) start stop step  `ok (global positions) ((part (locals))…) (spec positions)`
  C04 pyslice n start stop step                `range(n)[start:stop:step]`
  C04 catlocate (sizes) n                      `ok (part local)` | `ok none`
  C04 deltasubs ("real"…) (delta …) SUBST INS ENV   substitute() at a Delta node + Delta.eager_subs: `ok declined` | `ok TABLE`
  C04 indepsubs (independent …) SUBST INS ENV      … at an Independent node (Independent.eager_subs)
  C04 constsubs CONSTS ARGINS (("key" INS)…) ARG SUBST INS ENV   … at a Constant node: `ok (new const inputs) TABLE` (Real = size 0)
  C04 gdecide ("input"…) (("key" (var "x")|int|real|affine|lzy)…)   the chain of branches Gaussian.eager_subs takes
  C04 mpdecide (("bound" "visible")…) (("key" "x"|none)…)  MarkovProduct/Scatter.eager_subs decision on names
  C04 gsubs head|order INS rank (w) ((row)…) (("k" (vals))…) (xa)   Gaussian real substitution, pairs in the given order
  C04 callpairs ("input"…) ("argtoken"…) (("key" "token")…)   the merged pairs of Funsor.__call__: `ok (("key" "token")…)`
-/
def handle (args : List Sexp) : String :=
  match args with
  | Sexp.atom "denote" :: rest => (handleDenote rest).getD "err bad-args"
  | [Sexp.atom "subst", t, σ, ins, env] =>
    match parseTerm t, parseSubst σ, parseIns ins, parseEnv env with
    | some t, some σ, some ins, some env =>
      let t' := substitute t σ
      "ok " ++ toString (Sexp.ofBool (boundFresh t σ)) ++ " " ++ toString (tableToSexp (denoteTable t' ins env))
    | _, _, _, _ => "err bad-args"
  | [Sexp.atom "ntsubs", Sexp.atom mode, ins, shape, data, σ] =>
    match parseIns ins, shape.asNats?, data.asList?.bind (·.mapM XR.ofSexp?), parseSigma σ with
    | some ins, some shape, some data, some σ =>
      let t := NT.ofFlat ins shape data.toArray
      let r := if mode == "pre" then eagerSubsPre t σ else eagerSubs t σ
      "ok " ++ toString (ntToSexp r)
    | _, _, _, _ => "err bad-args"
  | [Sexp.atom "slicerename", o] =>
    match o.asNats? with
    | some [a, b, s, d] => "ok " ++ toString (slToSexp (sliceRename (mkSlice a b s d)))
    | _ => "err bad-args"
  | [Sexp.atom "slice2", o, i] =>
    match o.asNats?, i.asNats? with
    | some [a, b, s, d], some [a', b', s', d'] =>
      let o := mkSlice a b s d
      let i := mkSlice a' b' s' d'
      "ok " ++ toString (slToSexp (sliceIntoSlice o i)) ++ " " ++ toString (slToSexp (sliceIntoSlicePre o i))
    | _, _ => "err bad-args"
  | [Sexp.atom "catslice", Sexp.atom mode, sizes, a, b, s] =>
    match sizes.asNats?, a.asNat?, b.asNat?, s.asNat? with
    | some sizes, some a, some b, some s =>
      let pre := mode == "pre"
      let parts := catSliceParts pre sizes a b s
      "ok " ++ toString (Sexp.ofNats (catSliceGlobal pre sizes a b s)) ++ " " ++
        toString (Sexp.list (parts.map fun p => Sexp.list [Sexp.ofNat p.1, Sexp.ofNats p.2])) ++ " " ++
        toString (Sexp.ofNats (sliceGlobal (sizes.foldl (· + ·) 0) a b s))
    | _, _, _, _ => "err bad-args"
  | [Sexp.atom "pyslice", n, a, b, s] =>
    match n.asNat?, a.asNat?, b.asNat?, s.asNat? with
    | some n, some a, some b, some s => "ok " ++ toString (Sexp.ofNats (pySlice (List.range n) a b s))
    | _, _, _, _ => "err bad-args"
  | [Sexp.atom "gsubs", Sexp.atom mode, ins, rank, w, rows, subs, xa] =>
    -- Gaussian._eager_subs_real, partial branch: `ok MODEL-EVAL SPEC-EVAL (w') (P' rows)`
    let rats := fun (s : Sexp) => s.asList?.bind (·.mapM ratOfSexp?)
    match parseIns ins, rank.asNat?, rats w, rows.asList?.bind (·.mapM rats),
          subs.asList?.bind (·.mapM fun x => match x with
            | Sexp.list [k, v] => do pure ((← k.asStr?), (← rats v))
            | _ => none), rats xa with
    | some ins, some rank, some w, some rows, some subs, some xa =>
      let g : RG := ⟨ins, rank, w, rows⟩
      if !(g.wf && g.wfSubs subs) then "err ill-formed" else
      let r := g.subsRealWith (mode != "order") subs
      "ok " ++ toString (ratToSexp (r.eval xa)) ++ " " ++
        toString (ratToSexp (g.eval (mergePoint g.inputs (rlookup subs) xa))) ++ " " ++
        toString (Sexp.list (r.w.map ratToSexp)) ++ " " ++
        toString (Sexp.list (r.P.map fun row => Sexp.list (row.map ratToSexp)))
    | _, _, _, _, _, _ => "err bad-args"
  | [Sexp.atom "deltasubs", reals, t, σ, ins, env] =>
    -- the model of substitute() at a Delta node: children with σ minus the Delta's own names, then Delta.eager_subs
    match reals.asStrs?, parseTerm t, parseSubst σ, parseIns ins, parseEnv env with
    | some reals, some (Term.delta ts), some σ, some ins, some env =>
      let own := ts.map (·.1)
      let ts' := substDelta ts (sremove σ own)
      match deltaEagerSubs reals ts' (srestrict σ own) with
      | none => "ok declined"
      | some r =>
        match assignments (ins.map fun (n, k) => (n, ⟨DType.bint k, []⟩)) with
        | none => "err bad-ins"
        | some asgs => "ok " ++ toString (tableToSexp (asgs.map fun a => r.meaning (a ++ env)))
    | _, _, _, _, _ => "err bad-args"
  | [Sexp.atom "indepsubs", t, σ, ins, env] =>
    match parseTerm t, parseSubst σ, parseIns ins, parseEnv env with
    | some (Term.independent fn rv bv dv size), some σ, some ins, some env =>
      let fn' := substitute fn (sremove σ [bv, dv, rv])
      let t' := match tget σ rv with
        | some v => indepEagerSubs fn' bv dv size v
        | none => Term.independent fn' rv bv dv size
      "ok " ++ toString (tableToSexp (denoteTable t' ins env))
    | _, _, _, _ => "err bad-args"
  | [Sexp.atom "constsubs", consts, argIns, vins, arg, σ, ins, env] =>
    -- substitute() at a Constant node: children with σ minus the const inputs, then Constant.eager_subs
    -- vins: (("key" (("name" size)…))…) = the inputs of the value substituted for each const input
    match parseIns consts, parseIns argIns,
          vins.asList?.bind (·.mapM fun x => match x with
            | Sexp.list [k, v] => do pure ((← k.asStr?), (← parseIns v))
            | _ => none),
          parseTerm arg, parseSubst σ, parseIns ins, parseEnv env with
    | some consts, some argIns, some vins, some arg, some σ, some ins, some env =>
      let arg' := substitute arg (sremove σ (names consts))
      let r := constEagerSubs ⟨consts, arg'⟩ argIns (fun k => (vins.find? (fun p => p.1 == k)).map (·.2))
      match assignments (ins.map fun (n, k) => (n, ⟨DType.bint k, []⟩)) with
      | none => "err bad-ins"
      | some asgs =>
        "ok " ++ toString (Sexp.list (r.consts.map fun p => Sexp.list [Sexp.str p.1, Sexp.ofNat p.2])) ++ " " ++
          toString (tableToSexp (asgs.map fun a => r.meaning (a ++ env)))
    | _, _, _, _, _, _, _ => "err bad-args"
  | [Sexp.atom "gdecide", ins, σ] =>
    -- σ: (("key" (var "x")|int|real|affine|lzy)…)
    match ins.asStrs?, σ.asList?.bind (·.mapM fun x => match x with
            | Sexp.list [k, Sexp.list [Sexp.atom "var", v]] => do pure ((← k.asStr?), GKind.var (← v.asStr?))
            | Sexp.list [k, Sexp.atom "int"] => do pure ((← k.asStr?), GKind.int)
            | Sexp.list [k, Sexp.atom "real"] => do pure ((← k.asStr?), GKind.real)
            | Sexp.list [k, Sexp.atom "affine"] => do pure ((← k.asStr?), GKind.affine)
            | Sexp.list [k, Sexp.atom "lzy"] => do pure ((← k.asStr?), GKind.lzy)
            | _ => none) with
    | some ins, some σ =>
      "ok " ++ toString (Sexp.list ((gDecide 6 ins σ).map fun st => Sexp.list [Sexp.atom st.1, Sexp.list (st.2.map Sexp.str)]))
    | _, _ => "err bad-args"
  | [Sexp.atom "mpdecide", sn, σ] =>
    -- σ: (("key" "x") | ("key" none) …): Variable x / any other value
    match sn.asList?.bind (·.mapM fun x => match x with
            | Sexp.list [k, v] => do pure ((← k.asStr?), (← v.asStr?))
            | _ => none),
          σ.asList?.bind (·.mapM fun x => match x with
            | Sexp.list [k, Sexp.atom "none"] => do pure ((← k.asStr?), (none : Option Name))
            | Sexp.list [k, Sexp.str v] => do pure ((← k.asStr?), some v)
            | _ => none) with
    | some sn, some σ =>
      match mpDecide sn σ with
      | none => "ok declined"
      | some (sn', lz) =>
        "ok " ++ toString (Sexp.list (sn'.map fun p => Sexp.list [Sexp.str p.1, Sexp.str p.2])) ++ " " ++
          toString (Sexp.list (lz.map Sexp.str))
    | _, _ => "err bad-args"
  | [Sexp.atom "catlocate", sizes, n] =>
    match sizes.asNats?, n.asNat? with
    | some sizes, some n =>
      match catLocate sizes n 0 with
      | some (k, l) => "ok " ++ toString (Sexp.ofNats [k, l])
      | none => "ok none"
    | _, _ => "err bad-args"
  | [Sexp.atom "callpairs", ins, args, kw] =>
    match ins.asStrs?, args.asStrs?, kw.asList?.bind (·.mapM fun x => match x with
            | Sexp.list [k, v] => do pure ((← k.asStr?), (← v.asStr?))
            | _ => none) with
    | some ins, some args, some kw =>
      "ok " ++ toString (Sexp.list ((callPairs ins args kw).map fun p => Sexp.list [Sexp.str p.1, Sexp.str p.2]))
    | _, _, _ => "err bad-args"
  | _ => "err bad-request"

end FV.Drv.C04
