/- Drv/C05.lean — driver handler for property C05 (bound variables are invisible). -/
import FunsorVerif.Core.Sexp
import FunsorVerif.Core.XR
import FunsorVerif.Model.TermParse
import FunsorVerif.Model.C05
namespace FV.Drv.C05
open FV FV.C05

def namesSexp (l : List Name) : Sexp := Sexp.list (l.map Sexp.str)

/--
  C05 denote TERM (("n" size)*) ENV   table of the textbook value (Model/Term.lean `denote`)
  C05 names TERM                      ok (fv…) (bound…) (allBound…)
  C05 mangle TERM                     `reflect` from an empty cons cache and counter 0:
                                      ok (allBound of the result…) COUNTER TERM'
  C05 mangle-nocache TERM             the same without hash-consing
  C05 rename TERM "old" "new"         ok TERM'  = renameRoot old new (what `_alpha_convert` does)
  C05 push TERM (("k" TERM)*)         ok TERM'  = pushUnder σ t (one step of `substitute`)
-/
def handle (args : List Sexp) : String :=
  match args with
  | Sexp.atom "denote" :: rest => (handleDenote rest).getD "err bad-args"
  | [Sexp.atom "names", t] =>
    match parseTerm t with
    | some t => "ok " ++ toString (namesSexp t.fv) ++ " " ++ toString (namesSexp (bound t)) ++ " "
        ++ toString (namesSexp (allBound t))
    | none => "err bad-term"
  | [Sexp.atom "mangle", t] =>
    match parseTerm t with
    | some t =>
      let r := reflect0 t
      "ok " ++ toString (namesSexp (allBound r.1)) ++ " " ++ toString r.2.counter ++ " " ++ toString (termSexp r.1)
    | none => "err bad-term"
  | [Sexp.atom "mangle-nocache", t] =>
    match parseTerm t with
    | some t =>
      let r := reflectT (fun _ _ => false) t ⟨0, []⟩
      "ok " ++ toString (namesSexp (allBound r.1)) ++ " " ++ toString r.2.counter ++ " " ++ toString (termSexp r.1)
    | none => "err bad-term"
  | [Sexp.atom "rename", t, x, y] =>
    match parseTerm t, x.asStr?, y.asStr? with
    | some t, some x, some y => "ok " ++ toString (termSexp (renameRoot x y ⟨DType.bint 1, []⟩ t))
    | _, _, _ => "err bad-args"
  | [Sexp.atom "push", t, σ] =>
    match parseTerm t, σ.asList? with
    | some t, some items =>
      match items.mapM (fun x => match x with
          | Sexp.list [k, v] => do pure ((← k.asStr?), (← parseTerm v))
          | _ => none) with
      | some σ => "ok " ++ toString (termSexp (pushUnder σ t))
      | none => "err bad-subs"
    | _, _ => "err bad-args"
  | _ => "err bad-request"

end FV.Drv.C05
