/- Drv/C06.lean — driver handler for property C06 (line protocol; core-only imports). -/
import FunsorVerif.Core.Sexp
import FunsorVerif.Model.C06
import FunsorVerif.Model.C06Terms
namespace FV.Drv.C06
open FV FV.C06

def parseDom : Sexp → Option Dom
  | .list [.atom "real", sh] => sh.asNats?.map fun s => ⟨.real, s⟩
  | .list [.atom "bint", n, sh] => do
      let n ← n.asNat?
      let s ← sh.asNats?
      pure ⟨.bint n, s⟩
  | _ => none

def parseOptInt : Sexp → Option (Option Int)
  | .atom "none" => some none
  | s => s.asInt?.map some

def parsePart : Sexp → Option IdxPart
  | .atom "na" => some .newaxis
  | .atom "el" => some .ellipsis
  | .list [.atom "k", i] => i.asInt?.map .int
  | .list [.atom "sl", a, b, c] => do
      let a ← parseOptInt a
      let b ← parseOptInt b
      let c ← parseOptInt c
      pure (.slice a b c)
  | _ => none

def parsePVal : Sexp → Option PVal
  | .atom "none" => some .none
  | .atom "true" => some (.bool true)
  | .atom "false" => some (.bool false)
  | .atom "other" => some .other
  | .list [.atom "i", i] => i.asInt?.map .int
  | .list (.atom "is" :: xs) => (xs.mapM Sexp.asInt?).map .ints
  | .list [.atom "s", s] => s.asStr?.map .str
  | .list (.atom "idx" :: xs) => (xs.mapM parsePart).map .index
  | _ => none

def parseParams (s : Sexp) : Option Params := do
  let xs ← s.asList?
  xs.mapM fun
    | .list [k, v] => do
        let k ← k.asStr?
        let v ← parsePVal v
        pure (k, v)
    | _ => none

def showShape (s : List Nat) : String := toString (Sexp.ofNats s)

def showDom (d : Dom) : String :=
  match d.dtype with
  | .real => "(real " ++ showShape d.shape ++ ")"
  | .bint n => "(bint " ++ toString n ++ " " ++ showShape d.shape ++ ")"

def showErr : Err → String
  | .notImpl => "NotImplementedError"
  | .assertion => "AssertionError"
  | .value => "ValueError"
  | .zeroDiv => "ZeroDivisionError"
  | .index => "IndexError"
  | .type => "TypeError"
  | .key => "KeyError"
  | .beyond => "beyond"

def showR : R → String
  | .ok d => "ok " ++ showDom d
  | .error e => "ok (raise " ++ showErr e ++ ")"

def showOptShape : Option (List Nat) → String
  | some s => "ok " ++ showShape s
  | none => "ok none"

def parseAxis : Sexp → Option Axis
  | .atom "none" => some .all
  | .list [.atom "i", i] => i.asInt?.map .one
  | .list (.atom "is" :: xs) => (xs.mapM Sexp.asInt?).map .many
  | _ => none

def parseShapes (s : Sexp) : Option (List (List Nat)) := do
  let xs ← s.asList?
  xs.mapM Sexp.asNats?

/--
  C06 fd RULE OPNAME (PARAMS) (DOM…)      the find_domain model
  C06 np bc (a) (b) | np reduce (shape) AXIS KEEP | np getitem (shape) OFF | np matmul (a) (b)
       | np stack ((s)…) AXIS | np cat ((s)…) AXIS | np slicelen a b c SIZE      numpy shape spec
  C06 eagerred (batch) (shape) AXIS KEEP    shape of the array op applied to batched data with the
                                            axis rewritten as eager_reduction_tensor does
  C06 eagerbin (batch) (ev1) (ev2)          broadcast of the padded batched data shapes
-/
def parseInputs (t : Sexp) : Option Inputs := do
  let xs ← t.asList?
  xs.mapM fun
    | .list [k, d] => do
        let k ← k.asStr?
        let d ← parseDom d
        pure (k, d)
    | _ => none

def parseTDecl : Sexp → Option TDecl
  | .list [ins, out, data] => do
      let ins ← parseInputs ins
      let out ← parseDom out
      let data ← data.asNats?
      pure ⟨ins, out, data⟩
  | _ => none

def showInputs (a : Inputs) : String :=
  "(" ++ " ".intercalate (a.map fun p => "(\"" ++ p.1 ++ "\" " ++ showDom p.2 ++ ")") ++ ")"

def showTDecl : Option TDecl → String
  | none => "none"
  | some t => "(" ++ showInputs t.inputs ++ " " ++ showDom t.output ++ " " ++ showShape t.data ++ ")"

def showTy : Option (Inputs × Dom) → String
  | none => "none"
  | some t => "(" ++ showInputs t.1 ++ " " ++ showDom t.2 ++ ")"

def handle (args : List Sexp) : String :=
  match args with
  | [.atom "elambda", v, n, t] =>
    match v.asStr?, n.asNat?, parseTDecl t with
    | some v, some n, some t =>
      "ok (" ++ showTy (some (lambdaTy v n t.inputs t.output)) ++ " " ++ showTDecl (eagerLambda v n t) ++ ")"
    | _, _, _ => "err bad-args"
  | [.atom "estack", nm, ts] =>
    match nm.asStr?, ts.asList?.bind (·.mapM parseTDecl) with
    | some nm, some ts =>
      "ok (" ++ showTy (stackTy nm (ts.map fun x => (x.inputs, x.output))) ++ " " ++ showTDecl (eagerStack nm ts) ++ ")"
    | _, _ => "err bad-args"
  | [.atom "fd", rule, opn, ps, ds] =>
    match rule.asStr?, opn.asStr?, parseParams ps, ds.asList?.bind (·.mapM parseDom) with
    | some rule, some opn, some ps, some ds => showR (findDomain rule opn ps ds)
    | _, _, _, _ => "err bad-args"
  | [.atom "np", .atom "bc", a, b] =>
    match a.asNats?, b.asNats? with
    | some a, some b => showOptShape (npBroadcast2 a b)
    | _, _ => "err bad-args"
  | [.atom "np", .atom "reduce", sh, ax, keep] =>
    match sh.asNats?, parseAxis ax, keep.asBool? with
    | some sh, some ax, some k => showOptShape (npReduceShape sh ax k)
    | _, _, _ => "err bad-args"
  | [.atom "np", .atom "getitem", sh, off] =>
    match sh.asNats?, off.asNat? with
    | some sh, some off => showOptShape (npGetitemShape sh off)
    | _, _ => "err bad-args"
  | [.atom "np", .atom "matmul", a, b] =>
    match a.asNats?, b.asNats? with
    | some a, some b => showOptShape (npMatmulShape a b)
    | _, _ => "err bad-args"
  | [.atom "np", .atom "stack", ps, ax] =>
    match parseShapes ps, ax.asInt? with
    | some ps, some ax => showOptShape (npStackShape ps ax)
    | _, _ => "err bad-args"
  | [.atom "np", .atom "cat", ps, ax] =>
    match parseShapes ps, ax.asInt? with
    | some ps, some ax => showOptShape (npCatShape ps ax)
    | _, _ => "err bad-args"
  | [.atom "fdprod", ps, ds] =>
    match parseParams ps, ds.asList?.bind (·.mapM parseDom) with
    | some ps, some ds =>
      match fdGetsliceProduct ps ds with
      | .ok (.arr d) => "ok (arr " ++ showDom d ++ ")"
      | .ok (.prod l) => "ok (prod " ++ " ".intercalate (l.map showDom) ++ ")"
      | .error e => "ok (raise " ++ showErr e ++ ")"
    | _, _ => "err bad-args"
  | [.atom "contraction", op, ds] =>
    match op.asStr?, ds.asList?.bind (·.mapM parseDom) with
    | some op, some ds => showR (contractionOutput op ds)
    | _, _ => "err bad-args"
  | [.atom "nested", .atom side, op, ds] =>
    match op.asStr?, ds.asList?.bind (·.mapM parseDom) with
    | some op, some ds =>
      showR (if side == "left" then leftNested (assocTy op) ds else rightNested (assocTy op) ds)
    | _, _ => "err bad-args"
  | [.atom "cinputsd", bound, ts] =>
    let parseIn : Sexp → Option Inputs := fun t => do
      let xs ← t.asList?
      xs.mapM fun
        | .list [k, d] => do
            let k ← k.asStr?
            let d ← parseDom d
            pure (k, d)
        | _ => none
    match bound.asStrs?, ts.asList?.bind (·.mapM parseIn) with
    | some b, some ts =>
      "ok (" ++ " ".intercalate ((contractionInputsD b ts).map fun p => "(\"" ++ p.1 ++ "\" " ++ showDom p.2 ++ ")")
        ++ ") " ++ (if consistent ts then "consistent" else "inconsistent")
    | _, _ => "err bad-args"
  | [.atom "cinputs", bound, ts] =>
    match bound.asStrs?, ts.asList?.bind (·.mapM Sexp.asStrs?) with
    | some b, some ts => "ok " ++ toString (Sexp.list ((contractionInputs b ts).map Sexp.str))
    | _, _ => "err bad-args"
  | [.atom "np", .atom "index", .list (.atom "idx" :: parts), sh] =>
    match parts.mapM parsePart, sh.asNats? with
    | some idx, some sh => showOptShape (npIndexShape idx sh)
    | _, _ => "err bad-args"
  | [.atom "np", .atom "slicelen", a, b, c, n] =>
    match parseOptInt a, parseOptInt b, parseOptInt c, n.asNat? with
    | some a, some b, some c, some n =>
      match sliceLen a b c n with
      | .ok k => "ok " ++ toString k
      | .error e => "ok (raise " ++ showErr e ++ ")"
    | _, _, _, _ => "err bad-args"
  | [.atom "eagerred", batch, sh, ax, keep] =>
    match batch.asNats?, sh.asNats?, parseAxis ax, keep.asBool? with
    | some b, some sh, some ax, some k =>
      showOptShape (npReduceShape (b ++ sh) (eagerReductionAxis ax sh.length) k)
    | _, _, _, _ => "err bad-args"
  | [.atom "eagerbin", batch, e1, e2] =>
    match batch.asNats?, e1.asNats?, e2.asNats? with
    | some b, some e1, some e2 =>
      showOptShape (npBroadcast2 (eagerBinaryPad b e1 e2.length) (eagerBinaryPad b e2 e1.length))
    | _, _, _ => "err bad-args"
  | _ => "err bad-request"

end FV.Drv.C06
