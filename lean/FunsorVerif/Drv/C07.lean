/- Drv/C07.lean — driver handler for property C07 (line protocol; core-only imports).

   C07 run (<step>*)          run a history from the empty state; one observation per step
   C07 key <mcls> (<argtok>*)  metaclass normalisation + make_hash_key of one call
   C07 table                   the generated class table (name, metaclass, #fields)

   step   ::= (obs MINSTAMP)   -- emit an observation here
            | (mkkw SLOT CLS CYC "mcls" (<positional argtok>*) (("field" (<argtok>*))*) NID)
            | (alloc SLOT ID) | (mk SLOT CLS CYC "mcls" (<argtok>*) NID) | (drop SLOT)
            | (reclaim ID) | (sweep) | (gc) | (rebuild SRC DST ((OLD NEW)*))
   argtok ::= (i INT) | (b BOOL) | (f P Q) | nz | (nan OID) | (s "str") | none | (o ID) | (a ID)
            | lp | rp | fl | fr | dict | sl | el
   obs    ::= (ok (roots (SLOT ID)*) (objs (ID CLS STAMP)*) (arrs (ID SERIAL)*) (keys (CLS ID tok*)*)
                  (ncache N M))
            | (err NAME STEPINDEX)     -- the run stops at the first step whose guard fails
-/
import FunsorVerif.Core.Sexp
import FunsorVerif.Model.C07
import FunsorVerif.Gen.C07Table
namespace FV.Drv.C07
open FV FV.C07

def parseArgTok : Sexp → Option ArgTok
  | .atom "nz" => some .negz
  | .atom "none" => some .none
  | .atom "lp" => some .lp
  | .atom "rp" => some .rp
  | .atom "fl" => some .fl
  | .atom "fr" => some .fr
  | .atom "dict" => some .dict
  | .atom "sl" => some .sl
  | .atom "el" => some .ellipsis
  | .list [.atom "i", z] => z.asInt?.map .int
  | .list [.atom "b", b] => b.asBool?.map .bool
  | .list [.atom "f", p, q] => do some (.flt (← p.asInt?) (← q.asNat?))
  | .list [.atom "nan", o] => o.asNat?.map .nan
  | .list [.atom "s", .str s] => some (.str s)
  | .list [.atom "o", i] => i.asNat?.map .obj
  | .list [.atom "a", i] => i.asNat?.map .arr
  | _ => Option.none

def parseArgs (s : Sexp) : Option (List ArgTok) := do
  let xs ← s.asList?
  xs.mapM parseArgTok

def parsePairs (s : Sexp) : Option (List (Nat × Nat)) := do
  let xs ← s.asList?
  xs.mapM fun
    | .list [a, b] => do some (← a.asNat?, ← b.asNat?)
    | _ => Option.none

/-- A parsed request step: `mk` still carries the user-level args and the metaclass name. -/
inductive Req where
  | plain (st : Step)
  | mk (slot cls : Nat) (cyc : Bool) (mcls : String) (args : List ArgTok) (nid : Nat)
  | obs (minStamp : Nat)
  | mkkw (slot cls : Nat) (cyc : Bool) (mcls : String) (pos : List ArgTok)
      (kws : List (String × List ArgTok)) (nid : Nat)

def parseStep : Sexp → Option Req
  | .list [.atom "alloc", a, b] => do some (.plain (.alloc (← a.asNat?) (← b.asNat?)))
  | .list [.atom "drop", a] => do some (.plain (.drop (← a.asNat?)))
  | .list [.atom "reclaim", a] => do some (.plain (.reclaim (← a.asNat?)))
  | .list [.atom "sweep"] => some (.plain .sweep)
  | .list [.atom "gc"] => some (.plain .gc)
  | .list [.atom "obs", a] => do some (.obs (← a.asNat?))
  | .list [.atom "rebuild", a, b, m] => do
      some (.plain (.rebuild (← a.asNat?) (← b.asNat?) (← parsePairs m)))
  | .list [.atom "mkkw", slot, cls, cyc, .str mcls, pos, .list kws, nid] => do
      let kws ← kws.mapM fun
        | .list [.str n, a] => do some (n, ← parseArgs a)
        | _ => Option.none
      some (.mkkw (← slot.asNat?) (← cls.asNat?) (← cyc.asBool?) mcls (← parseArgs pos) kws (← nid.asNat?))
  | .list [.atom "mk", slot, cls, cyc, .str mcls, args, nid] => do
      some (.mk (← slot.asNat?) (← cls.asNat?) (← cyc.asBool?) mcls (← parseArgs args) (← nid.asNat?))
  | _ => Option.none

def tokSexp : Tok → Sexp
  | .num p q => .list [.atom "n", Sexp.ofInt p, Sexp.ofNat q]
  | .nan o => .list [.atom "nan", Sexp.ofNat o]
  | .str s => .list [.atom "s", .str s]
  | .none => .atom "none"
  | .ref i => .list [.atom "r", Sexp.ofNat i]
  | .lp => .atom "lp"
  | .rp => .atom "rp"
  | .fl => .atom "fl"
  | .fr => .atom "fr"
  | .ellipsis => .atom "el"

/-- Observation; objects allocated before `minStamp` (the pinned prelude) are left out of
    `objs`/`keys` (their table entries never change; hits on them show in `roots`). -/
def obsOf (s : St) (minStamp : Nat) : Sexp :=
  let young := s.objs.filter fun p => p.2.stamp ≥ minStamp
  let youngIds := young.map (·.1)
  .list [.atom "ok",
    .list (.atom "roots" :: s.roots.map fun r => .list [Sexp.ofNat r.1, Sexp.ofNat r.2]),
    .list (.atom "objs" :: young.map fun p =>
      .list [Sexp.ofNat p.1, Sexp.ofNat p.2.cls, Sexp.ofNat p.2.stamp]),
    .list (.atom "arrs" :: s.arrs.map fun a => .list [Sexp.ofNat a.1, Sexp.ofNat a.2]),
    .list (.atom "keys" :: (s.cache.filter fun e => youngIds.contains e.2).map fun e =>
      .list (Sexp.ofNat e.1.1 :: Sexp.ofNat e.2 :: e.1.2.map tokSexp)),
    .list [.atom "ncache", Sexp.ofNat s.cache.length, Sexp.ofNat s.objs.length]]

def errObs (e : String) : Sexp := .list [.atom "err", .atom e]

/-- The arity the generated class table declares for class index `cls` (funsor classes only). -/
def arityOk (cls : Nat) (groups : List (List ArgTok)) : Bool :=
  match FV.Gen.C07.classes[cls]? with
  | some e => e.kind != "funsor" || groups.length == e.fields.length
  | Option.none => false

def stepKw (s : St) (slot cls : Nat) (cyc : Bool) (mcls : String) (pos : List ArgTok)
    (kws : List (String × List ArgTok)) (nid : Nat) : Except String St :=
  match FV.Gen.C07.classes[cls]?, splitTop pos with
  | some e, some pgroups =>
    match kwargsToArgs e.fields pgroups kws with
    | Option.none => .error "bad-kwargs"
    | some groups =>
      match normArgs mcls groups with
      | Option.none => .error "bad-args"
      | some gs =>
        if !arityOk cls gs then .error "arity"
        else (step s (.mk slot cls cyc gs.flatten nid)).mapError Err.name
  | _, _ => .error "bad-args"

def stepReq (s : St) : Req → Except String St
  | .obs _ => .ok s
  | .mkkw slot cls cyc mcls pos kws nid => stepKw s slot cls cyc mcls pos kws nid
  | .plain st => (step s st).mapError Err.name
  | .mk slot cls cyc mcls args nid =>
    match splitTop args with
    | Option.none => .error "bad-args"
    | some groups =>
      match normArgs mcls groups with
      | Option.none => .error "bad-args"
      | some gs =>
        if !arityOk cls gs then .error "arity"
        else (step s (.mk slot cls cyc gs.flatten nid)).mapError Err.name

def runReqs : St → List Req → Nat → List Sexp → List Sexp
  | _, [], _, acc => acc.reverse
  | s, .obs m :: rs, n, acc => runReqs s rs (n + 1) (obsOf s m :: acc)
  | s, r :: rs, n, acc =>
    match stepReq s r with
    | .error e => (.list [.atom "err", .atom e, Sexp.ofNat n] :: acc).reverse
    | .ok s1 => runReqs s1 rs (n + 1) acc

def handle (args : List Sexp) : String :=
  match args with
  | [.atom "run", .list steps] =>
    match steps.mapM parseStep with
    | Option.none => "err bad-step"
    | some reqs => "ok " ++ toString (Sexp.list (runReqs St.init reqs 0 []))
  | [.atom "key", .str mcls, as] =>
    match parseArgs as with
    | Option.none => "err bad-args"
    | some a =>
      match (splitTop a).bind (normArgs mcls) with
      | Option.none => "ok declined"
      | some gs =>
        match mkKey gs.flatten with
        | Option.none => "ok declined"
        | some k => "ok " ++ toString (Sexp.list (k.map tokSexp))
  | [.atom "table"] =>
    "ok " ++ toString (Sexp.list (FV.Gen.C07.classes.map fun e =>
      .list [.str e.name, .str e.kind, .str e.mcls, Sexp.ofNat e.fields.length]))
  | _ => "err bad-request"

end FV.Drv.C07
