/- Drv/C08.lean — driver handler for property C08 (normal forms / contraction-order optimisation). -/
import FunsorVerif.Core.Sexp
import FunsorVerif.Core.XR
import FunsorVerif.Core.Semiring
import FunsorVerif.Model.TermParse
import FunsorVerif.Model.C08
namespace FV.Drv.C08
open FV FV.C08

def opsOf (s : SR) : Ops XR := ⟨s.add, s.mul, s.zero, s.one⟩

def parseSizes (s : Sexp) : Option (List (String × Nat)) := do
  let xs ← s.asList?
  xs.mapM fun p => match p with
    | Sexp.list [n, k] => do pure ((← n.asStr?), (← k.asNat?))
    | _ => none

def sizeFn (sizes : List (String × Nat)) : String → Nat := fun n => (sizes.lookup n).getD 1

/-- A model environment as a `denote` environment over the listed names (then the real parameters). -/
def semEnv (names : List String) (env : C08.Env) (extra : FV.Env) : FV.Env :=
  names.map (fun n => (n, Sem.ofNat (env n))) ++ extra

/-- The scalar value of a wire term at a model environment (`nan` when undefined / not a scalar). -/
def termSem (t : Term) (names : List String) (extra : FV.Env) : C08.Env → XR := fun env =>
  match denote t (semEnv names env extra) with
  | some s => if s.shape.isEmpty then s.get [] else XR.nan
  | none => XR.nan

/-- All points of the named inputs, row-major, as model environments. -/
def points : List (String × Nat) → List C08.Env
  | [] => [fun _ => 0]
  | (n, k) :: rest => (List.range k).flatMap fun i => (points rest).map fun e => upd e n i

def showVals (v : List XR) : Sexp := Sexp.list (v.map XR.toSexp)
def showNames (v : List String) : Sexp := Sexp.list (v.map Sexp.str)

def parseOperands (s : Sexp) : Option (List (List String × Term)) := do
  let xs ← s.asList?
  xs.mapM fun p => match p with
    | Sexp.list [ins, t] => do pure ((← ins.asStrs?), (← parseTerm t))
    | _ => none

def parsePath (s : Sexp) : Option (List (Nat × Nat)) := do
  let xs ← s.asList?
  xs.mapM fun p => match p with
    | Sexp.list [a, b] => do pure ((← a.asNat?), (← b.asNat?))
    | _ => none

/--
  C08 denote TERM (("n" size)*) ENV
        table of the textbook value (shared `denote`)
  C08 optimize SR (("n" size)*)sizes ("n"*)reduced (((“n”*) TERM)*)operands ((a b)*)path (("n" size)*)free ENV
        the model of optimize_contract_finitary_funsor on the given path:
        ok (value v*) (spec v*) (trace (lo hi ("n"*))*) (final "n"*) (ins "n"*)   |  ok malformed-path
-/
def handle (args : List Sexp) : String :=
  match args with
  | Sexp.atom "denote" :: rest => (handleDenote rest).getD "err bad-args"
  | [Sexp.atom "optimize", Sexp.atom srn, sizes, reduced, operands, path, free, env] =>
    match SR.ofName? srn, parseSizes sizes, reduced.asStrs?, parseOperands operands, parsePath path,
          parseSizes free, parseEnv env with
    | some sr, some sizes, some reduced, some operands, some path, some free, some extra =>
      let o := opsOf sr
      let size := sizeFn sizes
      let names := sizes.map (·.1)
      let terms : List (Operand XR) := operands.map fun (ins, t) => ⟨ins, termSem t names extra⟩
      match optimize o size reduced terms path with
      | none => "ok malformed-path"
      | some (res, trs, fin) =>
        let pts := points free
        let vals := pts.map res.sem
        let spec := pts.map (contractSpec o size reduced terms)
        let tr := Sexp.list (trs.map fun t => Sexp.list [Sexp.ofNat t.lo, Sexp.ofNat t.hi, showNames t.pathEndVars])
        "ok " ++ toString (Sexp.list [
          Sexp.list [Sexp.atom "value", showVals vals],
          Sexp.list [Sexp.atom "spec", showVals spec],
          Sexp.list [Sexp.atom "trace", tr],
          Sexp.list [Sexp.atom "final", showNames fin],
          Sexp.list [Sexp.atom "ins", showNames res.ins]])
    | _, _, _, _, _, _, _ => "err bad-args"
  | _ => "err bad-request"

end FV.Drv.C08
