/- Drv/C08.lean — driver handler for property C08 (normal forms / contraction-order optimisation). -/
import FunsorVerif.Core.Sexp
import FunsorVerif.Core.XR
import FunsorVerif.Core.Semiring
import FunsorVerif.Model.TermParse
import FunsorVerif.Model.C08
import FunsorVerif.Gen.C08Tables
namespace FV.Drv.C08
open FV FV.C08

def opsOf (s : SR) : Ops XR := ⟨s.add, s.mul, s.zero, s.one⟩

def parseSizes (s : Sexp) : Option (List (String × Nat)) := do
  let xs ← s.asList?
  xs.mapM fun p => match p with
    | Sexp.list [n, k] => do pure ((← n.asStr?), (← k.asNat?))
    | _ => none

def sizeFn (sizes : List (String × Nat)) : String → Nat := fun n => (sizes.lookup n).getD 1

/-- A model environment as a `denote` environment over the listed names (then the real parameters). -/
def semEnv (names : List String) (env : C08.Env) (extra : FV.Env) : FV.Env :=
  names.map (fun n => (n, Sem.ofNat (env n))) ++ extra

/-- The scalar value of a wire term at a model environment (`nan` when undefined / not a scalar). -/
def termSem (t : Term) (names : List String) (extra : FV.Env) : C08.Env → XR := fun env =>
  match denote t (semEnv names env extra) with
  | some s => if s.shape.isEmpty then s.get [] else XR.nan
  | none => XR.nan

/-- All points of the named inputs, row-major, as model environments. -/
def points : List (String × Nat) → List C08.Env
  | [] => [fun _ => 0]
  | (n, k) :: rest => (List.range k).flatMap fun i => (points rest).map fun e => upd e n i

def showVals (v : List XR) : Sexp := Sexp.list (v.map XR.toSexp)
def showNames (v : List String) : Sexp := Sexp.list (v.map Sexp.str)

def parseOperands (s : Sexp) : Option (List (List String × Term)) := do
  let xs ← s.asList?
  xs.mapM fun p => match p with
    | Sexp.list [ins, t] => do pure ((← ins.asStrs?), (← parseTerm t))
    | _ => none

def parsePath (s : Sexp) : Option (List (Nat × Nat)) := do
  let xs ← s.asList?
  xs.mapM fun p => match p with
    | Sexp.list [a, b] => do pure ((← a.asNat?), (← b.asNat?))
    | _ => none

/-! ### wire terms as sum-product terms of the model -/

/-- (⊕ name, ⊗ name) of an executable semiring. -/
def srNames : String → Option (String × String)
  | "add-mul" => some ("add", "mul")
  | "max-add" => some ("max", "add")
  | "min-add" => some ("min", "add")
  | "max-mul" => some ("max", "mul")
  | "min-mul" => some ("min", "mul")
  | "or-and" => some ("or", "and")
  | _ => none

def opK (nm : String × String) (op : String) : Option OpK :=
  if op == "null" then some .null else if op == nm.1 then some .add else if op == nm.2 then some .mul else none

def dedup (l : List String) : List String := l.foldl (fun acc x => if acc.contains x then acc else acc ++ [x]) []

def bintVars (vars : List (Name × Dom)) : Option (List (String × Nat)) :=
  vars.mapM fun (n, d) => match d.dtype, d.shape with
    | DType.bint k, [] => some (n, k)
    | _, _ => none

/-- All binders `(name, size)` of the reductions in a term (their sizes complete the size function)
    and the names bound by substitutions (never summed: size irrelevant). -/
partial def binders : Term → List (String × Nat)
  | Term.unary _ a => binders a
  | Term.binary _ l r => binders l ++ binders r
  | Term.reduce _ a vars => ((bintVars vars).getD []) ++ binders a
  | Term.contraction _ _ vars ts => ((bintVars vars).getD []) ++ ts.flatMap binders
  | Term.subs a σ => σ.map (fun p => (p.1, 1)) ++ binders a ++ σ.flatMap (fun p => binders p.2)
  | Term.align a _ => binders a
  | _ => []

def subsArg : Term → Option Arg
  | Term.var n _ => some (.var n)
  | Term.num (XR.fin q) _ => if q.den = 1 ∧ 0 ≤ q.num then some (.lit q.num.toNat) else none
  | _ => none

/-- `UNITS[op]` of the generated table decides which numbers the unit-removal rule drops. -/
def isUnitOf (nm : String × String) : OpK → XR → Bool
  | .add, c => FV.Gen.C08.units.lookup nm.1 == some c
  | .mul, c => FV.Gen.C08.units.lookup nm.2 == some c
  | .null, _ => false

instance : Inhabited (Ex XR) := ⟨.num XR.nan⟩

/-- Wire term → model term.  Anything the rules treat as opaque becomes a `leaf` whose value is the
    shared `denote` and whose inputs are the term's free names. -/
partial def toEx (nm : String × String) (names : List String) (extra : FV.Env) (t : Term) : Ex XR :=
  let opq : Ex XR := .leaf (dedup t.fv) (termSem t names extra)
  match t with
  | Term.num v _ => .num v
  | Term.binary op l r =>
    match opK nm op.name with
    | some k => if k == .null then opq else .binary k (toEx nm names extra l) (toEx nm names extra r)
    | none =>
      -- `binary_subtract`: lhs - rhs -> lhs + -rhs (the ring (add, mul) only)
      if op.name == "sub" && nm.1 == "add" && nm.2 == "mul" then
        .binop .add XR.neg XR.sub (toEx nm names extra l) (toEx nm names extra r)
      else opq
  | Term.reduce op a vars =>
    match opK nm op, bintVars vars with
    | some .add, some vs => .reduce .add (vs.map (·.1)) (toEx nm names extra a)
    | _, _ => opq
  | Term.contraction r b vars ts =>
    match opK nm r, opK nm b, bintVars vars with
    | some rk, some bk, some vs =>
      if rk == .mul then opq else .contr rk bk (vs.map (·.1)) (ts.map (toEx nm names extra))
    | _, _, _ => opq
  | Term.subs a σ =>
    match σ.mapM (fun p => (subsArg p.2).map fun x => (p.1, x)) with
    | some σ' => .subs (toEx nm names extra a) σ'
    | none => opq
  | Term.unary op a =>
    -- negation is registered for `unary_contract` over `ops.add` Contractions (the ring (add, mul) only)
    if op.name == "neg" && nm.1 == "add" && nm.2 == "mul" then .unary .add XR.neg (toEx nm names extra a) else opq
  | _ => opq

/-- The `unfold` interpretation: unfold rule first, then the normalize cascade (driver-side closure). -/
partial def unfoldNorm (isU : OpK → XR → Bool) (fuel : Nat) (t : Ex XR) : Ex XR :=
  if fuel = 0 then t else
  let t' : Ex XR := match t with
    | .binary op l r => .binary op (unfoldNorm isU (fuel - 1) l) (unfoldNorm isU (fuel - 1) r)
    | .reduce op vars e => .reduce op vars (unfoldNorm isU (fuel - 1) e)
    | .contr red bin vars ts => .contr red bin vars (ts.map (unfoldNorm isU (fuel - 1)))
    | .subs e σ => .subs (unfoldNorm isU (fuel - 1) e) σ
    | .unary h u e => .unary h u (unfoldNorm isU (fuel - 1) e)
    | .binop k u g l r => .binop k u g (unfoldNorm isU (fuel - 1) l) (unfoldNorm isU (fuel - 1) r)
    | t => t
  match (ruleUnfold t').orElse (fun _ => normRoot isU t') with
  | none => t'
  | some t'' => unfoldNorm isU (fuel - 1) t''

def showOpK : OpK → String
  | .null => "null" | .add => "add" | .mul => "mul"

/-- Root shape of a model term, for the fidelity comparison with funsor's result. -/
def rootShape : Ex XR → Sexp
  | .contr r b vars ts => Sexp.list [Sexp.atom "contraction", Sexp.atom (showOpK r), Sexp.atom (showOpK b),
      Sexp.ofNat vars.length, Sexp.ofNat ts.length]
  | .leaf _ _ => Sexp.atom "leaf"
  | .num _ => Sexp.atom "num"
  | .binary _ _ _ => Sexp.atom "binary"
  | .reduce _ _ _ => Sexp.atom "reduce"
  | .subs _ _ => Sexp.atom "subs"
  | .unary _ _ _ => Sexp.atom "unary"
  | .binop _ _ _ _ _ => Sexp.atom "binary"

/--
  C08 denote TERM (("n" size)*) ENV
        table of the textbook value (shared `denote`)
  C08 optimize SR (("n" size)*)sizes ("n"*)reduced (((“n”*) TERM)*)operands ((a b)*)path (("n" size)*)free ENV
        the model of optimize_contract_finitary_funsor on the given path:
        ok (value v*) (spec v*) (trace (lo hi ("n"*))*) (final "n"*) (ins "n"*)   |  ok malformed-path
  C08 rewrite (norm|unfold) SR TERM (("n" size)*)sizes (("n" size)*)free ENV
        the model normaliser / unfolder on the wire term:
        ok (before v*) (after v*) (root SHAPE) (flat BOOL)
-/
def handle (args : List Sexp) : String :=
  match args with
  | Sexp.atom "denote" :: rest => (handleDenote rest).getD "err bad-args"
  | [Sexp.atom "optimize", Sexp.atom srn, sizes, reduced, operands, path, free, env] =>
    match SR.ofName? srn, parseSizes sizes, reduced.asStrs?, parseOperands operands, parsePath path,
          parseSizes free, parseEnv env with
    | some sr, some sizes, some reduced, some operands, some path, some free, some extra =>
      let o := opsOf sr
      let size := sizeFn sizes
      let names := sizes.map (·.1)
      let terms : List (Operand XR) := operands.map fun (ins, t) => ⟨ins, termSem t names extra⟩
      match optimize o size reduced terms path with
      | none => "ok malformed-path"
      | some (res, trs, fin) =>
        let pts := points free
        let vals := pts.map res.sem
        let spec := pts.map (contractSpec o size reduced terms)
        let tr := Sexp.list (trs.map fun t => Sexp.list [Sexp.ofNat t.lo, Sexp.ofNat t.hi, showNames t.pathEndVars])
        "ok " ++ toString (Sexp.list [
          Sexp.list [Sexp.atom "value", showVals vals],
          Sexp.list [Sexp.atom "spec", showVals spec],
          Sexp.list [Sexp.atom "trace", tr],
          Sexp.list [Sexp.atom "final", showNames fin],
          Sexp.list [Sexp.atom "ins", showNames res.ins]])
    | _, _, _, _, _, _, _ => "err bad-args"
  | [Sexp.atom "rewrite", Sexp.atom which, Sexp.atom srn, term, sizes, free, env] =>
    match SR.ofName? srn, srNames srn, parseTerm term, parseSizes sizes, parseSizes free, parseEnv env with
    | some sr, some nm, some t, some sizes, some free, some extra =>
      let o := opsOf sr
      let base := sizes ++ free.filter (fun p => !(sizes.map (·.1)).contains p.1)
      let allSizes := base ++ (binders t).filter (fun p => !(base.map (·.1)).contains p.1)
      let size := sizeFn allSizes
      let names := dedup (allSizes.map (·.1))
      let e := toEx nm names extra t
      let isU := isUnitOf nm
      let e' := if which == "unfold" then unfoldNorm isU 40 e else norm isU 40 e
      let pts := points free
      "ok " ++ toString (Sexp.list [
        Sexp.list [Sexp.atom "before", showVals (pts.map (e.eval o size))],
        Sexp.list [Sexp.atom "after", showVals (pts.map (e'.eval o size))],
        Sexp.list [Sexp.atom "root", rootShape e'],
        Sexp.list [Sexp.atom "flat", Sexp.ofBool (isFlat isU e')]])
    | _, _, _, _, _, _ => "err bad-args"
  | _ => "err bad-request"

end FV.Drv.C08
