/- Drv/C09.lean — driver handler for property C09 (plated sum-product). Core-only imports. -/
import FunsorVerif.Core.Sexp
import FunsorVerif.Core.XR
import FunsorVerif.Core.Semiring
import FunsorVerif.Model.C09
namespace FV.Drv.C09
open FV FV.C09

def opsOf (s : SR) : Ops XR := ⟨s.add, s.mul, s.zero, s.one⟩

def parseInputs (s : Sexp) : Option (List (Name × Nat)) := do
  let xs ← s.asList?
  xs.mapM fun p => match p with
    | Sexp.list [n, k] => do pure ((← n.asStr?), (← k.asNat?))
    | _ => none

def parseFactor (s : Sexp) : Option (Factor XR) :=
  match s with
  | Sexp.list [inp, dat] => do
    let inputs ← parseInputs inp
    let ds ← dat.asList?
    let data ← ds.mapM XR.ofSexp?
    pure ⟨inputs, data⟩
  | _ => none

def parseFactors (s : Sexp) : Option (List (Factor XR)) := do
  let xs ← s.asList?
  xs.mapM parseFactor

def showInputs (i : List (Name × Nat)) : Sexp :=
  Sexp.list (i.map fun p => Sexp.list [Sexp.atom p.1, Sexp.ofNat p.2])

def showFactor (f : Factor XR) : Sexp :=
  Sexp.list [showInputs f.inputs, Sexp.list (f.data.map XR.toSexp)]

def showVals (v : List XR) : Sexp := Sexp.list (v.map XR.toSexp)

def showErr (e : Err) : String := "ok (error " ++ e.toString ++ ")"

/-- value of the product of a result list at every point of `free`, plus the list itself -/
def showResults (o : Ops XR) (free : List (Name × Nat)) : Except Err (List (Factor XR)) → String
  | .error e => showErr e
  | .ok rs =>
    match (prodAll o rs).bind (tableOver · free) with
    | some vs => "ok (value " ++ toString (showVals vs) ++ " " ++ toString (Sexp.list (rs.map showFactor)) ++ ")"
    | none => "err result-not-over-free-inputs"

/--
  C09 unroll  SR FACTORS (elim…) (plates…) ((plate scale)…) ((free size)…)       -> ok (value (v…))
  C09 psp     SR FACTORS (elim…) (plates…) ((plate scale)…) ((free size)…) MOD PED -> ok (value (v…) (F…)) | ok (error e)
  C09 psp2    SR FACTORS (e1…) (e2…) (plates…) ((free size)…)                    -> same shape
  C09 einsum  SR FACTORS (output…) (plates…) ((free size)…)                      -> same shape
  FACTORS = ( (((name size)…) (d…)) … )
-/
def handle (args : List Sexp) : String :=
  match args with
  | [Sexp.atom "unroll", Sexp.atom srn, fs, el, pl, sc, fr] =>
    match SR.ofName? srn, parseFactors fs, el.asStrs?, pl.asStrs?, parseInputs sc, parseInputs fr with
    | some sr, some fs, some el, some pl, some sc, some fr =>
      match unroll (opsOf sr) fs el pl sc fr with
      | .ok vs => "ok (value " ++ toString (showVals vs) ++ ")"
      | .error e => showErr e
    | _, _, _, _, _, _ => "err bad-args"
  | [Sexp.atom "psp", Sexp.atom srn, fs, el, pl, sc, fr, md, pd] =>
    match SR.ofName? srn, parseFactors fs, el.asStrs?, pl.asStrs?, parseInputs sc, parseInputs fr,
          md.asBool?, pd.asBool? with
    | some sr, some fs, some el, some pl, some sc, some fr, some md, some pd =>
      showResults (opsOf sr) fr (psp (opsOf sr) fs el pl sc md pd)
    | _, _, _, _, _, _, _, _ => "err bad-args"
  | [Sexp.atom "psp2", Sexp.atom srn, fs, e1, e2, pl, fr] =>
    match SR.ofName? srn, parseFactors fs, e1.asStrs?, e2.asStrs?, pl.asStrs?, parseInputs fr with
    | some sr, some fs, some e1, some e2, some pl, some fr =>
      showResults (opsOf sr) fr (psp2 (opsOf sr) fs e1 e2 pl)
    | _, _, _, _, _, _ => "err bad-args"
  | [Sexp.atom "einsum", Sexp.atom srn, fs, out, pl, fr] =>
    match SR.ofName? srn, parseFactors fs, out.asStrs?, pl.asStrs?, parseInputs fr with
    | some sr, some fs, some out, some pl, some fr =>
      match einsumElim (fs.map Factor.names) out pl with
      | .error e => showErr e
      | .ok el => showResults (opsOf sr) fr ((sumProduct (opsOf sr) fs el pl []).map ([·]))
    | _, _, _, _, _ => "err bad-args"
  | _ => "err bad-request"

end FV.Drv.C09
