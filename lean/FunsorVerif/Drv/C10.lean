/- Drv/C10.lean — driver handler for property C10 (Markov products). -/
import FunsorVerif.Core.Sexp
import FunsorVerif.Core.XR
import FunsorVerif.Core.Semiring
import FunsorVerif.Model.C10
import FunsorVerif.Model.C10.Sarkka
namespace FV.Drv.C10
open FV FV.C10 FV.C10.SB

def showRes : Option Mat → String
  | some m => "ok " ++ toString (Mat.toSexp m)
  | none => "ok declined"

def parseMats (s : Sexp) : Option (List Mat) := do
  let xs ← s.asList?
  xs.mapM Mat.ofSexp?

def showNats (ns : List Nat) : Sexp := Sexp.ofNats ns
def showPairs (ps : List (Nat × Nat)) : Sexp := Sexp.list (ps.map fun (a, b) => Sexp.ofNats [a, b])

def parsePairs (s : Sexp) : Option (List (String × String)) := do
  let xs ← s.asList?
  xs.mapM fun p => do
    let ab ← p.asStrs?
    match ab with
    | [a, b] => some (a, b)
    | _ => none

def prodKind? : String → Option ProdKind
  | "add" => some .add
  | "mul" => some .mul
  | "other" => some .other
  | _ => none

/--
  C10 fold  SR (M…)        left-to-right fold (the oracle)
  C10 naive SR (M…)        naive_sequential_sum_product
  C10 scan  SR (M…)        sequential_sum_product (index-level rounds)
  C10 mixed SR K (M…)      mixed_sequential_sum_product, num_segments = K
  C10 scanconst SR D M     time-independent transition, duration D
  C10 sarkka SR P NP (M…)  sarkka_bilmes_product on the window chain, period P, num_periods NP
  C10 naivesarkka SR (M…)  naive_sarkka_bilmes_product on the window chain
  C10 sbwin SR S K P NP (TAB…)   sarkka / naive / fold from factor tables tab[cur][window], projected
  C10 sbplan T (shift…)    period, lags, block slices, block shifts, block_step, final sum shifts, result shifts
  C10 getshift "name"      _get_shift
  C10 shiftname "name" t   _shift_name
  C10 eager SR KIND HASSTEP T (seq (M…)) | (const M)     eager_markov_product
  C10 mpinputs "time" ("in"…) (("k" "v")…) (("from" "to")…)   MarkovProduct inputs after eager_subs renaming
-/
def handle (args : List Sexp) : String :=
  match args with
  | [Sexp.atom "sbplan", t, shifts] =>
    match t.asNat?, shifts.asNats? with
    | some T, some shifts =>
      let lags := lagsOf shifts
      match period lags with
      | none => "ok nolags"
      | some p =>
        let bs := blockShifts p lags
        "ok " ++ toString (Sexp.list [showNats [p], showNats lags,
          Sexp.list ((blockSlices (T - T % p) p).map showNats), showNats ((List.range p).map (blockShift p)),
          showPairs (blockStep p bs), showNats (finalSumShifts p), showNats (resultShifts T lags)])
    | _, _ => "err bad-args"
  | [Sexp.atom "getshift", nm] =>
    match nm.asStr? with
    | some s => "ok " ++ toString (getShiftS s.toList)
    | none => "err bad-args"
  | [Sexp.atom "shiftname", nm, t] =>
    match nm.asStr?, t.asInt? with
    | some s, some t => "ok \"" ++ String.ofList (shiftNameS s.toList t) ++ "\""
    | _, _ => "err bad-args"
  | [Sexp.atom "mpinputs", time, ins, sn, rn] =>
    match time.asStr?, ins.asStrs?, parsePairs sn, parsePairs rn with
    | some time, some ins, some sn, some rn =>
      "ok " ++ toString (Sexp.list ((markovInputs (renameStepNames rn sn) time ins).map Sexp.str))
    | _, _, _, _ => "err bad-args"
  | [Sexp.atom "eager", Sexp.atom srn, Sexp.atom kind, hs, t, tr] =>
    match SR.ofName? srn, prodKind? kind, hs.asBool?, t.asNat? with
    | some sr, some kind, some hs, some T =>
      let go (tr : Trans Mat) := showRes (markovEager (Mat.mul sr) matScale matPow kind hs T tr)
      match tr with
      | Sexp.list [Sexp.atom "seq", ms] =>
        match parseMats ms with
        | some mats => go (.seq mats)
        | none => "err bad-mats"
      | Sexp.list [Sexp.atom "const", m] =>
        match Mat.ofSexp? m with
        | some m => go (.const m)
        | none => "err bad-mat"
      | _ => "err bad-trans"
    | _, _, _, _ => "err bad-args"
  | [Sexp.atom cmd, Sexp.atom srn, ms] =>
    match SR.ofName? srn, parseMats ms with
    | some sr, some mats =>
      let f := Mat.mul sr
      match cmd with
      | "fold" => showRes (fold1 f mats)
      | "naive" => showRes (naive f mats)
      | "scan" => showRes (scanIdx f (mats.length + 1) mats)
      | "scanstruct" => showRes (scan f mats)
      | "naivesarkka" => showRes (naiveSarkka f mats)
      | _ => "err bad-cmd"
    | _, _ => "err bad-args"
  | [Sexp.atom "mixed", Sexp.atom srn, k, ms] =>
    match SR.ofName? srn, k.asNat?, parseMats ms with
    | some sr, some k, some mats => showRes (mixed (Mat.mul sr) k 2 mats)
    | _, _, _ => "err bad-args"
  | [Sexp.atom "sarkka", Sexp.atom srn, p, np, ms] =>
    match SR.ofName? srn, p.asNat?, np.asNat?, parseMats ms with
    | some sr, some p, some np, some mats => showRes (sarkka (Mat.mul sr) p np 2 mats)
    | _, _, _, _ => "err bad-args"
  | [Sexp.atom "sbwin", Sexp.atom srn, s, k, p, np, tabs] =>
    -- whole pipeline from factor tables: window matrices → sarkka / naive / fold → final projection
    match SR.ofName? srn, s.asNat?, k.asNat?, p.asNat?, np.asNat?, parseMats tabs with
    | some sr, some S, some k, some p, some np, some tabs =>
      let mats := tabs.map fun tab => windowMat S k sr.zero (facOfTable S tab)
      let f := Mat.mul sr
      let sh (r : Option Mat) : Sexp := match r with
        | some m => Mat.toSexp (projectFinal sr S k m)
        | none => Sexp.atom "declined"
      "ok " ++ toString (Sexp.list [sh (sarkka f p np 2 mats), sh (naiveSarkka f mats), sh (fold1 f mats)])
    | _, _, _, _, _, _ => "err bad-args"
  | [Sexp.atom "scanconst", Sexp.atom srn, d, m] =>
    match SR.ofName? srn, d.asNat?, Mat.ofSexp? m with
    | some sr, some d, some m => showRes (scanConst (Mat.mul sr) m (d + 1) d)
    | _, _, _ => "err bad-args"
  | _ => "err bad-request"

end FV.Drv.C10
