/- Drv/C10.lean — driver handler for property C10 (Markov products). -/
import FunsorVerif.Core.Sexp
import FunsorVerif.Core.XR
import FunsorVerif.Core.Semiring
import FunsorVerif.Model.C10
namespace FV.Drv.C10
open FV FV.C10

def showRes : Option Mat → String
  | some m => "ok " ++ toString (Mat.toSexp m)
  | none => "ok declined"

def parseMats (s : Sexp) : Option (List Mat) := do
  let xs ← s.asList?
  xs.mapM Mat.ofSexp?

/--
  C10 fold  SR (M…)        left-to-right fold (the oracle)
  C10 naive SR (M…)        naive_sequential_sum_product
  C10 scan  SR (M…)        sequential_sum_product (index-level rounds)
  C10 mixed SR K (M…)      mixed_sequential_sum_product, num_segments = K
  C10 scanconst SR D M     time-independent transition, duration D
-/
def handle (args : List Sexp) : String :=
  match args with
  | [Sexp.atom cmd, Sexp.atom srn, ms] =>
    match SR.ofName? srn, parseMats ms with
    | some sr, some mats =>
      let f := Mat.mul sr
      match cmd with
      | "fold" => showRes (fold1 f mats)
      | "naive" => showRes (naive f mats)
      | "scan" => showRes (scanIdx f (mats.length + 1) mats)
      | "scanstruct" => showRes (scan f mats)
      | _ => "err bad-cmd"
    | _, _ => "err bad-args"
  | [Sexp.atom "mixed", Sexp.atom srn, k, ms] =>
    match SR.ofName? srn, k.asNat?, parseMats ms with
    | some sr, some k, some mats => showRes (mixed (Mat.mul sr) k 2 mats)
    | _, _, _ => "err bad-args"
  | [Sexp.atom "scanconst", Sexp.atom srn, d, m] =>
    match SR.ofName? srn, d.asNat?, Mat.ofSexp? m with
    | some sr, some d, some m => showRes (scanConst (Mat.mul sr) m (d + 1) d)
    | _, _, _ => "err bad-args"
  | _ => "err bad-request"

end FV.Drv.C10
