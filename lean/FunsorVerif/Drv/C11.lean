/- Drv/C11.lean — driver handler for property C11 (adjoints = semiring derivatives). -/
import FunsorVerif.Core.Sexp
import FunsorVerif.Core.XR
import FunsorVerif.Core.Semiring
import FunsorVerif.Model.C11
import FunsorVerif.Model.C11.Tape
import FunsorVerif.Model.C11.Dag
namespace FV.Drv.C11
open FV FV.C11

/-- float64 `finfo.max` -/
def maxFloat : Rat := (2 : Rat) ^ 1024 - (2 : Rat) ^ 971

/-- `ops.safediv` on numpy: `x * clip(reciprocal(y), None, finfo.max)` -/
def safediv (x y : XR) : XR :=
  let r : XR := match y with
    | .fin q => if q = 0 then .fin maxFloat else .fin (1 / q)
    | .pinf => 0
    | .ninf => 0
    | .nan => .nan
  XR.mul x r

def xops : Ops XR := ⟨XR.add, XR.mul, 0, 1, safediv⟩

structure LeafD where
  id : Nat
  axes : List (Nat × Nat)
  data : Array XR

def ravel (axes : List (Nat × Nat)) (env : Env) : Nat :=
  axes.foldl (fun acc p => acc * p.2 + env p.1) 0

def mkLeaves (ls : List LeafD) : Leaves XR where
  names := fun id => match ls.find? (·.id == id) with
    | some l => l.axes.map (·.1)
    | none => []
  T := fun id env => match ls.find? (·.id == id) with
    | some l => (match l.data[ravel l.axes env]? with
        | some x => x
        | none => XR.nan)          -- out of range: not a value
    | none => XR.nan

def parsePair (s : Sexp) : Option (Nat × Nat) :=
  match s with
  | .list [a, b] => do some (← a.asNat?, ← b.asNat?)
  | _ => none

def parseLeaf (s : Sexp) : Option LeafD :=
  match s with
  | .list [id, axes, data] => do
      let id ← id.asNat?
      let axes ← (← axes.asList?).mapM parsePair
      let data ← (← data.asList?).mapM XR.ofSexp?
      some ⟨id, axes, data.toArray⟩
  | _ => none

def parseIx (s : Sexp) : Option Ix :=
  match s with
  | .list [.atom "var", v] => do some (.var (← v.asNat?))
  | .list [.atom "aff", v, a, b] => do some (.aff (← v.asNat?) (← a.asNat?) (← b.asNat?))
  | .list [.atom "const", c] => do some (.const (← c.asNat?))
  | .list [.atom "tab", v, t] => do some (.tab (← v.asNat?) (← t.asNats?))
  | _ => none

def parseSub (s : Sexp) : Option (Nat × Ix) :=
  match s with
  | .list [k, ix] => do some (← k.asNat?, ← parseIx ix)
  | _ => none

/-- fuel-bounded recursive descent (the S-expression is finite; fuel = its size bound) -/
def parseExpr : Nat → Sexp → Option Expr
  | 0, _ => none
  | fuel + 1, s =>
    match s with
    | .list [.atom "acc", id, σ] => do some (.acc (← id.asNat?) (← (← σ.asList?).mapM parseSub))
    | .list [.atom "add", a, b] => do some (.add (← parseExpr fuel a) (← parseExpr fuel b))
    | .list [.atom "mul", a, b] => do some (.mul (← parseExpr fuel a) (← parseExpr fuel b))
    | .list [.atom "sum", v, e] => do some (.sum (← v.asNat?) (← parseExpr fuel e))
    | .list [.atom "prod", v, e] => do some (.prod (← v.asNat?) (← parseExpr fuel e))
    | .list [.atom "scat", i, k, t, e] => do
        some (.scat (← i.asNat?) (← k.asNat?) (← t.asNats?) (← parseExpr fuel e))
    | .list [.atom "cat", v, ps] => do
        some (.cat (← v.asNat?) (← (← ps.asList?).mapM parsePair))
    | _ => none

/-- static well-formedness: everything funsor would reject at construction time -/
def wfExpr (sz : Nat → Nat) (ls : List LeafD) : Expr → Bool
  | .acc id σ =>
    match ls.find? (·.id == id) with
    | none => false
    | some l =>
      l.data.size == l.axes.foldl (fun acc p => acc * p.2) 1 &&
      σ.all (fun p => match l.axes.lookup p.1 with
        | some n => p.2.wf sz n
        | none => false) &&
      l.axes.all (fun p => σ.any (fun q => q.1 == p.1) || sz p.1 == p.2)
  | .add a b => wfExpr sz ls a && wfExpr sz ls b
  | .mul a b => wfExpr sz ls a && wfExpr sz ls b
  | .sum _ e => wfExpr sz ls e
  | .prod _ e => wfExpr sz ls e
  | .scat i k t e => wfExpr sz ls e && sz k ≤ t.length && (t.take (sz k)).all (· < sz i)
  | .cat v parts =>
    parts.all (fun p => match ls.find? (·.id == p.1) with
      | none => false
      | some l => l.axes.lookup v == some p.2 &&
          l.data.size == l.axes.foldl (fun acc q => acc * q.2) 1 &&
          l.axes.all (fun q => q.1 == v || sz q.1 == q.2)) &&
    (parts.foldl (fun acc p => acc + p.2) 0) == sz v

/-- all assignments of the listed (variable, size) pairs, row-major, on top of `base` -/
def points : List (Nat × Nat) → Env → List Env
  | [], base => [base]
  | (v, n) :: rest, base => (List.range n).flatMap (fun k => points rest (upd base v k))

def maskVars (n : Nat) (m : Mask) : List Nat := (List.range n).filter m

def xs (l : List XR) : Sexp := Sexp.list (l.map XR.toSexp)

def run (szl : List Nat) (ls : List LeafD) (e : Expr) : String :=
  let n := szl.length
  let sz : Nat → Nat := fun v => match szl[v]? with
    | some s => s
    | none => 1
  if !wfExpr sz ls e then "err ill-formed" else
  let L := mkLeaves ls
  let o := xops
  let F := fvMask L e
  let Fv := maskVars n F
  let env0 : Env := fun _ => 0
  let fwd := (points (Fv.map (fun v => (v, sz v))) env0).map (eval o sz L e)
  let G := adjoint o sz L n e
  let dag := Dag.ofExpr e
  if !Dag.dagOK dag then "err dag-refs" else
  let leaves := ls.map fun l =>
    let g := G l.id
    let gv := maskVars n g.mask
    let lsz : Nat → Nat := fun v => match l.axes.lookup v with
      | some s => s
      | none => sz v
    let gtab := (points (gv.map (fun v => (v, lsz v))) env0).map g.f
    let pts := points l.axes env0
    let fs := pts.map (marginal o sz L n F l.id g)
    let dv := pts.map (fun p => sumM o sz n F (deriv o sz L l.id p e) env0)
    -- the same adjoint by the tape sweep over the hash-consed DAG (Model/C11/Tape.lean)
    let tg := Tape.tapeAdjoint o sz L n e l.id
    let ts := pts.map (marginal o sz L n F l.id tg)
    -- … and by the sweep over the DAG with argument indices (Model/C11/Dag.lean, dag_adjoint_sound)
    let dg := if dag.isEmpty then G l.id else Dag.dagAdjoint o sz L n F dag l.id
    let ds := pts.map (marginal o sz L n F l.id dg)
    Sexp.list [Sexp.atom "leaf", Sexp.ofNat l.id, Sexp.ofNats gv, xs gtab, xs fs, xs dv, xs ts, xs ds]
  -- the trace of the DAG sweep: order of pops, and the value accumulated at each node when popped,
  -- tabulated over (inputs of the node ∪ inputs of the root)
  let tbl := Dag.table dag
  let trace := (Dag.dagTrace o sz L n F dag).zipIdx.map fun (q, i) =>
    let E := match tbl[i]? with
      | some x => x
      | none => Dag.dflt
    let vars := maskVars n (fun k => fvMask L E k || F k)
    let tab := (points (vars.map (fun v => (v, sz v))) env0).map q.2.f
    Sexp.list [Sexp.ofNat (q.1 / 2), Sexp.ofNats vars, xs tab]
  "ok " ++ toString (Sexp.list [Sexp.ofNats Fv, xs fwd, Sexp.list leaves, Sexp.list trace])

/--
  C11 adjoint (sz…) ((id ((axis size)…) (data…))…) expr
     → ok ((F…) (forward table over F) ((leaf id (adjoint inputs…) (adjoint table) (marginal onto the
           leaf's axes) (spec: derivative table) (marginal of the tape sweep over the hash-consed DAG))…))
-/
def handle (args : List Sexp) : String :=
  match args with
  | [Sexp.atom "adjoint", szs, leaves, ex] =>
    match szs.asNats?, (leaves.asList?).bind (·.mapM parseLeaf), parseExpr 64 ex with
    | some szl, some ls, some e => run szl ls e
    | _, _, _ => "err bad-args"
  | _ => "err bad-request"

end FV.Drv.C11
