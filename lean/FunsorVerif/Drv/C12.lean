/- Drv/C12.lean — driver handler for property C12 (line protocol; core-only imports). -/
import FunsorVerif.Core.Sexp
import FunsorVerif.Core.XR
import FunsorVerif.Model.C12
namespace FV.Drv.C12
open FV FV.C12

/-! wire format
  G      ::= (g ((NAME size)*) rank (w*) ((row*)*))        -- dim rows of rank entries
  point  ::= ((NAME (val*))*)
  answers: ok G | ok (num q) | ok (dense (rows) (info) const) | ok declined | err …
-/

def ratList? (s : Sexp) : Option (List Rat) := do
  let xs ← s.asList?
  xs.mapM ratOfSexp?

def ratRows? (s : Sexp) : Option (List (List Rat)) := do
  let xs ← s.asList?
  xs.mapM ratList?

def inputs? (s : Sexp) : Option Inputs := do
  let xs ← s.asList?
  xs.mapM fun p =>
    match p with
    | Sexp.list [k, n] => do
        let k ← k.asStr?
        let n ← n.asNat?
        pure (k, n)
    | _ => none

def ng? (s : Sexp) : Option NG :=
  match s with
  | Sexp.list [Sexp.atom "g", inp, rank, w, rows] => do
      let inp ← inputs? inp
      let rank ← rank.asNat?
      let w ← ratList? w
      let rows ← ratRows? rows
      if w.length != rank then none
      else if rows.length != total inp then none
      else if !(rows.all fun r => r.length == rank) then none
      else pure { inputs := inp, rank := rank, w := ofList w, P := ofRows rows }
  | _ => none

def ratsToSexp (l : List Rat) : Sexp := Sexp.list (l.map ratToSexp)
def rowsToSexp (l : List (List Rat)) : Sexp := Sexp.list (l.map ratsToSexp)
def inputsToSexp (inp : Inputs) : Sexp :=
  Sexp.list (inp.map fun p => Sexp.list [Sexp.str p.1, Sexp.ofNat p.2])

def ngToSexp (g : NG) : Sexp :=
  Sexp.list [Sexp.atom "g", inputsToSexp g.inputs, Sexp.ofNat g.rank,
             ratsToSexp (tabV g.rank g.w), rowsToSexp (tabM g.dim g.rank g.P)]

def denseToSexp (d : Dense) : Sexp :=
  Sexp.list [Sexp.atom "dense", rowsToSexp (tabM d.dim d.dim d.prec), ratsToSexp (tabV d.dim d.info),
             ratToSexp d.const]

/-- force the index functions into tables (keeps chained closures cheap) -/
def NG.norm (g : NG) : NG :=
  { g with w := ofList (tabV g.rank g.w), P := ofRows (tabM g.dim g.rank g.P) }

def okG (g : NG) : String := "ok " ++ toString (ngToSexp g)

def point? (s : Sexp) : Option (List (String × List Rat)) := do
  let xs ← s.asList?
  xs.mapM fun p =>
    match p with
    | Sexp.list [k, v] => do
        let k ← k.asStr?
        let v ← ratList? v
        pure (k, v)
    | _ => none

def pointFn (pt : List (String × List Rat)) : Point := fun k => ofList ((pt.lookup k).getD [])

def affSubs? (s : Sexp) : Option (List AffSub) := do
  let xs ← s.asList?
  xs.mapM fun p =>
    match p with
    | Sexp.list [k, c, cs] => do
        let k ← k.asStr?
        let c ← ratList? c
        let cs ← cs.asList?
        let cs ← cs.mapM fun q =>
          match q with
          | Sexp.list [nk, nsz, rows] => do
              let nk ← nk.asStr?
              let nsz ← nsz.asNat?
              let rows ← ratRows? rows
              pure (nk, nsz, rows)
          | _ => none
        pure { name := k, const := c, coeffs := cs }
    | _ => none

def ngs? (s : Sexp) : Option (List NG) := do
  let xs ← s.asList?
  xs.mapM ng?

def matEq (n r : Nat) (A B : M) : Bool := tabM n r A == tabM n r B

def handle (args : List Sexp) : String :=
  match args with
  | [Sexp.atom "offsets", inp] =>
      match inputs? inp with
      | some inp =>
          let (offs, tot) := computeOffsets inp
          "ok " ++ toString (Sexp.list [inputsToSexp offs, Sexp.ofNat tot])
      | none => "err bad-args"
  | [Sexp.atom "dense", g] =>
      match ng? g with
      | some g => "ok " ++ toString (denseToSexp g.raw.dense)
      | none => "err bad-args"
  | [Sexp.atom "eval", g, pt] =>
      match ng? g, point? pt with
      | some g, some pt =>
          let x := flat g.inputs (pointFn pt)
          let a := g.raw.eval x
          let b := g.raw.dense.eval x
          "ok " ++ toString (Sexp.list [ratToSexp a, ratToSexp b])
      | _, _ => "err bad-args"
  | [Sexp.atom "add", a, b] =>
      match ng? a, ng? b with
      | some a, some b => okG (NG.add a b)
      | _, _ => "err bad-args"
  | [Sexp.atom "align", g, names] =>
      match ng? g, names.asStrs? with
      | some g, some names =>
          match g.align names with
          | some r => okG r
          | none => "ok declined"
      | _, _ => "err bad-args"
  | [Sexp.atom "rename", g, ren] =>
      match ng? g, ren.asList? with
      | some g, some ren =>
          match ren.mapM (fun p => match p with
                | Sexp.list [a, b] => do pure ((← a.asStr?), (← b.asStr?))
                | _ => none) with
          | some ren =>
              match g.rename ren with
              | some r => okG r
              | none => "ok declined"
          | none => "err bad-args"
      | _, _ => "err bad-args"
  | [Sexp.atom "subsreal", g, pt] =>
      match ng? g, point? pt with
      | some g, some pt =>
          match g.subsReal pt with
          | some (Sum.inl q) => "ok " ++ toString (Sexp.list [Sexp.atom "num", ratToSexp q])
          | some (Sum.inr r) => okG r
          | none => "ok declined"
      | _, _ => "err bad-args"
  | [Sexp.atom "subsaffine", g, subs] =>
      match ng? g, affSubs? subs with
      | some g, some subs => okG (g.subsAffine subs)
      | _, _ => "err bad-args"
  | [Sexp.atom "fuse", gs] =>
      match ngs? gs with
      | some (g :: gs) =>
          if gs.all (fun h => h.inputs == g.inputs) then
            let s := SG.fuse g.dim ((g :: gs).map NG.raw)
            okG { inputs := g.inputs, rank := s.rank, w := s.w, P := s.P }
          else "err inputs-differ"
      | _ => "err bad-args"
  | [Sexp.atom "pad", g, r] =>
      match ng? g, r.asNat? with
      | some g, some r =>
          if r < g.rank then "ok declined" else
          let s := g.raw.padRank r
          okG { inputs := g.inputs, rank := s.rank, w := s.w, P := s.P }
      | _, _ => "err bad-args"
  | [Sexp.atom "needscompress", d, r] =>
      match d.asNat?, r.asNat? with
      | some d, some r => "ok " ++ (if needsCompress d r then "true" else "false")
      | _, _ => "err bad-args"
  | [Sexp.atom "compress", g, q, r] =>
      -- checks the hypotheses of `compress_rank` (Qᵀ Q = 1, Pᵀ = Q R) exactly before answering
      match ng? g, ratRows? q, ratRows? r with
      | some g, some q, some r =>
          let Q := ofRows q
          let R := ofRows r
          let d := g.dim
          let orth := matEq d d (matMul g.rank (tr Q) Q) idM
          let fact := matEq g.rank d (tr g.P) (matMul d Q R)
          if !(orth && fact) then "ok declined" else
          let (s, shift) := g.raw.compressWith Q R
          "ok " ++ toString (Sexp.list [ngToSexp { inputs := g.inputs, rank := s.rank, w := s.w, P := s.P },
                                         ratToSexp shift])
      | _, _, _ => "err bad-args"
  | _ => "err bad-request"

end FV.Drv.C12
