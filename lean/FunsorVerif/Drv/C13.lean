/- Drv/C13.lean — driver handler for property C13 (line protocol; core-only imports). -/
import FunsorVerif.Core.Sexp
import FunsorVerif.Core.XR
import FunsorVerif.Model.C12
import FunsorVerif.Model.C13
import FunsorVerif.Drv.C12
namespace FV.Drv.C13
open FV FV.C12 FV.C13 FV.Drv.C12

/-! requests (G as in Drv/C12.lean):
  C13 marginal G (NAME*)      integrate out the named real inputs (a proper subset)
       -> ok (marg G' dimB detB) (dense Λ' η' c')     G' = model of the code's square-root result,
                                                       dense = Schur closed form of dense(G) (constants
                                                       exclude dimB/2·log 2π − ½ log detB)
          | ok (err too-little-information) | ok (err not-positive-definite)
  C13 lognorm G               -> ok (rat det dim)      value = dim/2·log 2π − ½ log det + rat
  C13 meancov G               -> ok ((mean*) (cov rows))
  C13 integrate G H           -> ok q                  Integrate(G, H, reals)/exp(lognorm G), H aligned to G
  C13 inverse n (rows)        -> ok ((rows) det) | ok singular
-/

def errStr : MargErr → String
  | .tooLittleInformation => "ok (err too-little-information)"
  | .notPositiveDefinite => "ok (err not-positive-definite)"

def handle (args : List Sexp) : String :=
  match args with
  | [Sexp.atom "marginal", g, names] =>
      match ng? g, names.asStrs? with
      | some g, some names =>
          let isB := fun k => names.contains k
          if g.inputs.all (fun p => isB p.1) || !(g.inputs.any fun p => isB p.1) then "err not-a-proper-subset" else
          let ia := blockIdx 0 g.inputs (fun k => !isB k)
          let ib := blockIdx 0 g.inputs isB
          match marginal? g.raw ia ib with
          | .error e => errStr e
          | .ok m =>
              let inpA := g.inputs.filter fun p => !isB p.1
              let d := g.raw.dense
              let lbb : M := fun i j => match ib[i]?, ib[j]? with
                | some s, some t => d.prec s t
                | _, _ => 0
              match inverse? ib.length lbb with
              | none => "err spec-singular"
              | some (binv, _) =>
                  if !(isInverse ib.length lbb binv) then "err spec-inverse" else
                  let s := schur d ia ib binv
                  "ok " ++ toString (Sexp.list [Sexp.atom "marg",
                      ngToSexp { inputs := inpA, rank := m.g.rank, w := m.g.w, P := m.g.P },
                      Sexp.ofNat m.dimB, ratToSexp m.detB]) ++ " " ++ toString (denseToSexp s)
      | _, _ => "err bad-args"
  | [Sexp.atom "lognorm", g] =>
      match ng? g with
      | some g =>
          match logNormalizer? g.raw with
          | .error e => errStr e
          | .ok (r, det) => "ok " ++ toString (Sexp.list [ratToSexp r, ratToSexp det, Sexp.ofNat g.dim])
      | none => "err bad-args"
  | [Sexp.atom "meancov", g] =>
      match ng? g with
      | some g =>
          match meanCov? g.raw with
          | .error e => errStr e
          | .ok (mu, cov) => "ok " ++ toString (Sexp.list [ratsToSexp (tabV g.dim mu), rowsToSexp (tabM g.dim g.dim cov)])
      | none => "err bad-args"
  | [Sexp.atom "integrate", g, h] =>
      match ng? g, ng? h with
      | some g, some h =>
          if g.inputs != h.inputs then "err layouts-differ" else
          match integrateGauss? g.raw h.raw with
          | .error e => errStr e
          | .ok q => "ok " ++ toString (ratToSexp q)
      | _, _ => "err bad-args"
  | [Sexp.atom "inverse", n, rows] =>
      match n.asNat?, ratRows? rows with
      | some n, some rows =>
          match inverse? n (ofRows rows) with
          | none => "ok singular"
          | some (inv, det) =>
              if isInverse n (ofRows rows) inv then
                "ok " ++ toString (Sexp.list [rowsToSexp (tabM n n inv), ratToSexp det])
              else "err inverse-check-failed"
      | _, _ => "err bad-args"
  | Sexp.atom "C12" :: rest => FV.Drv.C12.handle rest      -- plate sums reuse the C12 model (fuse, eval)
  | _ => "err bad-request"

end FV.Drv.C13
