/- Drv/C14.lean — driver handler for property C14 (line protocol; core-only imports). -/
import FunsorVerif.Core.Sexp
import FunsorVerif.Core.XR
import FunsorVerif.Model.C14
import FunsorVerif.Model.C14Subs
import FunsorVerif.Gen.C14Variant
namespace FV.Drv.C14
open FV FV.C14

def asRats? (s : Sexp) : Option (List Rat) := do
  let xs ← s.asList?
  xs.mapM ratOfSexp?

def ratsToSexp (l : List Rat) : Sexp := Sexp.list (l.map ratToSexp)

def asInputs? (s : Sexp) : Option Inputs := do
  let xs ← s.asList?
  xs.mapM fun x =>
    match x with
    | Sexp.list [n, k] => do
        let n ← n.asStr?
        let k ← k.asNat?
        pure (n, k)
    | _ => none

def strs (l : List String) : Sexp := Sexp.list (l.map Sexp.atom)

/-! Wire glue for Model/C14Subs: points / weights / values arrive as row-major tables over their declared
    dependencies (sizes from `vars`); the harness only evaluates at in-range environments over names it
    declared, so the `getD` defaults below are never used. -/
open FV.C14.Subs in
def envOf (a : List (String × Nat)) : Env := fun k => (a.lookup k).getD 0

open FV.C14.Subs in
def tabFn {α : Type} (dflt : α) (vars : Inputs) (deps : List String) (data : List α) : Env → α := fun env =>
  let sizes := deps.map fun d => (vars.lookup d).getD 1
  (data[encode sizes (deps.map env)]?).getD dflt

open FV.C14.Subs in
def asTerm? (vars : Inputs) : Sexp → Option DTerm
  | Sexp.list [n, deps, pt, w] => do
    let n ← n.asStr?
    let deps ← deps.asStrs?
    let pt ← pt.asNats?
    let w ← asRats? w
    pure ⟨n, deps, tabFn 0 vars deps pt, tabFn 0 vars deps w⟩
  | _ => none

open FV.C14.Subs in
def asSub? (vars : Inputs) : Sexp → Option (String × SVal)
  | Sexp.list [n, Sexp.atom "var", y] => do
    let n ← n.asStr?
    let y ← y.asStr?
    pure (n, SVal.var y)
  | Sexp.list [n, Sexp.atom "val", deps, data] => do
    let n ← n.asStr?
    let deps ← deps.asStrs?
    let data ← data.asNats?
    pure (n, SVal.val deps (tabFn 0 vars deps data))
  | _ => none

open FV.C14.Subs in
def denTable (vars : Inputs) (out : List String) (f : Env → Rat) : Sexp :=
  let sizes := out.map fun d => (vars.lookup d).getD 1
  ratsToSexp ((allIdx sizes).map fun e => f (envOf (out.zip e)))

open FV.C14.Subs in
def dnfInputs (d : DNF) : List String := inputsOf d.terms

/--
  C14 delta-eval (p…) ld (v…)          Delta.eager_subs ground branch                → xr
  C14 delta-sum n p w (f…)             Σ_{x<n} δ_p^w(x)·f x  (spec)  and  w·f p (model) → spec model
  C14 delta-reduce n p (f…)            Σ_{x<n} δ_p^1(x)·f x  (spec)  and  f p (model)  → spec model
  C14 encode (sizes…) (idx…)           row-major flat index
  C14 decode (sizes…) m                the % / // loop
  C14 pick (w…) r                      flat_sample for one row of linear weights (source's current variant)
  C14 variant                          the generated variant
  C14 delta-subset (sizes…) (mask…) (pt…) (w…) (f flat…) (x…)
        → specIntegrate modelIntegrate specReduce(unit mass on the reduced names) modelReduce
  C14 delta-subs vars (term…) (sub…) (out…)     term = (name (deps…) (pt…) (w…)), sub = (name var y) | (name val (deps…) (v…))
        → kind (term names…) (declared inputs of the terms…) nScales (model density over out…) (spec: original at substEnv…)
  C14 delta-add vars (term…) (term…) (out…)
        → branch (term names…) nScales (model density…) (spec: product of the two densities…)
  C14 sample ((name size)…) (data…) (sampled…) nParticles (r…)
        → (batch names) (event names) (particle…), particle = (row…),
          row = ((b…) (pt…) z massOfSample massOfOriginal)
-/
def handle (args : List Sexp) : String :=
  match args with
  | [Sexp.atom "delta-eval", p, ld, v] =>
    match asRats? p, XR.ofSexp? ld, asRats? v with
    | some p, some ld, some v => "ok " ++ toString (XR.toSexp (deltaEval p ld v))
    | _, _, _ => "err bad-args"
  | [Sexp.atom "delta-sum", n, p, w, f] =>
    match n.asNat?, p.asNat?, ratOfSexp? w, asRats? f with
    | some n, some p, some w, some f =>
      if f.length ≠ n ∨ p ≥ n then "err bad-args"
      else
        match f[p]? with
        | none => "err bad-args"
        | some fp =>
          let g : Nat → Rat := fun x => (f[x]?).getD 0   -- x < n = f.length on every use
          "ok " ++ toString (ratToSexp (sumRange n fun x => deltaLin p w x * g x)) ++ " "
            ++ toString (ratToSexp (deltaIntegrate w (fun _ => fp) p))
    | _, _, _, _ => "err bad-args"
  | [Sexp.atom "delta-reduce", n, p, f] =>
    match n.asNat?, p.asNat?, asRats? f with
    | some n, some p, some f =>
      if f.length ≠ n ∨ p ≥ n then "err bad-args"
      else
        match f[p]? with
        | none => "err bad-args"
        | some fp =>
          let g : Nat → Rat := fun x => (f[x]?).getD 0
          "ok " ++ toString (ratToSexp (sumRange n fun x => deltaLin p 1 x * g x)) ++ " "
            ++ toString (ratToSexp (deltaAddReduce (fun _ => fp) p))
    | _, _, _ => "err bad-args"
  | [Sexp.atom "encode", sizes, idx] =>
    match sizes.asNats?, idx.asNats? with
    | some s, some i => if s.length ≠ i.length then "err bad-args" else "ok " ++ toString (encode s i)
    | _, _ => "err bad-args"
  | [Sexp.atom "decode", sizes, m] =>
    match sizes.asNats?, m.asNat? with
    | some s, some m => "ok " ++ toString (Sexp.ofNats (decode s m))
    | _, _ => "err bad-args"
  | [Sexp.atom "pick", w, r] =>
    match asRats? w, ratOfSexp? r with
    | some w, some r => "ok " ++ toString (pickCellV FV.Gen.C14.variant w r)
    | _, _ => "err bad-args"
  | [Sexp.atom "delta-subset", sizes, mask, pt, ws, fdata, x] =>
    match sizes.asNats?, mask.asList?.bind (fun l => l.mapM Sexp.asBool?), pt.asNats?, asRats? ws,
          asRats? fdata, x.asNats? with
    | some sizes, some mask, some pt, some ws, some fdata, some x =>
      let k := sizes.length
      if mask.length ≠ k ∨ pt.length ≠ k ∨ ws.length ≠ k ∨ x.length ≠ k ∨ fdata.length ≠ prod sizes
          ∨ !(List.zip pt sizes).all (fun (p, s) => p < s) ∨ !(List.zip x sizes).all (fun (p, s) => p < s)
      then "err bad-args"
      else
        let f : List Nat → Rat := fun t => (fdata[encode sizes t]?).getD 0   -- in range on every use
        let unitWs := (List.zip mask ws).map fun (m, w) => if m then 1 else w
        "ok " ++ toString (ratToSexp (sumMask sizes mask (fun t => deltaProd pt ws t * f t) x)) ++ " "
          ++ toString (ratToSexp (deltaIntegrateSubset mask pt ws f x)) ++ " "
          ++ toString (ratToSexp (sumMask sizes mask (fun t => deltaProd pt unitWs t * f t) x)) ++ " "
          ++ toString (ratToSexp (deltaReduceSubset mask pt ws f x))
    | _, _, _, _, _, _ => "err bad-args"
  | [Sexp.atom "delta-subs", vars, terms, subs, out] =>
    match asInputs? vars, out.asStrs? with
    | some vars, some out =>
      match terms.asList?.bind (fun l => l.mapM (asTerm? vars)), subs.asList?.bind (fun l => l.mapM (asSub? vars)) with
      | some ts, some sb =>
        let d := FV.C14.Subs.deltaSubs sb ts
        let kind := match FV.C14.Subs.shape d with
          | none => "none" | some (.delta _) => "delta" | some (.scale _) => "scale" | some (.both _ _) => "both"
        "ok " ++ kind ++ " " ++ toString (strs (FV.C14.Subs.freshOf d.terms)) ++ " " ++ toString (strs (dnfInputs d)) ++ " "
          ++ toString d.scales.length ++ " " ++ toString (denTable vars out d.den) ++ " "
          ++ toString (denTable vars out fun env => FV.C14.Subs.termsDen ts (FV.C14.Subs.substEnv sb env))
      | _, _ => "err bad-args"
    | _, _ => "err bad-args"
  | [Sexp.atom "delta-add", vars, lhs, rhs, out] =>
    match asInputs? vars, out.asStrs? with
    | some vars, some out =>
      match lhs.asList?.bind (fun l => l.mapM (asTerm? vars)), rhs.asList?.bind (fun l => l.mapM (asTerm? vars)) with
      | some l, some r =>
        let d := FV.C14.Subs.addMultidelta l r
        let branch :=
          if (FV.C14.Subs.freshOf l).any (FV.C14.Subs.inputsOf r).contains then "left-binds"
          else if (FV.C14.Subs.freshOf r).any (FV.C14.Subs.inputsOf l).contains then "right-binds" else "concat"
        "ok " ++ branch ++ " " ++ toString (strs (FV.C14.Subs.freshOf d.terms)) ++ " " ++ toString d.scales.length ++ " "
          ++ toString (denTable vars out d.den) ++ " "
          ++ toString (denTable vars out fun env => FV.C14.Subs.termsDen l env * FV.C14.Subs.termsDen r env)
      | _, _ => "err bad-args"
    | _, _ => "err bad-args"
  | [Sexp.atom "variant"] =>
    let v := FV.Gen.C14.variant
    "ok " ++ (match v.cmp with | Cmp.lt => "lt" | Cmp.le => "le") ++ " " ++ toString v.dropLast ++ " "
      ++ toString v.clamp ++ " " ++ toString v.recognised
  | [Sexp.atom "sample", inputs, data, sampled, np, rs] =>
    match asInputs? inputs, asRats? data, sampled.asStrs?, np.asNat?, asRats? rs with
    | some inputs, some data, some sampled, some np, some rs =>
      match sampleTensor FV.Gen.C14.variant inputs data sampled np rs with
      | none => "err malformed"
      | some (bn, en, out) =>
        let esizes := (inputs.filter fun (n, _) => sampled.contains n).map (·.2)
        let bnames := (inputs.filter fun (n, _) => !sampled.contains n).map (·.1)
        let enames := (inputs.filter fun (n, _) => sampled.contains n).map (·.1)
        let rowS (r : RowOut) : Sexp :=
          let massS := sumOver esizes (sampleVal r.point r.z)
          let massO := sumOver esizes fun e =>
            ((cellAt inputs data (bnames.zip r.batch ++ enames.zip e))).getD 0  -- in range by construction
          Sexp.list [Sexp.ofNats r.batch, Sexp.ofNats r.point, ratToSexp r.z, ratToSexp massS,
                     ratToSexp massO]
        "ok " ++ toString (strs bn) ++ " " ++ toString (strs en) ++ " "
          ++ toString (Sexp.list (out.map fun rows => Sexp.list (rows.map rowS)))
    | _, _, _, _, _ => "err bad-args"
  | _ => "err bad-request"

end FV.Drv.C14
