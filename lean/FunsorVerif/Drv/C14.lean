/- Drv/C14.lean — driver handler for property C14 (line protocol; core-only imports). -/
import FunsorVerif.Core.Sexp
import FunsorVerif.Core.XR
import FunsorVerif.Model.C14
import FunsorVerif.Gen.C14Variant
namespace FV.Drv.C14
open FV FV.C14

def asRats? (s : Sexp) : Option (List Rat) := do
  let xs ← s.asList?
  xs.mapM ratOfSexp?

def ratsToSexp (l : List Rat) : Sexp := Sexp.list (l.map ratToSexp)

def asInputs? (s : Sexp) : Option Inputs := do
  let xs ← s.asList?
  xs.mapM fun x =>
    match x with
    | Sexp.list [n, k] => do
        let n ← n.asStr?
        let k ← k.asNat?
        pure (n, k)
    | _ => none

def strs (l : List String) : Sexp := Sexp.list (l.map Sexp.atom)

/--
  C14 delta-eval (p…) ld (v…)          Delta.eager_subs ground branch                → xr
  C14 delta-sum n p w (f…)             Σ_{x<n} δ_p^w(x)·f x  (spec)  and  w·f p (model) → spec model
  C14 delta-reduce n p (f…)            Σ_{x<n} δ_p^1(x)·f x  (spec)  and  f p (model)  → spec model
  C14 encode (sizes…) (idx…)           row-major flat index
  C14 decode (sizes…) m                the % / // loop
  C14 pick (w…) r                      flat_sample for one row of linear weights (source's current variant)
  C14 variant                          the generated variant
  C14 delta-subset (sizes…) (mask…) (pt…) (w…) (f flat…) (x…)
        → specIntegrate modelIntegrate specReduce(unit mass on the reduced names) modelReduce
  C14 sample ((name size)…) (data…) (sampled…) nParticles (r…)
        → (batch names) (event names) (particle…), particle = (row…),
          row = ((b…) (pt…) z massOfSample massOfOriginal)
-/
def handle (args : List Sexp) : String :=
  match args with
  | [Sexp.atom "delta-eval", p, ld, v] =>
    match asRats? p, XR.ofSexp? ld, asRats? v with
    | some p, some ld, some v => "ok " ++ toString (XR.toSexp (deltaEval p ld v))
    | _, _, _ => "err bad-args"
  | [Sexp.atom "delta-sum", n, p, w, f] =>
    match n.asNat?, p.asNat?, ratOfSexp? w, asRats? f with
    | some n, some p, some w, some f =>
      if f.length ≠ n ∨ p ≥ n then "err bad-args"
      else
        match f[p]? with
        | none => "err bad-args"
        | some fp =>
          let g : Nat → Rat := fun x => (f[x]?).getD 0   -- x < n = f.length on every use
          "ok " ++ toString (ratToSexp (sumRange n fun x => deltaLin p w x * g x)) ++ " "
            ++ toString (ratToSexp (deltaIntegrate w (fun _ => fp) p))
    | _, _, _, _ => "err bad-args"
  | [Sexp.atom "delta-reduce", n, p, f] =>
    match n.asNat?, p.asNat?, asRats? f with
    | some n, some p, some f =>
      if f.length ≠ n ∨ p ≥ n then "err bad-args"
      else
        match f[p]? with
        | none => "err bad-args"
        | some fp =>
          let g : Nat → Rat := fun x => (f[x]?).getD 0
          "ok " ++ toString (ratToSexp (sumRange n fun x => deltaLin p 1 x * g x)) ++ " "
            ++ toString (ratToSexp (deltaAddReduce (fun _ => fp) p))
    | _, _, _ => "err bad-args"
  | [Sexp.atom "encode", sizes, idx] =>
    match sizes.asNats?, idx.asNats? with
    | some s, some i => if s.length ≠ i.length then "err bad-args" else "ok " ++ toString (encode s i)
    | _, _ => "err bad-args"
  | [Sexp.atom "decode", sizes, m] =>
    match sizes.asNats?, m.asNat? with
    | some s, some m => "ok " ++ toString (Sexp.ofNats (decode s m))
    | _, _ => "err bad-args"
  | [Sexp.atom "pick", w, r] =>
    match asRats? w, ratOfSexp? r with
    | some w, some r => "ok " ++ toString (pickCellV FV.Gen.C14.variant w r)
    | _, _ => "err bad-args"
  | [Sexp.atom "delta-subset", sizes, mask, pt, ws, fdata, x] =>
    match sizes.asNats?, mask.asList?.bind (fun l => l.mapM Sexp.asBool?), pt.asNats?, asRats? ws,
          asRats? fdata, x.asNats? with
    | some sizes, some mask, some pt, some ws, some fdata, some x =>
      let k := sizes.length
      if mask.length ≠ k ∨ pt.length ≠ k ∨ ws.length ≠ k ∨ x.length ≠ k ∨ fdata.length ≠ prod sizes
          ∨ !(List.zip pt sizes).all (fun (p, s) => p < s) ∨ !(List.zip x sizes).all (fun (p, s) => p < s)
      then "err bad-args"
      else
        let f : List Nat → Rat := fun t => (fdata[encode sizes t]?).getD 0   -- in range on every use
        let unitWs := (List.zip mask ws).map fun (m, w) => if m then 1 else w
        "ok " ++ toString (ratToSexp (sumMask sizes mask (fun t => deltaProd pt ws t * f t) x)) ++ " "
          ++ toString (ratToSexp (deltaIntegrateSubset mask pt ws f x)) ++ " "
          ++ toString (ratToSexp (sumMask sizes mask (fun t => deltaProd pt unitWs t * f t) x)) ++ " "
          ++ toString (ratToSexp (deltaReduceSubset mask pt ws f x))
    | _, _, _, _, _, _ => "err bad-args"
  | [Sexp.atom "variant"] =>
    let v := FV.Gen.C14.variant
    "ok " ++ (match v.cmp with | Cmp.lt => "lt" | Cmp.le => "le") ++ " " ++ toString v.dropLast ++ " "
      ++ toString v.clamp ++ " " ++ toString v.recognised
  | [Sexp.atom "sample", inputs, data, sampled, np, rs] =>
    match asInputs? inputs, asRats? data, sampled.asStrs?, np.asNat?, asRats? rs with
    | some inputs, some data, some sampled, some np, some rs =>
      match sampleTensor FV.Gen.C14.variant inputs data sampled np rs with
      | none => "err malformed"
      | some (bn, en, out) =>
        let esizes := (inputs.filter fun (n, _) => sampled.contains n).map (·.2)
        let bnames := (inputs.filter fun (n, _) => !sampled.contains n).map (·.1)
        let enames := (inputs.filter fun (n, _) => sampled.contains n).map (·.1)
        let rowS (r : RowOut) : Sexp :=
          let massS := sumOver esizes (sampleVal r.point r.z)
          let massO := sumOver esizes fun e =>
            ((cellAt inputs data (bnames.zip r.batch ++ enames.zip e))).getD 0  -- in range by construction
          Sexp.list [Sexp.ofNats r.batch, Sexp.ofNats r.point, ratToSexp r.z, ratToSexp massS,
                     ratToSexp massO]
        "ok " ++ toString (strs bn) ++ " " ++ toString (strs en) ++ " "
          ++ toString (Sexp.list (out.map fun rows => Sexp.list (rows.map rowS)))
    | _, _, _, _, _ => "err bad-args"
  | _ => "err bad-request"

end FV.Drv.C14
