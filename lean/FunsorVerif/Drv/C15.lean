/- Drv/C15.lean — driver handler for property C15 (line protocol; core-only imports). -/
import FunsorVerif.Core.Sexp
import FunsorVerif.Core.XR
import FunsorVerif.Model.C15
import FunsorVerif.Model.C15.Mag
import FunsorVerif.Model.C15Transform
import FunsorVerif.Gen.C15OpTables
namespace FV.Drv.C15
open FV FV.C15

def showCS (s : CSet) : String := "(" ++ " ".intercalate (s.map Cls.name) ++ ")"

def showTag : Tag → String
  | .none => "none" | .x => "x" | .y => "y"

def showAV (a : AV) : String := "ok " ++ showCS (norm a.cs) ++ " " ++ showTag a.tag

def showOAV : Option AV → String
  | some a => showAV a
  | none => "ok raises"

def parseCls (s : Sexp) : Option Cls := s.asAtom?.bind Cls.ofName?

def parseClsList (s : Sexp) : Option (List Cls) := do
  let xs ← s.asList?
  xs.mapM parseCls

def parseOrd : Sexp → Option Ordering
  | Sexp.atom "lt" => some .lt
  | Sexp.atom "eq" => some .eq
  | Sexp.atom "gt" => some .gt
  | _ => none

def parseOp (s : String) : Op :=
  match s with
  | "add" => .add | "sub" => .sub | "mul" => .mul | "truediv" => .truediv | "pow" => .pow
  | "max" => .max | "min" => .min | "and_" => .and_ | "or_" => .or_ | "xor" => .xor
  | "logaddexp" => .logaddexp | "sample" => .sample | "safesub" => .safesub
  | "safediv" => .safediv | "neg" => .neg | "reciprocal" => .reciprocal | n => .other n

def prim2 : String → Option (Cls → Cls → CSet)
  | "add" => some addC | "sub" => some subC | "mul" => some mulC | "div" => some divC
  | "maxnp" => some maxNpC | "minnp" => some minNpC | "maxpy" => some maxPyC
  | "minpy" => some minPyC | _ => none

def prim1 : String → Option (Cls → CSet)
  | "neg" => some (fun c => [negC c]) | "recip" => some recipC | "exp" => some expC
  | "lognp" => some logNpC | "logpy" => some logPyC
  | "cliplo" => some (fun c => [clipLoC c]) | "cliphi" => some (fun c => [clipHiC c])
  | _ => none

def showMS (s : Mag.MSet) : String := "(" ++ " ".intercalate ((Mag.norm s).map Mag.M.name) ++ ")"
def parseM (s : Sexp) : Option Mag.M := s.asAtom?.bind Mag.M.ofName?
def showMTag : Mag.Tag → String
  | .none => "none" | .x => "x" | .y => "y"

def magPrim2 : String → Option (Mag.M → Mag.M → Mag.MSet)
  | "add" => some Mag.addC | "sub" => some Mag.subC | "maxnp" => some Mag.maxNpC
  | "maxpy" => some Mag.maxPyC | _ => none
def magPrim1 : String → Option (Mag.M → Mag.MSet)
  | "exp" => some Mag.expC | "lognp" => some Mag.logNpC | "logpy" => some Mag.logPyC
  | "cliplo" => some (fun c => [Mag.clipLoC c]) | "neg" => some (fun c => [c.neg]) | _ => none

def pairsSexp (t : List (Op × Op)) : String :=
  "ok (" ++ " ".intercalate (t.map fun (a, b) => "(" ++ a.name ++ " " ++ b.name ++ ")") ++ ")"

/--
  C15 prim NAME a [b]                    class set of a primitive transfer function
  C15 special OP VARIANT cx cy ord       logaddexp | safesub | safediv | max | min | sample
  C15 special1 OP VARIANT c              reciprocal | log
  C15 mag prim NAME a [b] | mag logaddexp|safesub VARIANT cx cy ord     magnitude-refined model (Model/C15/Mag)
  C15 lse (c…)                           ops.logsumexp over an array of classes
  C15 einsumlog OVF (x…) (y…)            numpy_log einsum "a,a->"  (OVF = true|false)
  C15 einsummax (x…) (y…)                numpy_map einsum "a,a->"
  C15 eval OP a b                        exact XR value of a table op
  C15 table NAME                         the generated table, as op-name pairs
  C15 inok cx cy ord                     is the abstract input consistent?
-/
def parseT : String → Option Transform.T
  | "exp" => some .exp | "log" => some .log | "tanh" => some .tanh | "atanh" => some .atanh
  | "sigmoid" => some .sigmoid | "sigmoid_inv" => some .sigmoidInv | _ => none

def showT : Transform.T → String
  | .exp => "exp" | .log => "log" | .tanh => "tanh" | .atanh => "atanh"
  | .sigmoid => "sigmoid" | .sigmoidInv => "sigmoid_inv"

def handle (args : List Sexp) : String :=
  match args with
  | [Sexp.atom "xform", Sexp.atom kind, Sexp.atom t, bx, by_] =>
    -- operands and result travel as IEEE-754 bit patterns
    match parseT t, bx.asNat?, by_.asNat? with
    | some t, some bx, some by_ =>
      let e? := if kind == "body" then some t.body else if kind == "ladj" then Transform.ladj t else none
      match e? with
      | some e => "ok " ++ toString (Transform.evalF (Float.ofBits bx.toUInt64) (Float.ofBits by_.toUInt64) e).toBits.toNat
      | none => "ok none"
    | _, _, _ => "err bad-args"
  | [Sexp.atom "xforminv"] =>
    "ok (" ++ " ".intercalate (Transform.invTable.map fun (a, b) => "(" ++ showT a ++ " " ++ showT b ++ ")") ++ ")"
  | [Sexp.atom "prim", Sexp.atom nm, a] =>
    match prim1 nm, parseCls a with
    | some f, some c => "ok " ++ showCS (norm (f c))
    | _, _ => "err bad-args"
  | [Sexp.atom "prim", Sexp.atom nm, a, b] =>
    match prim2 nm, parseCls a, parseCls b with
    | some f, some c, some d => "ok " ++ showCS (norm (f c d))
    | _, _, _ => "err bad-args"
  | [Sexp.atom "mag", Sexp.atom "prim", Sexp.atom nm, a] =>
    match magPrim1 nm, parseM a with
    | some f, some c => "ok " ++ showMS (f c)
    | _, _ => "err bad-args"
  | [Sexp.atom "mag", Sexp.atom "prim", Sexp.atom nm, a, b] =>
    match magPrim2 nm, parseM a, parseM b with
    | some f, some c, some d => "ok " ++ showMS (f c d)
    | _, _, _ => "err bad-args"
  | [Sexp.atom "mag", Sexp.atom op, Sexp.atom v, cx, cy, ord] =>
    match Mag.Variant.ofName? v, parseM cx, parseM cy, parseOrd ord with
    | some v, some cx, some cy, some ord =>
      let i : Mag.In := ⟨cx, cy, ord⟩
      if !i.ok then "err inconsistent-input" else
      match op with
      | "logaddexp" => let r := Mag.logaddexpV v i; "ok " ++ showMS r.cs ++ " " ++ showMTag r.tag
      | "safesub" => let r := Mag.safesubArr i; "ok " ++ showMS r.cs ++ " " ++ showMTag r.tag
      | _ => "err bad-op"
    | _, _, _, _ => "err bad-args"
  | [Sexp.atom "mixed", Sexp.atom op, Sexp.atom dt, sc, el] =>
    -- C15 mixed max|min f64|i64|bool SCALAR ELEMENT : the registered (number, array) form on one element
    let elem : Option Elem := match dt with
      | "f64" => (XR.ofSexp? el).map Elem.f
      | "i64" => el.asInt?.map Elem.i
      | "bool" => el.asBool?.map Elem.b
      | _ => none
    match XR.ofSexp? sc, elem with
    | some s, some e =>
      match op with
      | "max" => "ok " ++ toString (mixedMax s e)
      | "min" => "ok " ++ toString (mixedMin s e)
      | _ => "err bad-op"
    | _, _ => "err bad-args"
  | [Sexp.atom "special", Sexp.atom op, Sexp.atom v, cx, cy, ord] =>
    match Variant.ofName? v, parseCls cx, parseCls cy, parseOrd ord with
    | some v, some cx, some cy, some ord =>
      let i : In := ⟨cx, cy, ord⟩
      if !i.ok then "err inconsistent-input" else
      match op with
      | "logaddexp" => showAV (logaddexpV v i)
      | "safesub" => showAV (safesubV v i)
      | "safediv" => showOAV (safedivV v i)
      | "max" => showAV (maxV v i)
      | "min" => showAV (minV v i)
      | "sample" => if v == .arr then showAV (sampleArr i) else showAV (logaddexpScalar i)
      | _ => "err bad-op"
    | _, _, _, _ => "err bad-args"
  | [Sexp.atom "special1", Sexp.atom op, Sexp.atom v, c] =>
    match Variant.ofName? v, parseCls c with
    | some v, some c =>
      match op with
      | "reciprocal" => showOAV (reciprocalV v c)
      | "log" => showAV (logV v c)
      | _ => "err bad-op"
    | _, _ => "err bad-args"
  | [Sexp.atom "lse", xs] =>
    match parseClsList xs with
    | some (c :: cs) => "ok " ++ showCS (logsumexpA (c :: cs))
    | _ => "err bad-args"
  | [Sexp.atom "einsumlog", ovf, xs, ys] =>
    match ovf.asBool?, parseClsList xs, parseClsList ys with
    | some o, some (x :: xs), some (y :: ys) =>
      if xs.length != ys.length then "err bad-args" else "ok " ++ showCS (logEinsumDot o (x :: xs) (y :: ys))
    | _, _, _ => "err bad-args"
  | [Sexp.atom "einsummax", xs, ys] =>
    match parseClsList xs, parseClsList ys with
    | some (x :: xs), some (y :: ys) =>
      if xs.length != ys.length then "err bad-args" else "ok " ++ showCS (norm (maxEinsumDot (x :: xs) (y :: ys)))
    | _, _ => "err bad-args"
  | [Sexp.atom "eval", Sexp.atom op, a, b] =>
    match XR.ofSexp? a, XR.ofSexp? b with
    | some a, some b =>
      match evalOp (parseOp op) a b with
      | some r => "ok " ++ toString r
      | none => "err not-exact-op"
    | _, _ => "err bad-args"
  | [Sexp.atom "table", Sexp.atom nm] =>
    match nm with
    | "units" => "ok (" ++ " ".intercalate (Gen.units.map fun (a, u) => "(" ++ a.name ++ " " ++ u.name ++ ")") ++ ")"
    | "distributive" => pairsSexp Gen.distributive
    | "binaryInverses" => pairsSexp Gen.binaryInverses
    | "safeBinaryInverses" => pairsSexp Gen.safeBinaryInverses
    | "unaryInverses" => pairsSexp Gen.unaryInverses
    | "productToPower" => pairsSexp Gen.productToPower
    | _ => "err bad-table"
  | [Sexp.atom "inok", cx, cy, ord] =>
    match parseCls cx, parseCls cy, parseOrd ord with
    | some cx, some cy, some ord => "ok " ++ toString (In.ok ⟨cx, cy, ord⟩)
    | _, _, _ => "err bad-args"
  | _ => "err bad-request"

end FV.Drv.C15
