/- Drv/C16.lean — driver handler for property C16 (line protocol; core-only imports). -/
import FunsorVerif.Core.Sexp
import FunsorVerif.Model.C16
import FunsorVerif.Gen.C16Table
import FunsorVerif.Gen.C16Reg
namespace FV.Drv.C16
open FV FV.C16

/-
  wire syntax
    ty   ::= any | tb | fb | (c K) | (t ty*) | (tv ty) | (f ty) | (u ty*) | (g K ty*)
    alt  ::= (w ty) | (n ty)
    slot ::= alt | (v alt*)
    sig  ::= (slot*)
    val  ::= (o K) | (term K val*) | (tuple val*) | (fset val*)
-/
mutual
def parseTy : Sexp → Option Ty
  | .atom "any" => some .any
  | .atom "tb" => some .tupB
  | .atom "fb" => some .fsB
  | .list [.atom "c", k] => k.asNat?.map Ty.cls
  | .list (.atom "t" :: xs) => (parseTys xs).map Ty.tup
  | .list [.atom "tv", x] => (parseTy x).map Ty.tupV
  | .list [.atom "f", x] => (parseTy x).map Ty.fs
  | .list (.atom "u" :: xs) => (parseTys xs).map Ty.union
  | .list (.atom "g" :: k :: xs) =>
    match k.asNat?, parseTys xs with
    | some k, some xs => some (.fn k xs)
    | _, _ => none
  | _ => none
def parseTys : List Sexp → Option (List Ty)
  | [] => some []
  | x :: xs =>
    match parseTy x, parseTys xs with
    | some t, some ts => some (t :: ts)
    | _, _ => none
end

def parseAlt : Sexp → Option Alt
  | .list [.atom "w", t] => (parseTy t).map (Alt.mk true)
  | .list [.atom "n", t] => (parseTy t).map (Alt.mk false)
  | _ => none

def parseSlot : Sexp → Option Slot
  | .list (.atom "v" :: alts) => (alts.mapM parseAlt).map Slot.var
  | s => (parseAlt s).map Slot.one

def parseSig (s : Sexp) : Option Sig := do
  let xs ← s.asList?
  xs.mapM parseSlot

mutual
def parseVal : Sexp → Option Val
  | .list [.atom "o", k] => k.asNat?.map Val.obj
  | .list (.atom "term" :: k :: xs) =>
    match k.asNat?, parseVals xs with
    | some k, some xs => some (.term k xs)
    | _, _ => none
  | .list (.atom "tuple" :: xs) => (parseVals xs).map Val.tuple
  | .list (.atom "fset" :: xs) => (parseVals xs).map Val.fset
  | _ => none
def parseVals : List Sexp → Option (List Val)
  | [] => some []
  | x :: xs =>
    match parseVal x, parseVals xs with
    | some t, some ts => some (t :: ts)
    | _, _ => none
end

mutual
def showTy : Ty → String
  | .any => "any"
  | .tupB => "tb"
  | .fsB => "fb"
  | .cls k => "(c " ++ toString k ++ ")"
  | .tup xs => "(t" ++ showTys xs ++ ")"
  | .tupV x => "(tv " ++ showTy x ++ ")"
  | .fs x => "(f " ++ showTy x ++ ")"
  | .union xs => "(u" ++ showTys xs ++ ")"
  | .fn k xs => "(g " ++ toString k ++ showTys xs ++ ")"
def showTys : List Ty → String
  | [] => ""
  | x :: xs => " " ++ showTy x ++ showTys xs
end

def E : Env := Gen.C16.table.env

def showB (b : Bool) : String := if b then "ok T" else "ok F"
def showR (r : Res) : String := "ok " ++ r.toString
def showNats (xs : List Nat) : String := "(" ++ " ".intercalate (xs.map toString) ++ ")"
def showD : DRes → String
  | .found i => "(found " ++ toString i ++ ")"
  | .none => "none"
  | .raised => "raised"

/-- dispatch + the full matching set + which matching signatures are minimal / least. -/
def dispatchInfo (sigs : List Sig) (order : List Nat) (types : List Slot) : String :=
  let r := dispatch E sigs order types
  let m := matching E sigs types
  let strict (i j : Nat) : Bool :=   -- sig i strictly more specific than sig j
    match sigs[i]?, sigs[j]? with
    | some a, some b => supercedes E a b && !supercedes E b a
    | _, _ => false
  let le (i j : Nat) : Bool :=
    match sigs[i]?, sigs[j]? with
    | some a, some b => supercedes E a b
    | _, _ => false
  let minimal := m.filter fun i => !(m.any fun j => strict j i)
  let least := m.filter fun i => m.all fun j => le i j
  "ok " ++ showD r ++ " " ++ showNats m ++ " " ++ showNats minimal ++ " " ++ showNats least

/--
  C16 sub A B | subc A B | sube A B      deep_issubclass (kf / repaired / three-valued)
  C16 slot S1 S2                         issubclass between signature elements
  C16 sup SIG SIG | cons SIG SIG         conflict.supercedes / consistent
  C16 match (SLOT…) SIG                  does the signature accept the types
  C16 dispatch D (SLOT…)                 generated dispatcher #D, its recorded ordering
  C16 dispatcho D (ORDER…) (SLOT…)       same with an explicit ordering (indices)
  C16 dispatchx (SIG…) (ORDER…) (SLOT…)  explicit signature table (throw-away registries)
  C16 deeptype VAL
  C16 ntab                               number of generated dispatchers
-/
def handle (args : List Sexp) : String :=
  match args with
  | [.atom "sub", a, b] =>
    match parseTy a, parseTy b with
    | some a, some b => showB (sub E true a b)
    | _, _ => "err bad-args"
  | [.atom "subc", a, b] =>
    match parseTy a, parseTy b with
    | some a, some b => showB (sub E false a b)
    | _, _ => "err bad-args"
  | [.atom "sube", a, b] =>
    match parseTy a, parseTy b with
    | some a, some b => showR (subE E a b)
    | _, _ => "err bad-args"
  | [.atom "slot", a, b] =>
    match parseSlot a, parseSlot b with
    | some a, some b => showR (slotSubE E a b)
    | _, _ => "err bad-args"
  | [.atom "sup", a, b] =>
    match parseSig a, parseSig b with
    | some a, some b => showR (supercedesE E a b)
    | _, _ => "err bad-args"
  | [.atom "cons", a, b] =>
    match parseSig a, parseSig b with
    | some a, some b => showR (consistentE E a b)
    | _, _ => "err bad-args"
  | [.atom "match", ts, s] =>
    match parseSig ts, parseSig s with
    | some ts, some s => showR (matchSigE E ts s)
    | _, _ => "err bad-args"
  | [.atom "dispatch", d, ts] =>
    match d.asNat?, parseSig ts with
    | some d, some ts =>
      match Gen.C16.dispatchers[d]? with
      | some dt => dispatchInfo dt.sigs dt.order ts
      | none => "err no-such-dispatcher"
    | _, _ => "err bad-args"
  | [.atom "dispatcho", d, o, ts] =>
    match d.asNat?, o.asNats?, parseSig ts with
    | some d, some o, some ts =>
      match Gen.C16.dispatchers[d]? with
      | some dt => dispatchInfo dt.sigs o ts
      | none => "err no-such-dispatcher"
    | _, _, _ => "err bad-args"
  | [.atom "deeptype", v] =>
    match parseVal v with
    | some v =>
      match deepType E v with
      | some t => "ok " ++ showTy t
      | none => "ok none"
    | none => "err bad-args"
  | [.atom "dispatchx", sg, o, ts] =>
    match sg.asList?.bind (fun l => l.mapM parseSig), o.asNats?, parseSig ts with
    | some sigs, some o, some ts => dispatchInfo sigs o ts
    | _, _, _ => "err bad-args"
  | [.atom "hidden", d] =>
    match d.asNat? with
    | some d =>
      match Gen.C16.dispatchers[d]? with
      | some dt => "ok (" ++ " ".intercalate ((hiddenAmbiguities E dt.sigs).map fun p =>
          "(" ++ toString p.1 ++ " " ++ toString p.2 ++ ")") ++ ")"
      | none => "err no-such-dispatcher"
    | none => "err bad-args"
  | [.atom "ntab"] => "ok " ++ toString Gen.C16.dispatchers.length
  | _ => "err bad-request"

end FV.Drv.C16
