/- Drv/C17.lean — driver handler for property C17 (interpretation stack; core-only imports). -/
import FunsorVerif.Core.Sexp
import FunsorVerif.Model.C17
import FunsorVerif.Gen.C17Interps
namespace FV.Drv.C17
open FV FV.C17

/-! The harness's own interpretations (fv/harness/c17_rt.py): P, and W = PrioritizedInterpretation(W1, W2, W3). -/
def userLeaves : List String := ["P", "W1", "W2", "W3", "Q", "Shift", "Traced", "Other", "K"]
def userChains : List (String × List String) := [("W", ["W1", "W2", "W3"])]
def userRules : List (String × List String) :=
  [("P", ["a", "bin"]), ("W2", ["b"]), ("W3", ["a", "b"]), ("Q", ["b"]),
   -- a two-level StatefulInterpretation hierarchy: rules_of class = the class's OWN registry
   ("Shift", ["a"]), ("Traced", ["b"]), ("Other", ["bin"]),
   -- K: rules for the LEAF classes (Number, Tensor): probes n (Number), t (input-less Tensor), tn (Tensor with inputs)
   ("K", ["n", "t", "tn"])]

/-- funsor's tables (regenerated from /repo) + the harness's. -/
def env : Env :=
  Env.ofTables (Gen.C17.leaves ++ userLeaves) (Gen.C17.chains ++ userChains)
    (Gen.C17.probeRules ++ userRules) userLeaves Gen.C17.adjointProbes ["S"]

def observable (h : String) : Bool := userLeaves.contains h || h == "subst"

def parseCtxAtom (s : String) : Ctx :=
  if s == "memoize" then .memoize
  else if s == "memoS1" then .memoShared 1
  else if s == "memoS2" then .memoShared 2
  else if s == "tape" then .tape
  else if s == "subst" then .subst true
  else if s == "subst0" then .subst false
  else .named s

/-- ctx ::= NAME | memoize | memoS1 | tape | subst | subst0
          | (memoof CID NAME)      the object `Memoize(NAME)` built elsewhere (own cache CID)
          | (prioof NAME NAME)     the object `PrioritizedInterpretation(NAME, NAME)` built elsewhere -/
def parseCtx : Sexp → Option Ctx
  | .atom a => some (parseCtxAtom a)
  | .list [.atom "memoof", c, .atom n] => do
      let cid ← c.asNat?
      let b ← env.named n
      pure (.built (.memo cid false b))
  | .list [.atom "prioof", .atom a, .atom b] => do
      let x ← env.named a
      let y ← env.named b
      match mkPrio [x, y] with
      | .ok p => pure (.built p)
      | .error _ => none
  | _ => none

mutual
def parseProg : Nat → Sexp → Option Prog
  | 0, _ => none
  | _ + 1, .atom "obs" => some .obs
  | _ + 1, .atom "raise" => some .raise
  | _ + 1, .atom "skip" => some .skip
  | _ + 1, .list [.atom "probe", .atom k, b, t] => do
      let armed ← b.asBool?
      let tok ← t.asNat?
      pure (Prog.probe k armed tok)
  | f + 1, .list [.atom "with", c, b] => do
      let cx ← parseCtx c
      (parseProg f b).map (Prog.withI cx)
  | f + 1, .list [.atom "deco", c, b] => do
      let cx ← parseCtx c
      (parseProg f b).map (Prog.deco cx)
  | f + 1, .list [.atom "catch", b] => (parseProg f b).map Prog.catch
  | f + 1, .list [.atom "quiet", b] => (parseProg f b).map Prog.quiet
  | _ + 1, .list [.atom "applyopt", .atom k, b, t] => do
      let armed ← b.asBool?
      let tok ← t.asNat?
      pure (applyOpt k armed tok)
  | _ + 1, .list [.atom "fb", .atom k, t] => t.asNat?.map (forwardBackward k)
  | f + 1, .list (.atom "seq" :: ps) => parseSeq f ps
  | _ + 1, _ => none
def parseSeq : Nat → List Sexp → Option Prog
  | 0, _ => none
  | _ + 1, [] => some .skip
  | f + 1, [p] => parseProg f p
  | f + 1, p :: ps => do
      let a ← parseProg f p
      let b ← parseSeq f ps
      pure (.seq a b)
end

def showRun (p : Prog) : String :=
  match initStack env Gen.C17.baseStack with
  | none => "err bad-base-stack"
  | some s0 =>
    let (o, st) := exec env p { stack := s0, log := [] }
    let obs := st.log.reverse.map (Obs.canon observable)
    "ok " ++ "|".intercalate (o.canon :: canonStack st.stack :: obs)

/--
  C17 exec PROG          run PROG from the import-time stack; answer `ok outcome|final stack|obs…`
  C17 enter NAME…        enter the named contexts one inside the other; answer the stack or the error
  C17 handler K NAME…    which leaf interprets probe K inside those nested contexts
-/
def handle (args : List Sexp) : String :=
  match args with
  | [.atom "exec", p] =>
    match parseProg 100000 p with
    | some prog => showRun prog
    | none => "err bad-program"
  | .atom "enter" :: cs =>
    match initStack env Gen.C17.baseStack, cs.mapM Sexp.asAtom? with
    | some s0, some names =>
      let r := names.foldl (fun (acc : Except Err Stack) n =>
        match acc with
        | .error e => .error e
        | .ok s => (enter env (parseCtxAtom n) s 0).map Prod.fst) (.ok s0)
      match r with
      | .ok s => "ok " ++ canonStack s
      | .error e => "ok " ++ e.canon
    | _, _ => "err bad-args"
  | .atom "handler" :: .atom k :: cs =>
    match initStack env Gen.C17.baseStack, cs.mapM Sexp.asAtom? with
    | some s0, some names =>
      let r := names.foldl (fun (acc : Except Err Stack) n =>
        match acc with
        | .error e => .error e
        | .ok s => (enter env (parseCtxAtom n) s 0).map Prod.fst) (.ok s0)
      match r with
      | .ok s => match top? s with
        | some t => "ok " ++ (match handler env k t with | some h => h | none => "-")
        | none => "ok IndexError"
      | .error e => "ok " ++ e.canon
    | _, _ => "err bad-args"
  | _ => "err bad-request"

end FV.Drv.C17
