/- Drv/C18.lean — driver handler for property C18 (line protocol; core-only imports).

  Wire format
    expr   (c K) | (v "name") | (u op E) | (b op E E) | (t E…)
    node   (fn E) | (raw E…)
    prog   ((K…) ("name"…) ((op|mk I…)…))          constants, inputs, operations (`mk` = make_tuple)
    value  rational | (t V…) | (s op V…)            `s` = an op the driver leaves uninterpreted
    kw     (("name" V)…)         consts  (V…)       value of constant K = K-th entry
-/
import FunsorVerif.Core.Sexp
import FunsorVerif.Core.XR
import FunsorVerif.Model.C18
namespace FV.Drv.C18
open FV FV.C18

/-- Exact values: rationals, tuples, and free terms for ops without an exact model (`exp`, …), so
    that `run` and `eval` can be compared symbolically whatever the op. -/
inductive Val where
  | num (q : Rat)
  | tup (vs : List Val)
  | sym (op : String) (args : List Val)
  deriving Inhabited

mutual
partial def Val.toSexp : Val → Sexp
  | .num q => ratToSexp q
  | .tup vs => .list (.atom "t" :: vs.map Val.toSexp)
  | .sym op vs => .list (.atom "s" :: .atom op :: vs.map Val.toSexp)
end

partial def parseVal : Sexp → Option Val
  | .list (.atom "t" :: vs) => (vs.mapM parseVal).map .tup
  | .list (.atom "s" :: .atom op :: vs) => (vs.mapM parseVal).map (.sym op)
  | .atom a => (XR.parseRat a).map .num
  | _ => none

def unOp (op : String) (x : Val) : Val :=
  match op, x with
  | "neg", .num q => .num (-q)
  | "abs", .num q => .num (if q < 0 then -q else q)
  | _, _ => .sym op [x]

def binOp (op : String) (x y : Val) : Val :=
  match op, x, y with
  | "add", .num a, .num b => .num (a + b)
  | "sub", .num a, .num b => .num (a - b)
  | "mul", .num a, .num b => .num (a * b)
  | "max", .num a, .num b => .num (if a ≤ b then b else a)
  | "min", .num a, .num b => .num (if a ≤ b then a else b)
  | "truediv", .num a, .num b => if b = 0 then .sym op [x, y] else .num (a / b)
  | _, _, _ => .sym op [x, y]

def interp (consts : List Val) : Interp Val :=
  { const := fun k => (consts[k]?).getD (.sym "unknown-constant" [.num k]),
    un := unOp, bin := binOp, tup := .tup }

partial def parseExpr : Sexp → Option Expr
  | .list [.atom "c", k] => k.asNat?.map .const
  | .list [.atom "v", n] => n.asStr?.map .var
  | .list [.atom "u", op, a] => do
      let o ← op.asStr?; let a ← parseExpr a; pure (.unary o a)
  | .list [.atom "b", op, a, b] => do
      let o ← op.asStr?; let a ← parseExpr a; let b ← parseExpr b; pure (.binary o a b)
  | .list (.atom "t" :: args) => do
      let es ← args.mapM parseExpr; pure (.tuple (Args.ofList es))
  | _ => none

def srcArgsOfList : List Src → SrcArgs
  | [] => .nil
  | a :: r => .cons a (srcArgsOfList r)

/-- source terms: expr syntax plus `(k op E…)` for a Contraction without reduced variables -/
partial def parseSrc : Sexp → Option Src
  | .list [.atom "c", k] => k.asNat?.map .const
  | .list [.atom "v", n] => n.asStr?.map .var
  | .list [.atom "u", op, a] => do
      let o ← op.asStr?; let a ← parseSrc a; pure (.unary o a)
  | .list [.atom "b", op, a, b] => do
      let o ← op.asStr?; let a ← parseSrc a; let b ← parseSrc b; pure (.binary o a b)
  | .list (.atom "t" :: args) => do
      let es ← args.mapM parseSrc; pure (.tuple (srcArgsOfList es))
  | .list (.atom "k" :: op :: args) => do
      let o ← op.asStr?; let es ← args.mapM parseSrc; pure (.contraction o (srcArgsOfList es))
  | _ => none

def parseNode : Sexp → Option Node
  | .list [.atom "fn", e] => (parseExpr e).map .fn
  | .list (.atom "raw" :: es) => (es.mapM parseExpr).map (fun l => .raw (Args.ofList l))
  | _ => none

mutual
partial def exprToSexp : Expr → Sexp
  | .const k => .list [.atom "c", Sexp.ofNat k]
  | .var n => .list [.atom "v", .str n]
  | .unary op a => .list [.atom "u", .atom op, exprToSexp a]
  | .binary op a b => .list [.atom "b", .atom op, exprToSexp a, exprToSexp b]
  | .tuple as => .list (.atom "t" :: as.toList.map exprToSexp)
end

def nodeToSexp : Node → Sexp
  | .fn e => .list [.atom "fn", exprToSexp e]
  | .raw es => .list (.atom "raw" :: es.toList.map exprToSexp)

def opToSexp : OpTag × List Nat → Sexp
  | (.op name, ids) => .list (.atom name :: ids.map Sexp.ofNat)
  | (.mkTuple, ids) => .list (.atom "mk" :: ids.map Sexp.ofNat)

def progToSexp (p : Prog) : Sexp :=
  .list [Sexp.ofNats p.constants, .list (p.inputs.map .str), .list (p.operations.map opToSexp)]

def parseOp : Sexp → Option (OpTag × List Nat)
  | .list (.atom name :: ids) => do
      let is ← ids.mapM Sexp.asNat?
      pure (if name == "mk" then .mkTuple else .op name, is)
  | _ => none

def parseProg : Sexp → Option Prog
  | .list [cs, ins, ops] => do
      let cs ← cs.asNats?
      let ins ← ins.asStrs?
      let ops ← (← ops.asList?).mapM parseOp
      pure ⟨cs, ins, ops⟩
  | _ => none

def parseKw (s : Sexp) : Option (Kw Val) := do
  let xs ← s.asList?
  xs.mapM fun
    | .list [n, v] => do let n ← n.asStr?; let v ← parseVal v; pure (n, v)
    | _ => none

def parseVals (s : Sexp) : Option (List Val) := do (← s.asList?).mapM parseVal

def errToString : Err → String
  | .missing n => "(error missing \"" ++ n ++ "\")"
  | .unrecognized ns => "(error unrecognized " ++ toString (Sexp.list (ns.map .str)) ++ ")"
  | .index i => "(error index " ++ toString i ++ ")"
  | .arity op n => "(error arity " ++ op ++ " " ++ toString n ++ ")"
  | .emptyEnv => "(error empty-env)"
  | .key n => "(error key " ++ toString (nodeToSexp n) ++ ")"
  | .keyId i => "(error keyid " ++ toString i ++ ")"
  | .notImplemented n => "(error not-implemented " ++ toString (nodeToSexp n) ++ ")"
  | .name s => "(error name " ++ s ++ ")"
  | .reserved => "(error reserved)"
  | .fuel => "(error fuel)"

def showProg : Except Err Prog → String
  | .ok p => toString (progToSexp p)
  | .error e => errToString e

def showVal : Except Err Val → String
  | .ok v => toString v.toSexp
  | .error e => errToString e

def showOrd (ord : List Node) : String := toString (Sexp.list (ord.map nodeToSexp))

def rhsToSexp : Rhs → Sexp
  | .const k => .list [.atom "c", Sexp.ofNat k]
  | .name s => .list [.atom "n", .str s]
  | .call tag args => opToSexp (tag, args)

def codeToSexp (c : Code) : Sexp :=
  .list [.list (c.params.map .str),
         Sexp.ofNat c.pfx,
         .list (c.lets.map fun (i, r) => .list [Sexp.ofNat i, rhsToSexp r]),
         match c.ret with | some i => Sexp.ofNat i | none => .atom "none"]

def parseTrace (s : Sexp) : Option (List TEntry) := do
  (← s.asList?).mapM fun
    | .list [r, op, args] => do
        let r ← r.asNat?
        let (tag, _) ← parseOp (.list [op])
        let args ← args.asNats?
        pure ⟨r, tag, args⟩
    | _ => none

def parseKwIds (s : Sexp) : Option (List (String × Nat)) := do
  (← s.asList?).mapM fun
    | .list [n, v] => do pure (← n.asStr?, ← v.asNat?)
    | _ => none

/--
  C18 anf E                         the model's anf order of the DAG of E
  C18 compile E                     anf + compile_funsor (model end to end): `ok <ord> <prog> <inputs>`
  C18 compilewith (N…) ("in"…)      compile_funsor for a GIVEN ordering and input list
  C18 prefix (N…) ("in"…)           same with the numbering before commit 6850cf7
  C18 inputs E                      expr.inputs key order
  C18 eval E (V…) KW                value of the expression (spec)
  C18 run PROG (V…) KW              OpProgram.__call__
  C18 exec PROG (V…) KW             python execution of as_code() (one namespace)
  C18 ascode PROG                   the printed lines
  C18 trace VARS ALLOW TRACE ROOT KWIDS    trace_function after recording (VARS = ids for which is_variable)
-/
def handle (args : List Sexp) : String :=
  match args with
  | [.atom "anf", e] =>
    match parseExpr e with
    | some e => match anf (.fn e) with
      | some ord => "ok " ++ showOrd ord
      | none => "ok (error fuel)"
    | none => "err bad-expr"
  | [.atom "compile", e] =>
    match parseExpr e with
    | some e => match anf (.fn e) with
      | some ord => "ok " ++ showOrd ord ++ " " ++ showProg (compileWith ord (inputsOf e))
      | none => "ok (error fuel)"
    | none => "err bad-expr"
  | [.atom "compilewith", ord, ins] =>
    match (ord.asList?).bind (·.mapM parseNode), ins.asStrs? with
    | some ord, some ins => "ok " ++ showProg (compileWith ord ins)
    | _, _ => "err bad-args"
  | [.atom "prefix", ord, ins] =>
    match (ord.asList?).bind (·.mapM parseNode), ins.asStrs? with
    | some ord, some ins => "ok " ++ showProg (compileWithPreFix ord ins)
    | _, _ => "err bad-args"
  | [.atom "inputs", e] =>
    match parseExpr e with
    | some e => "ok " ++ toString (Sexp.list ((inputsOf e).map .str))
    | none => "err bad-expr"
  | [.atom "eval", e, cs, kw] =>
    match parseExpr e, parseVals cs, parseKw kw with
    | some e, some cs, some kw =>
      match eval (interp cs) kw e with
      | some v => "ok " ++ toString v.toSexp
      | none => "ok (error unbound)"
    | _, _, _ => "err bad-args"
  | [.atom "run", p, cs, kw] =>
    match parseProg p, parseVals cs, parseKw kw with
    | some p, some cs, some kw => "ok " ++ showVal (run (interp cs) p kw)
    | _, _, _ => "err bad-args"
  | [.atom "exec", p, cs, kw] =>
    match parseProg p, parseVals cs, parseKw kw with
    | some p, some cs, some kw =>
      match asCode p with
      | .ok c => "ok " ++ showVal (execCode (interp cs) c kw)
      | .error e => "ok " ++ errToString e
    | _, _, _ => "err bad-args"
  | [.atom "ascode", p] =>
    match parseProg p with
    | some p =>
      match asCode p with
      | .ok c => "ok " ++ toString (codeToSexp c)
      | .error e => "ok " ++ errToString e
    | none => "err bad-prog"
  | [.atom "lower", e] =>
    -- C18 lower SRC : compiler.lower
    match parseSrc e with
    | some s => match lower s with
      | some e => "ok " ++ toString (exprToSexp e)
      | none => "ok (error empty-reduce)"
    | none => "err bad-src"
  | [.atom "evalsrc", e, cs, kw] =>
    match parseSrc e, parseVals cs, parseKw kw with
    | some e, some cs, some kw =>
      match evalSrc (interp cs) kw e with
      | some v => "ok " ++ toString v.toSexp
      | none => "ok (error unbound)"
    | _, _, _ => "err bad-args"
  | [.atom "printop", cls, names, defaults, vals] =>
    -- C18 printop "Class" ("p1"…) ("d1"…) ("v1"…): printed form, and what python reads back from it
    match cls.asStr?, names.asStrs?, defaults.asStrs?, vals.asStrs? with
    | some cls, some names, some ds, some vs =>
      let c : OpClass := ⟨cls, names.zip ds⟩
      let o : OpInst := ⟨c, vs⟩
      let showP : Printed → String
        | .ref n => "(ref \"" ++ n ++ "\")"
        | .ctor n as => "(ctor \"" ++ n ++ "\" " ++ toString (Sexp.list (as.map .str)) ++ ")"
      let back := match parsePrinted c (printOp o) with
        | some o' => toString (Sexp.list (o'.vals.map .str))
        | none => "none"
      "ok " ++ showP (printOp o) ++ " " ++ back
    | _, _, _, _ => "err bad-args"
  | [.atom "trace", vars, allow, tr, root, kwids] =>
    match vars.asNats?, allow.asBool?, parseTrace tr, root.asNat?, parseKwIds kwids with
    | some vars, some allow, some tr, some root, some kwids =>
      "ok " ++ showProg (traceCompile (fun i => vars.contains i) allow tr root kwids)
    | _, _, _, _, _ => "err bad-args"
  | _ => "err bad-request"

end FV.Drv.C18
