/- Drv/C19.lean — driver handler for property C19 (line protocol; core-only imports). -/
import FunsorVerif.Core.Sexp
import FunsorVerif.Model.C19
namespace FV.Drv.C19
open FV FV.C19

abbrev V := Option Int

def showV : V → Sexp
  | some i => Sexp.ofInt i
  | none => Sexp.atom "none"

def showErr : Err → String
  | .valueError => "ok (raise ValueError)"
  | .keyError => "ok (raise KeyError)"
  | .assertionError => "ok (raise AssertionError)"

def showArr (a : Arr V) : Sexp :=
  Sexp.list [Sexp.atom "arr", Sexp.ofNats a.shape, Sexp.list (a.toFlat.map showV)]

def showInputs (i : Inputs) : Sexp :=
  Sexp.list (i.map fun p => Sexp.list [Sexp.str p.1, Sexp.ofNat p.2])

def showDtype : Option Nat → Sexp
  | none => Sexp.atom "real"
  | some n => Sexp.ofNat n

def showTensor (t : Tensor V) : Sexp :=
  Sexp.list [Sexp.atom "tensor", showInputs t.inputs, Sexp.ofNats t.data.shape,
    Sexp.list (t.data.toFlat.map showV), showDtype t.dtype]

def optOf {β : Type} (f : Sexp → Option β) : Sexp → Option (Option β)
  | Sexp.atom "none" => some none
  | s => (f s).map some

def parseArr (shape flat : Sexp) : Option (Arr V) := do
  let sh ← shape.asNats?
  let xs ← flat.asInts?
  if xs.length = prod sh then some (Arr.ofFlat sh xs) else none

def parsePairsIS (s : Sexp) : Option (List (Int × String)) := do
  let xs ← s.asList?
  xs.mapM fun
    | Sexp.list [d, n] => do some ((← d.asInt?), (← n.asStr?))
    | _ => none

def parsePairsSI (s : Sexp) : Option (List (String × Int)) := do
  let xs ← s.asList?
  xs.mapM fun
    | Sexp.list [n, d] => do some ((← n.asStr?), (← d.asInt?))
    | _ => none

def parseInputs (s : Sexp) : Option Inputs := do
  let xs ← s.asList?
  xs.mapM fun
    | Sexp.list [n, d] => do some ((← n.asStr?), (← d.asNat?))
    | _ => none

def parseDtype : Sexp → Option (Option Nat)
  | Sexp.atom "real" => some none
  | s => s.asNat?.map some

/-- `(tensor (inputs) (shape) (flat) dtype)`; refuses tensors violating `Tensor.__init__`'s
    assertion (sizes of the leading axes = input sizes). -/
def parseTensor (s : Sexp) : Option (Tensor V) := do
  match s with
  | Sexp.list [Sexp.atom "tensor", i, sh, fl, dt] =>
    let inputs ← parseInputs i
    let a ← parseArr sh fl
    let dtype ← parseDtype dt
    if inputs.map (·.2) = a.shape.take inputs.length ∧ inputs.length ≤ a.shape.length then
      some ⟨inputs, a, dtype⟩
    else none
  | _ => none

def ofNatV (n : Nat) : V := some (n : Int)

def opsV (k : Nat) (a b : V) : V :=
  match a, b with
  | some x, some y => some (match k with | 0 => x + y | 1 => x * y | _ => x - y)
  | _, _ => none

def opIdx : String → Option Nat
  | "add" => some 0 | "mul" => some 1 | "sub" => some 2 | _ => none

def parseTerm : Sexp → Option (Term V)
  | Sexp.list [Sexp.atom "var", n, s] => do some (.var (← n.asStr?) (← s.asNat?))
  | Sexp.list [Sexp.atom "rvar", n] => do some (.rvar (← n.asStr?))
  | Sexp.list [Sexp.atom "slice", n, a, b, c, d] => do
      some (.slice (← n.asStr?) (← a.asNat?) (← b.asNat?) (← c.asNat?) (← d.asNat?))
  | Sexp.list [Sexp.atom "binary", Sexp.atom op, l, r] => do
      some (.binary (← opIdx op) (← parseTerm l) (← parseTerm r))
  | s => (parseTensor s).map .tensor

def parseLTerm : Sexp → Option (LTerm V)
  | Sexp.list [Sexp.atom "var", n, s] => do some (.var (← n.asStr?) (← s.asNat?))
  | Sexp.list [Sexp.atom "binary", Sexp.atom op, l, r] => do
      some (.binary (← opIdx op) (← parseLTerm l) (← parseLTerm r))
  | Sexp.list [Sexp.atom "align", t, names] => do some (.align (← parseLTerm t) (← names.asStrs?))
  | Sexp.list [Sexp.atom "contract", Sexp.atom rop, Sexp.atom bop, rv, l, r] => do
      some (.contract (← opIdx rop) (← opIdx bop) (← parseInputs rv) (← parseLTerm l) (← parseLTerm r))
  | s => (parseTensor s).map .tensor

def redV (k : Nat) (xs : List V) : V :=
  match xs with
  | [] => some 0
  | x :: rest => rest.foldl (opsV k) x

def LTerm.isAlign : LTerm V → Bool
  | .align _ _ => true
  | _ => false

def showExcT (r : Except Err (Tensor V)) : String :=
  match r with
  | .ok t => "ok " ++ toString (showTensor t)
  | .error e => showErr e

def showExcA (r : Except Err (Arr V)) : String :=
  match r with
  | .ok a => "ok " ++ toString (showArr a)
  | .error e => showErr e

/-- All points of a box, row-major. -/
def points : List Nat → List (List Nat)
  | [] => [[]]
  | s :: ss => (List.range s).flatMap fun i => (points ss).map (i :: ·)

def envOf (names : List String) (vals : List Nat) : String → Nat :=
  fun n => match lookup n (names.zip vals) with | some v => v | none => 0

/--
  C19 ravel (shape) (idx)                      row-major offset
  C19 unravel (shape) k                        multi-index
  C19 tofunsor (shape) (flat) OUT DTYPE D2N    tensor_to_funsor
  C19 todata TENSOR N2D                        tensor_to_data
  C19 roundtrip (shape) (flat) OUT DTYPE D2N N2D   to_funsor then to_data
  C19 align TENSOR ("name"…)                   Tensor.align
  C19 aligntensor (inputs) TENSOR expand       align_tensor
  C19 aligntensors (TENSOR…) expand            align_tensors
  C19 materialize TERM                         materialize then eager evaluation
  C19 denotetable TERM (inputs)                spec: value at every point of the box
  C19 tensortable TENSOR (inputs)              value of a tensor at every named point of the box
  C19 lazyalign LTERM ("name"…) (inputs)       Funsor.align / Align.align / Contraction.align on a lazy term
  C19 madeop OP TENSOR TENSOR                  make_op rule: to_data by name, raw fn, to_funsor
  C19 deltaalign ("term name"…) ("name"…)     Delta.align: order of the terms
-/
def handle (args : List Sexp) : String :=
  match args with
  | [Sexp.atom "ravel", sh, ix] =>
    match sh.asNats?, ix.asNats? with
    | some s, some i => if inb s i then s!"ok {ravel s i}" else "ok oob"
    | _, _ => "err bad-args"
  | [Sexp.atom "unravel", sh, k] =>
    match sh.asNats?, k.asNat? with
    | some s, some k => "ok " ++ toString (Sexp.ofNats (unravel s k))
    | _, _ => "err bad-args"
  | [Sexp.atom "tofunsor", sh, fl, out, dt, d2n] =>
    match parseArr sh fl, optOf Sexp.asNats? out, parseDtype dt, optOf parsePairsIS d2n with
    | some x, some out, some dt, some d2n => showExcT (toFunsor x out dt d2n)
    | _, _, _, _ => "err bad-args"
  | [Sexp.atom "todata", t, n2d] =>
    match parseTensor t, optOf parsePairsSI n2d with
    | some t, some n2d => showExcA (toData t n2d)
    | _, _ => "err bad-args"
  | [Sexp.atom "roundtrip", sh, fl, out, dt, d2n, n2d] =>
    match parseArr sh fl, optOf Sexp.asNats? out, parseDtype dt, optOf parsePairsIS d2n,
        optOf parsePairsSI n2d with
    | some x, some out, some dt, some d2n, some n2d =>
      match toFunsor x out dt d2n with
      | .ok f => showExcA (toData f n2d)
      | .error e => showErr e
    | _, _, _, _, _ => "err bad-args"
  | [Sexp.atom "align", t, names] =>
    match parseTensor t, names.asStrs? with
    | some t, some names => showExcT (t.align names)
    | _, _ => "err bad-args"
  | [Sexp.atom "aligntensor", inputs, t, ex] =>
    match parseInputs inputs, parseTensor t, ex.asBool? with
    | some i, some t, some ex => showExcA (alignTensor i t ex)
    | _, _, _ => "err bad-args"
  | [Sexp.atom "aligntensors", ts, ex] =>
    match ts.asList?.bind (·.mapM parseTensor), ex.asBool? with
    | some ts, some ex =>
      match alignTensors ts ex with
      | .ok (i, as) => "ok " ++ toString (Sexp.list [showInputs i, Sexp.list (as.map showArr)])
      | .error e => showErr e
    | _, _ => "err bad-args"
  | [Sexp.atom "materialize", t] =>
    match parseTerm t with
    | some t =>
      match (t.materialize ofNatV).eval opsV with
      | some r => "ok " ++ toString (showTensor r)
      | none => "ok lazy"
    | none => "err bad-args"
  | [Sexp.atom "denotetable", t, inputs] =>
    match parseTerm t, parseInputs inputs with
    | some t, some i =>
      let names := i.map (·.1)
      let vals := (points (i.map (·.2))).map fun p =>
        t.denote ofNatV opsV (fun _ => none) (envOf names p)
      "ok " ++ toString (Sexp.list (vals.map showV))
    | _, _ => "err bad-args"
  | [Sexp.atom "tensortable", t, inputs] =>
    match parseTensor t, parseInputs inputs with
    | some t, some i =>
      let names := i.map (·.1)
      let vals := (points (i.map (·.2))).flatMap fun p =>
        (points t.outShape).map fun ev => t.atEnv (envOf names p) ev
      "ok " ++ toString (Sexp.list (vals.map showV))
    | _, _ => "err bad-args"
  | [Sexp.atom "lazyalign", t, names, inputs] =>
    -- x.align(names) on a lazy term: result keys, whether it is an Align wrapper, and the value
    -- table of the ORIGINAL and of the ALIGNED term over the box `inputs`
    match parseLTerm t, names.asStrs?, parseInputs inputs with
    | some t, some names, some i =>
      match t.alignT names with
      | none => "ok (raise AssertionError)"
      | some t' =>
        let ks := i.map (·.1)
        let tab := fun (u : LTerm V) => (points (i.map (·.2))).map fun p =>
          u.denote ofNatV opsV redV (envOf ks p)
        "ok " ++ toString (Sexp.list [Sexp.list (t'.keys.map Sexp.str), Sexp.ofBool (LTerm.isAlign t'),
          Sexp.list ((tab t).map showV), Sexp.list ((tab t').map showV)])
    | _, _, _ => "err bad-args"
  | [Sexp.atom "madeop", Sexp.atom opn, t1, t2] =>
    match parseTensor t1, parseTensor t2 with
    | some x, some y =>
      let f : V → V → V := fun a b => match a, b with
        | some p, some q => some (if opn == "sub2" then p - 2 * q else p + 100 * q)
        | _, _ => none
      showExcT (madeOp2 f x y)
    | _, _ => "err bad-args"
  | [Sexp.atom "deltaalign", terms, names] =>
    match terms.asStrs?, names.asStrs? with
    | some ts, some names =>
      match deltaAlign (ts.map fun n => (n, ())) names with
      | .ok r => "ok " ++ toString (Sexp.list (r.map fun p => Sexp.str p.1))
      | .error e => showErr e
    | _, _ => "err bad-args"
  | _ => "err bad-request"

end FV.Drv.C19
