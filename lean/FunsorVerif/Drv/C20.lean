/- Drv/C20.lean — driver handler for property C20 (line protocol; core-only imports). -/
import FunsorVerif.Core.Sexp
import FunsorVerif.Model.C20.Heap
import FunsorVerif.Model.C20.Review
namespace FV.Drv.C20
open FV FV.C20 FV.Gen.C20

def parseInstr (s : Sexp) : Option Instr :=
  match s with
  | .list [.atom "alloc", n, v] => do some (.alloc (← n.asNat?) (← v.asInt?))
  | .list [.atom "copy", a] => do some (.copy (← a.asNat?))
  | .list [.atom "binop", a, b] => do some (.binop (← a.asNat?) (← b.asNat?))
  | .list [.atom "gather", a, idx] => do some (.gather (← a.asNat?) (← idx.asNats?))
  | .list [.atom "slice", a, b, c, d] => do some (.slice (← a.asNat?) (← b.asNat?) (← c.asNat?) (← d.asNat?))
  | .list [.atom "rev", a] => do some (.rev (← a.asNat?))
  | .list [.atom "alias", a] => do some (.alias (← a.asNat?))
  | .list [.atom "setitem", d, k, v] => do some (.setItem (← d.asNat?) (← k.asNat?) (← v.asInt?))
  | .list [.atom "fill", d, v] => do some (.fill (← d.asNat?) (← v.asInt?))
  | .list [.atom "iadd", d, a] => do some (.iadd (← d.asNat?) (← a.asNat?))
  | .list [.atom "assign", d, a] => do some (.assign (← d.asNat?) (← a.asNat?))
  | _ => none

def parseView (s : Sexp) : Option View :=
  match s with
  | .list [b, offs] => do some ⟨← b.asNat?, ← offs.asNats?⟩
  | _ => none

def viewSexp (v : View) : Sexp := .list [Sexp.ofNat v.base, Sexp.ofNats v.offs]
def boolsSexp (bs : List Bool) : Sexp := .list (bs.map Sexp.ofBool)

def siteSexp (w : WriteSite) : Sexp :=
  .list [.str w.file, Sexp.ofNat w.line, .str w.func, .atom (reprStr w.kind), .str w.target,
         .atom (reprStr w.prov)]

/--
  C20 run (BUF…) (VIEW…) (INSTR…)   run the program on heap/registers; answers
        ok (heap BUF…) (regs VIEW…) (completed B) (static B) (sitetags B…) (tags B…)
  C20 offending                      sites of the generated table not covered by a justification
  C20 nsites                         size of the generated table
-/
def handle (args : List Sexp) : String :=
  match args with
  | [.atom "run", heap, regs, prog] =>
    match heap.asList?.bind (·.mapM Sexp.asInts?), regs.asList?.bind (·.mapM parseView),
          prog.asList?.bind (·.mapM parseInstr) with
    | some h, some r, some p =>
      let s : State := ⟨h, r⟩
      let s' := runPartial p s
      let completed := (run p s).isSome
      let t0 := initTags s
      let tags := p.foldl (fun t i => absStep i t) t0
      let out : Sexp := .list [
        .list (.atom "heap" :: s'.heap.map Sexp.ofInts),
        .list (.atom "regs" :: s'.regs.map viewSexp),
        .list [.atom "completed", Sexp.ofBool completed],
        .list [.atom "static", Sexp.ofBool (staticOK p t0)],
        .list [.atom "sitetags", boolsSexp (siteTags p t0)],
        .list [.atom "tags", boolsSexp tags]]
      "ok " ++ toString out
    | _, _, _ => "err bad-args"
  | [.atom "offending"] => "ok " ++ toString (Sexp.list (offending.map siteSexp))
  | [.atom "nsites"] => "ok " ++ toString writeSites.length
  | _ => "err bad-request"

end FV.Drv.C20
