/- Drv/C20.lean — driver handler for property C20 (line protocol; core-only imports). -/
import FunsorVerif.Core.Sexp
import FunsorVerif.Model.C20.Heap
import FunsorVerif.Model.C20.Review
import FunsorVerif.Model.C20.Obj
namespace FV.Drv.C20
open FV FV.C20 FV.Gen.C20

def parseInstr (s : Sexp) : Option Instr :=
  match s with
  | .list [.atom "alloc", n, v] => do some (.alloc (← n.asNat?) (← v.asInt?))
  | .list [.atom "copy", a] => do some (.copy (← a.asNat?))
  | .list [.atom "binop", a, b] => do some (.binop (← a.asNat?) (← b.asNat?))
  | .list [.atom "gather", a, idx] => do some (.gather (← a.asNat?) (← idx.asNats?))
  | .list [.atom "slice", a, b, c, d] => do some (.slice (← a.asNat?) (← b.asNat?) (← c.asNat?) (← d.asNat?))
  | .list [.atom "rev", a] => do some (.rev (← a.asNat?))
  | .list [.atom "alias", a] => do some (.alias (← a.asNat?))
  | .list [.atom "setitem", d, k, v] => do some (.setItem (← d.asNat?) (← k.asNat?) (← v.asInt?))
  | .list [.atom "fill", d, v] => do some (.fill (← d.asNat?) (← v.asInt?))
  | .list [.atom "iadd", d, a] => do some (.iadd (← d.asNat?) (← a.asNat?))
  | .list [.atom "assign", d, a] => do some (.assign (← d.asNat?) (← a.asNat?))
  | _ => none

def parseView (s : Sexp) : Option View :=
  match s with
  | .list [b, offs] => do some ⟨← b.asNat?, ← offs.asNats?⟩
  | _ => none

def viewSexp (v : View) : Sexp := .list [Sexp.ofNat v.base, Sexp.ofNats v.offs]
def boolsSexp (bs : List Bool) : Sexp := .list (bs.map Sexp.ofBool)

def siteSexp (w : WriteSite) : Sexp :=
  .list [.str w.file, Sexp.ofNat w.line, .str w.func, .atom (reprStr w.kind), .str w.target,
         .atom (reprStr w.prov)]

open FV.C20.Obj in
def parseVal (s : Sexp) : Option Val :=
  match s with
  | .list [.atom "arr", b, offs] => do some (.arr ⟨← b.asNat?, ← offs.asNats?⟩)
  | .list [.atom "obj", o] => do some (.obj (← o.asNat?))
  | .list [.atom "imm", n] => do some (.imm (← n.asInt?))
  | _ => none

open FV.C20.Obj in
def valSexp : Val → Sexp
  | .arr v => .list [.atom "arr", Sexp.ofNat v.base, Sexp.ofNats v.offs]
  | .obj o => .list [.atom "obj", Sexp.ofNat o]
  | .imm n => .list [.atom "imm", Sexp.ofInt n]

open FV.C20.Obj in
def parseSlot (s : Sexp) : Option (Nat × Val) :=
  match s with
  | .list [k, v] => do some (← k.asNat?, ← parseVal v)
  | _ => none

open FV.C20.Obj in
def parseOInstr (s : Sexp) : Option OInstr :=
  match s with
  | .list [.atom "newarr", n, v] => do some (.newArr (← n.asNat?) (← v.asInt?))
  | .list [.atom "newobj"] => some .newObj
  | .list [.atom "copyobj", a] => do some (.copyObj (← a.asNat?))
  | .list [.atom "alias", a] => do some (.alias (← a.asNat?))
  | .list [.atom "load", a, k] => do some (.load (← a.asNat?) (← k.asNat?))
  | .list [.atom "store", d, k, a] => do some (.store (← d.asNat?) (← k.asNat?) (← a.asNat?))
  | .list [.atom "del", d, k] => do some (.del (← d.asNat?) (← k.asNat?))
  | .list [.atom "setitem", d, k, v] => do some (.setItem (← d.asNat?) (← k.asNat?) (← v.asInt?))
  | .list [.atom "const", n] => do some (.const (← n.asInt?))
  | .list [.atom "augslot", d, k, a, g] => do some (.augSlot (← d.asNat?) (← k.asNat?) (← a.asNat?) ((← g.asNat?) != 0))
  | _ => none

/--
  C20 orun (BUF…) (((K VAL)…)…) (VAL…) (OINSTR…)   object/container model (Model/C20/Obj.lean); answers
        ok (arrs BUF…) (objs ((K VAL)…)…) (regs VAL…) (completed B) (static B)
  C20 run (BUF…) (VIEW…) (INSTR…)   run the program on heap/registers; answers
        ok (heap BUF…) (regs VIEW…) (completed B) (static B) (sitetags B…) (tags B…)
  C20 offending                      sites of the generated table not covered by a justification
  C20 nsites                         size of the generated table
-/
def handle (args : List Sexp) : String :=
  match args with
  | [.atom "run", heap, regs, prog] =>
    match heap.asList?.bind (·.mapM Sexp.asInts?), regs.asList?.bind (·.mapM parseView),
          prog.asList?.bind (·.mapM parseInstr) with
    | some h, some r, some p =>
      let s : State := ⟨h, r⟩
      let s' := runPartial p s
      let completed := (run p s).isSome
      let t0 := initTags s
      let tags := p.foldl (fun t i => absStep i t) t0
      let out : Sexp := .list [
        .list (.atom "heap" :: s'.heap.map Sexp.ofInts),
        .list (.atom "regs" :: s'.regs.map viewSexp),
        .list [.atom "completed", Sexp.ofBool completed],
        .list [.atom "static", Sexp.ofBool (staticOK p t0)],
        .list [.atom "sitetags", boolsSexp (siteTags p t0)],
        .list [.atom "tags", boolsSexp tags]]
      "ok " ++ toString out
    | _, _, _ => "err bad-args"
  | [.atom "orun", arrs, objs, regs, prog] =>
    match arrs.asList?.bind (·.mapM Sexp.asInts?),
          objs.asList?.bind (·.mapM (fun o => o.asList?.bind (·.mapM parseSlot))),
          regs.asList?.bind (·.mapM parseVal), prog.asList?.bind (·.mapM parseOInstr) with
    | some a, some o, some r, some p =>
      let s : FV.C20.Obj.OState := ⟨a, o, r⟩
      let s' := FV.C20.Obj.orunPartial p s
      let out : Sexp := .list [
        .list (.atom "arrs" :: s'.arrs.map Sexp.ofInts),
        .list (.atom "objs" :: s'.objs.map (fun sl => Sexp.list (sl.map (fun kv => Sexp.list [Sexp.ofNat kv.1, valSexp kv.2])))),
        .list (.atom "regs" :: s'.regs.map valSexp),
        .list [.atom "completed", Sexp.ofBool (FV.C20.Obj.orun p s).isSome],
        .list [.atom "static", Sexp.ofBool (FV.C20.Obj.ostaticOK p (FV.C20.Obj.oinitTags s))]]
      "ok " ++ toString out
    | _, _, _, _ => "err bad-args"
  | [.atom "offending"] => "ok " ++ toString (Sexp.list (offending.map siteSexp))
  | [.atom "nsites"] => "ok " ++ toString writeSites.length
  | _ => "err bad-request"

end FV.Drv.C20
