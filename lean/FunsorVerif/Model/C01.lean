/-
  Model/C01.lean — positional named tensors (`NT`) and the operations of funsor/tensor.py on them.

  An `NT` is what a `funsor.Tensor` (or `Number`: no inputs, shape []) is: an ordered dictionary of
  named bounded-integer inputs (`inputs`, in `OrderedDict` order = order of the leading axes of
  `.data`), an event shape, and the array, abstracted to its index function
  `data : (batch index in `inputs` order ++ event index) → XR`.

  The operations follow funsor/tensor.py step by step on the bookkeeping that decides correctness —
  WHICH NAME ENDS UP ON WHICH AXIS — and abstract numpy's permute / reshape-with-ones / broadcast /
  advanced indexing into composition of index functions (`gather`, `readAt`).  numpy's own
  primitives are trusted at their index-level specification.

  Every operation that funsor would reject (numpy broadcast error, assertion) returns `none`.
  Core-only.
-/
import FunsorVerif.Model.Term
namespace FV.C01
open FV

/-! ### Named tensors and their value at an environment -/

structure NT where
  inputs : List (Name × Nat)
  shape : List Nat
  data : List Nat → XR

/-- The index an environment gives to the bounded-integer input `n : Bint[s]`. -/
def envIdx (env : Env) (n : Name) (s : Nat) : Option Nat :=
  match (env.lookup n).bind Sem.toNat? with
  | some i => if i < s then some i else none
  | none => none

/-- Positional batch index of `inputs` under `env` (none if some input is unbound / out of range). -/
def preOf : List (Name × Nat) → Env → Option (List Nat)
  | [], _ => some []
  | p :: rest, env =>
    match envIdx env p.1 p.2, preOf rest env with
    | some i, some is => some (i :: is)
    | _, _ => none

namespace NT
def names (t : NT) : List Name := t.inputs.map (·.1)
def sizes (t : NT) : List Nat := t.inputs.map (·.2)
/-- The event array at a batch index. -/
def row (t : NT) (pre : List Nat) : Sem := ⟨t.shape, fun ev => t.data (pre ++ ev)⟩
/-- `t.atEnv env`: the value of the tensor once its inputs are bound by `env`. -/
def atEnv (t : NT) (env : Env) : Option Sem := (preOf t.inputs env).map t.row
/-- Raw `.data` layout: row-major over input sizes then event shape. -/
def flat (t : NT) : List XR := (allIdx (t.sizes ++ t.shape)).map t.data
end NT

/-! ### Ordered dictionaries (Python `OrderedDict`) -/

/-- `d[k] = v`: an existing key keeps its position. -/
def odSet : List (Name × Nat) → Name → Nat → List (Name × Nat)
  | [], k, v => [(k, v)]
  | (k', v') :: rest, k, v => if k == k' then (k', v) :: rest else (k', v') :: odSet rest k v

/-- `d.update(e)`. -/
def odUpdate (d e : List (Name × Nat)) : List (Name × Nat) := e.foldl (fun acc p => odSet acc p.1 p.2) d

/-- `del d[k]` / `d.pop(k)`: every entry with key `k` (there is at most one). -/
def odErase (d : List (Name × Nat)) (k : Name) : List (Name × Nat) := d.filter (fun p => !(p.1 == k))

/-- Every entry of `x` is found (first occurrence, same size) in `new`. -/
def SubDict (x new : List (Name × Nat)) : Bool := x.all fun p => new.lookup p.1 == some p.2

/-- An index is inside a shape. -/
def validIdx : List Nat → List Nat → Bool
  | [], [] => true
  | i :: is, s :: ss => decide (i < s) && validIdx is ss
  | _, _ => false

/-! ### Reading an operand through names (align_tensor = permute + reshape-with-ones + broadcast) -/

/-- The coordinate that the parallel lists `names`/`idx` give to name `n` (first occurrence). -/
def lookupPos : List Name → List Nat → Name → Option Nat
  | k :: ks, i :: is, n => if n == k then some i else lookupPos ks is n
  | _, _, _ => none

/-- Coordinates of the names `xs` inside an index `idx` laid out along `newNames`. -/
def gather (newNames : List Name) (idx : List Nat) : List Name → Option (List Nat)
  | [] => some []
  | n :: ns =>
    match lookupPos newNames idx n, gather newNames idx ns with
    | some i, some is => some (i :: is)
    | _, _ => none

/-- `align_tensor(new_inputs, x)[idx ++ ev]`: the entry of `x` seen from a batch index laid out along
    `newNames` (axes of `x` permuted to that order, missing names broadcast). -/
def NT.readAt (x : NT) (newNames : List Name) (idx ev : List Nat) : XR :=
  match gather newNames idx x.names with
  | some g => x.data (g ++ ev)
  | none => XR.nan

/-- `align_tensor(new_inputs, x, expand=True)` as a tensor in its own right. -/
def alignTensor (new : List (Name × Nat)) (x : NT) : Option NT :=
  if SubDict x.inputs new then
    some ⟨new, x.shape, fun idx => x.readAt (new.map (·.1)) (idx.take new.length) (idx.drop new.length)⟩
  else none

/-- `align_tensors(a, b)`: inputs of the result (lhs inputs, then new rhs inputs). -/
def unionInputs (a b : List (Name × Nat)) : List (Name × Nat) := odUpdate a b

/-! ### Leaves -/

/-- `Tensor(data, inputs, dtype)` from its row-major data. -/
def ofTensor (inputs : List (Name × Nat)) (shape : List Nat) (data : Array XR) : NT :=
  ⟨inputs, shape, fun idx => match ravel (inputs.map (·.2) ++ shape) idx with
    | some k => data.getD k XR.nan
    | none => XR.nan⟩

/-- `Number(v)`. -/
def ofNumber (v : XR) : NT := ⟨[], [], fun _ => v⟩

/-! ### Pointwise ops (Tensor.eager_unary, eager_binary_tensor_tensor / _tensor_number / _number_tensor) -/

/- `invert`, `and`, `or`, `xor` are bitwise on integers and undefined on floats (Model/Term.lean): not
   total, hence not in these statically-total lists; they are compared against `denote` by the harness. -/
def pointwiseUn : List String := ["neg", "pos", "abs", "not"]
def pointwiseBin : List String :=
  ["add", "sub", "mul", "max", "min", "eq", "ne", "lt", "le", "gt", "ge"]

def unary (op : String) (a : NT) : Option NT :=
  if pointwiseUn.contains op then
    some ⟨a.inputs, a.shape, fun idx => (unop op (a.data idx)).getD XR.nan⟩
  else none

/-- `inputs` of a binary result: lhs.inputs if both are equal, else `align_tensors` (lhs first). -/
def unionIns (a b : List (Name × Nat)) : List (Name × Nat) :=
  if a == b then a else unionInputs a b

def binInputs (a b : NT) : List (Name × Nat) := unionIns a.inputs b.inputs

/-- eager_binary_tensor_tensor: inputs = lhs.inputs if equal, else align_tensors (union, lhs first);
    the lower-rank event shape gets ones inserted after the batch axes, then numpy broadcasts. -/
def binary (op : String) (a b : NT) : Option NT :=
  let u := binInputs a b
  if pointwiseBin.contains op && SubDict a.inputs u && SubDict b.inputs u then
    match broadcastShapes a.shape b.shape with
    | none => none
    | some sh =>
      some ⟨u, sh, fun idx =>
        let pre := idx.take u.length
        let ev := idx.drop u.length
        (binop op (a.readAt (u.map (·.1)) pre (bcastIdx a.shape ev))
                  (b.readAt (u.map (·.1)) pre (bcastIdx b.shape ev))).getD XR.nan⟩
  else none

/-- `a.atEnv` under each environment of a list (the counterpart of `denoteAll`). -/
def atAll (a : NT) : List Env → Option (List Sem)
  | [] => some []
  | e :: es =>
    match a.atEnv e, atAll a es with
    | some v, some vs => some (v :: vs)
    | _, _ => none

/-! ### Reductions over named inputs (terms.eager_reduce → _reduce_unrelated_vars → Tensor.eager_reduce) -/

def reduceOps : List String := ["add", "mul", "max", "min"]

/-- Tensor.eager_reduce for variables that are all inputs of `a`: the reduced axes disappear, the
    others keep their relative order.  The fold runs over all index tuples of the reduced axes
    (numpy sums the axes at once; the order is immaterial for exact data and is taken as the order
    of `vars`). -/
def reduce (op : String) (vars : List (Name × Nat)) (a : NT) : Option NT :=
  let keep := a.inputs.filter (fun p => !(vars.map (·.1)).contains p.1)
  if reduceOps.contains op && SubDict a.inputs (vars ++ keep) && vars.all (fun p => decide (0 < p.2)) then
    some ⟨keep, a.shape, fun idx =>
      let pre := idx.take keep.length
      let ev := idx.drop keep.length
      (foldOp op ((allIdx (vars.map (·.2))).map fun asg =>
        a.readAt (vars.map (·.1) ++ keep.map (·.1)) (asg ++ pre) ev)).getD XR.nan⟩
  else none

/-- `x ⊗̂ m`: `m` copies of `x` folded with `op` (terms._reduce_unrelated_vars after the fix):
    add ↦ x·m (PRODUCT_TO_POWER[add] = mul), mul ↦ x**m, idempotent max/min ↦ x. -/
def npow (x : XR) : Nat → XR
  | 0 => 1
  | n + 1 => XR.mul (npow x n) x

def scale (op : String) (m : Nat) (x : XR) : XR :=
  match op with
  | "add" => XR.mul x (XR.fin (m : Rat))
  | "mul" => npow x m
  | _ => x

/-- terms.eager_reduce: variables the argument does not mention only contribute their multiplicity. -/
def eagerReduce (op : String) (vars : List (Name × Nat)) (a : NT) : Option NT :=
  let present := vars.filter (fun p => a.names.contains p.1)
  let absent := vars.filter (fun p => !a.names.contains p.1)
  if absent.isEmpty then reduce op present a
  else if vars.all (fun p => decide (0 < p.2)) then
    let m := prodList (absent.map (·.2))
    reduce op present ⟨a.inputs, a.shape, fun idx => scale op m (a.data idx)⟩
  else none

/-! ### Substitution of numbers (Tensor.eager_subs, integer index branch) -/

/-- `a(k1=i1, …)` with python ints: advanced indexing by an integer drops the axis. -/
def subsNum (σ : List (Name × Nat)) (a : NT) : Option NT :=
  -- (name, index, size of that input) for the substituted names that are inputs of `a`
  let hit := σ.filterMap fun p => (a.inputs.lookup p.1).map fun s => (p.1, p.2, s)
  let keep := a.inputs.filter (fun p => !(hit.map (·.1)).contains p.1)
  let hitSized := hit.map fun h => (h.1, h.2.2)
  if SubDict a.inputs (hitSized ++ keep) && validIdx (hit.map (·.2.1)) (hit.map (·.2.2)) then
    some ⟨keep, a.shape, fun idx =>
      a.readAt (hit.map (·.1) ++ keep.map (·.1)) (hit.map (·.2.1) ++ idx.take keep.length) (idx.drop keep.length)⟩
  else none

/-! ### Stack, Lambda, getitem -/

def unionAll (parts : List NT) : List (Name × Nat) := parts.foldl (fun acc p => odUpdate acc p.inputs) []

/-- eager_stack_homogeneous: new leading input `name : Bint[len parts]`, then the union of the parts'
    inputs; each part aligned and expanded to that union. -/
def stack (name : Name) (parts : List NT) : Option NT :=
  match parts with
  | [] => none
  | p0 :: _ =>
    let u := unionAll parts
    if parts.all (fun p => SubDict p.inputs u && p.shape == p0.shape && !p.names.contains name) then
      some ⟨(name, parts.length) :: u, p0.shape, fun idx =>
        match idx with
        | [] => XR.nan
        | i :: rest =>
          match parts[i]? with
          | some p => p.readAt (u.map (·.1)) (rest.take u.length) (rest.drop u.length)
          | none => XR.nan⟩
    else none

/-- eager_lambda: a bound input becomes the first event axis (moved behind the remaining batch
    axes); an input the body does not have is broadcast. -/
def lambda (name : Name) (size : Nat) (a : NT) : Option NT :=
  if size = 0 then none else
  if a.names.contains name then
    let keep := odErase a.inputs name
    if SubDict a.inputs (keep ++ [(name, size)]) then
      some ⟨keep, size :: a.shape, fun idx =>
        match idx.drop keep.length with
        | [] => XR.nan
        | i :: ev => if i < size then a.readAt (keep.map (·.1) ++ [name]) (idx.take keep.length ++ [i]) ev else XR.nan⟩
    else none
  else
    some ⟨a.inputs, size :: a.shape, fun idx =>
      match idx.drop a.inputs.length with
      | [] => XR.nan
      | i :: ev => if i < size then a.data (idx.take a.inputs.length ++ ev) else XR.nan⟩

/-- eager_cat_homogeneous: `inputs = OrderedDict([(part_name, None)])` updated by every part's inputs;
    every part is aligned with `part_name` as the LEADING axis (its own size) and expanded, the data are
    concatenated along that axis, `part_name` is deleted and `name : Bint[Σ sizes]` put in front.  -/
def cat (name partName : Name) (parts : List NT) : Option NT :=
  match parts with
  | [] => none
  | p0 :: _ =>
    let rest := odErase (parts.foldl (fun acc p => odUpdate acc p.inputs) [(partName, 0)]) partName
    match parts.mapM (fun p => p.inputs.lookup partName) with
    | none => none
    | some sizes =>
      if parts.all (fun p => p.shape == p0.shape) &&
          (parts.zip sizes).all (fun ps => SubDict ps.1.inputs ((partName, ps.2) :: rest)) &&
          !(rest.map (·.1)).contains name then
        some ⟨(name, sizes.foldl (· + ·) 0) :: rest, p0.shape, fun idx =>
          match idx with
          | [] => XR.nan
          | g :: tail =>
            match locate sizes g 0 with
            | none => XR.nan
            | some (k, loc) =>
              match parts[k]? with
              | some p => p.readAt (partName :: rest.map (·.1)) (loc :: tail.take rest.length) (tail.drop rest.length)
              | none => XR.nan⟩
      else none

/-- The sizes of `partName` in the parts, as `Cat.__init__` reads them. -/
def catSizes (partName : Name) (parts : List NT) : Option (List Nat) :=
  parts.mapM (fun p => p.inputs.lookup partName)

def xrToNat? : XR → Option Nat
  | XR.fin q => if q.den = 1 ∧ 0 ≤ q.num then some q.num.toNat else none
  | _ => none

/-- eager_getitem_tensor_number / eager_getitem_tensor_tensor: `a[..., b, ...]` at event axis
    `offset`, the index tensor aligned on the union of the inputs (advanced indexing). -/
def getitem (offset : Nat) (a b : NT) : Option NT :=
  let u := binInputs a b
  match a.shape[offset]? with
  | none => none
  | some d =>
    if b.shape == [] && SubDict a.inputs u && SubDict b.inputs u &&
        (allIdx b.sizes).all (fun i => match xrToNat? (b.data i) with
          | some k => decide (k < d)
          | none => false) then
      some ⟨u, a.shape.take offset ++ a.shape.drop (offset + 1), fun idx =>
        let pre := idx.take u.length
        let ev := idx.drop u.length
        match xrToNat? (b.readAt (u.map (·.1)) pre []) with
        | some k => a.readAt (u.map (·.1)) pre (ev.take offset ++ [k] ++ ev.drop offset)
        | none => XR.nan⟩
    else none

/-! ### Uninterpreted pointwise functions (exp, log, sigmoid, sqrt, tanh, … : `Tensor.eager_unary`)

  `Tensor.eager_unary(op)` is `Tensor(op(self.data), self.inputs, dtype)`: the numpy scalar function
  is applied entrywise and nothing else changes.  The scalar function itself is not modelled: it is a
  PARAMETER `φ : XR → XR`, and everything structural (inputs, alignment, broadcasting, reductions of
  the result) is proved for every `φ` (Props/C01/Phi.lean). -/

def mapData (φ : XR → XR) (a : NT) : NT := ⟨a.inputs, a.shape, fun idx => φ (a.data idx)⟩

/-- Entrywise application on a semantic value. -/
def semMap (φ : XR → XR) (s : Sem) : Sem := ⟨s.shape, fun i => φ (s.get i)⟩

/-! ### Operations on the output (event) axes: eager_reduction_tensor, eager_reshape_tensor, eager_getslice_tensor

  These act on every batch row alike (`op(arg.data, axis=negative axes)`, `data.reshape(batch_shape + shape)`,
  `data[(slice(None),) * len(inputs) + index]`): the named inputs are untouched and the event part is
  transformed by the specification-level function of Model/Term.lean.  What the model adds is the
  bookkeeping that keeps the event axes apart from the batch axes: reductions address the event axes
  by NEGATIVE positions (`axis % ndims - ndims`). -/

/-- Apply an event-level function to every row; the result shape is read off a probe row (it must
    not depend on the data: `ShapeOnly` in Props/C01/Rows.lean). -/
def mapRows (f : Sem → Option Sem) (a : NT) : Option NT :=
  match f (a.row (a.inputs.map fun _ => 0)) with
  | none => none
  | some probe =>
    some ⟨a.inputs, probe.shape, fun idx =>
      match f (a.row (idx.take a.inputs.length)) with
      | some s => s.get (idx.drop a.inputs.length)
      | none => XR.nan⟩

/-- eager_reshape_tensor (without the `arg.shape == shape` shortcut, which returns the same value). -/
def reshape (newShape : List Nat) (a : NT) : Option NT := mapRows (fun s => s.reshape newShape) a

/-- eager_reshape_tensor WITH its shortcut `if arg.shape == shape: return arg`. -/
def reshapeS (newShape : List Nat) (a : NT) : Option NT :=
  if a.shape == newShape then some a else reshape newShape a

/-- eager_getslice_tensor: basic indexing of the leading event axes. -/
def getslice (items : List IdxItem) (a : NT) : Option NT := mapRows (fun s => s.getslice items) a

def outReduceOps : List String := ["add", "mul", "max", "min"]

/-- `axis % ndims - ndims`, as a (negative) position counted from the end of the full data array. -/
def negAxis (ndims : Nat) (d : Int) : Int := d % (ndims : Int) - (ndims : Int)

def axisValid (ndims : Nat) (d : Int) : Bool := decide (-(ndims : Int) ≤ d ∧ d < (ndims : Int))

/-- eager_reduction_tensor (sum/prod/amax/amin/all/any with axis, keepdims), its three branches:
    scalar output (unsqueeze, reduce the temporary axis: only `axis=None` is meaningful);
    no inputs (`op(arg.data)` with the op's own parameters); batch inputs (negative axes). -/
def reductionAxis (base : String) (axes : Option (List Int)) (keep : Bool) (a : NT) : Option NT :=
  if !outReduceOps.contains base then none
  else if a.shape.isEmpty then
    match axes with
    | none => mapRows (fun s => s.reduceAxes base none keep) a
    | some _ => none
  else if a.inputs.isEmpty then
    mapRows (fun s => s.reduceAxes base axes keep) a
  else
    match axes with
    | none => mapRows (fun s => s.reduceAxes base none keep) a
    | some l =>
      if l.all (axisValid a.shape.length) then
        mapRows (fun s => s.reduceAxes base (some (l.map (negAxis a.shape.length))) keep) a
      else none

/-! ### Substitution of integer-valued funsors (Tensor.eager_subs, general case)

  `a(k1=v1, …)` where each value is a `Number`, a `Variable`/`Slice` (an arange tensor over its own
  input — what `Tensor.materialize` builds) or an index `Tensor`.  The value-level behaviour of all of
  eager_subs' passes (diagonal materialisation, renaming, slicing, advanced indexing) is advanced
  indexing by the aligned values; the renaming/slicing passes are layout-preserving shortcuts of it
  (their pass-by-pass model with the collision handling is C04's: Model/C04/NT.lean).  The result
  inputs are the advanced-indexing ones: each substituted input is replaced, in place, by the inputs
  of its value (`inputs.update(subs[k].inputs)`). -/

/-- `Variable(m, Bint[s])` (start 0, step 1) / `Slice(m, start, stop, step)` as an index tensor. -/
def rangeNT (m : Name) (start step len : Nat) : NT :=
  ⟨[(m, len)], [], fun idx => match idx with
    | [i] => XR.fin ((start + step * i : Nat) : Rat)
    | _ => XR.nan⟩

/-- Every entry of an index tensor is a natural number below `d`. -/
def idxCheck (v : NT) (d : Nat) : Bool :=
  v.shape == [] && (allIdx v.sizes).all (fun i => match xrToNat? (v.data i) with
    | some k => decide (k < d)
    | none => false)

def subsInputs (ins : List (Name × Nat)) (σ : List (Name × NT)) : List (Name × Nat) :=
  ins.foldl (fun acc p => match σ.lookup p.1 with
    | some v => odUpdate acc v.inputs
    | none => odSet acc p.1 p.2) []

/-- Coordinate of the input `n` of `a` seen from a batch index `pre` laid out along `uNames`:
    the value of its substitute there, or (unsubstituted) its own coordinate. -/
def subsCoord (σ : List (Name × NT)) (uNames : List Name) (pre : List Nat) (n : Name) : Option Nat :=
  match σ.lookup n with
  | some v => xrToNat? (v.readAt uNames pre [])
  | none => lookupPos uNames pre n

def subsCoords (σ : List (Name × NT)) (uNames : List Name) (pre : List Nat) :
    List (Name × Nat) → Option (List Nat)
  | [] => some []
  | p :: rest =>
    match subsCoord σ uNames pre p.1, subsCoords σ uNames pre rest with
    | some c, some cs => some (c :: cs)
    | _, _ => none

def subsGen (σ : List (Name × NT)) (a : NT) : Option NT :=
  let u := subsInputs a.inputs σ
  if decide ((σ.map (·.1)).Nodup) && σ.all (fun q => a.names.contains q.1 && SubDict q.2.inputs u) &&
     a.inputs.all (fun p => match σ.lookup p.1 with
        | some v => idxCheck v p.2
        | none => u.lookup p.1 == some p.2) then
    some ⟨u, a.shape, fun idx =>
      match subsCoords σ (u.map (·.1)) (idx.take u.length) a.inputs with
      | some coords => a.data (coords ++ idx.drop u.length)
      | none => XR.nan⟩
  else none

/-! ### einsum on the output axes (tensor.eager_einsum over numpy's einsum)

  `eager_einsum` gives every named input a FRESH einsum symbol (opt_einsum.get_symbol, skipping the
  equation's own letters), prefixes each operand's subscript with the symbols of ITS inputs in ITS
  order, and the output subscript with the symbols of the union inputs in union order; then calls
  numpy's einsum on the raw data.  Symbols are modelled as `Sym`: `batch name` (fresh by
  construction, one per name) or `letter c`. -/

inductive Sym where
  | batch (n : Name)
  | letter (c : Char)
  deriving DecidableEq, Repr

/-- The coordinate the parallel lists `syms`/`idx` give to a symbol (first occurrence). -/
def symLookup : List Sym → List Nat → Sym → Option Nat
  | k :: ks, i :: is, s => if s = k then some i else symLookup ks is s
  | _, _, _ => none

def charLookup : List Char → List Nat → Char → Option Nat
  | k :: ks, i :: is, c => if c = k then some i else charLookup ks is c
  | _, _, _ => none

/-- Product of the operand entries (left fold, as `reduce(mul, …)`). -/
def prodXR : List XR → XR
  | [] => 1
  | v :: vs => vs.foldl XR.mul v

/-- One operand's entry addressed through its subscript. -/
def symRead (syms : List Sym) (idx : List Nat) (so : List Sym × (List Nat → XR)) : XR :=
  match so.1.mapM (symLookup syms idx) with
  | some i => so.2 i
  | none => XR.nan

def charRead (ls : List Char) (idx : List Nat) (vi : Sem × List Char) : XR :=
  match vi.2.mapM (charLookup ls idx) with
  | some i => vi.1.get i
  | none => XR.nan

/-- numpy `einsum(subs -> out)` at the output index `idx`: sum over all assignments of the contracted
    symbols of the product of the operand entries addressed through their subscripts. -/
def npEinsum (subs : List (List Sym)) (out contracted : List Sym) (csizes : List Nat)
    (ops : List (List Nat → XR)) (idx : List Nat) : XR :=
  (foldOp "add" ((allIdx csizes).map fun asg =>
    prodXR ((subs.zip ops).map (symRead (out ++ contracted) (idx ++ asg))))).getD XR.nan

/-- eager_einsum: `ins` = the operands' event subscripts, `outL` the output subscript, `contracted` the
    summed letters with their sizes, `outShape` the result's event shape. -/
def einsumNT (ins : List (List Char)) (outL contracted : List Char) (csizes outShape : List Nat)
    (xs : List NT) : Option NT :=
  let u := unionAll xs
  if xs.all (fun x => SubDict x.inputs u) && ins.length == xs.length then
    some ⟨u, outShape, fun idx =>
      npEinsum ((xs.zip ins).map fun xi => xi.1.names.map Sym.batch ++ xi.2.map Sym.letter)
        (u.map (fun p => Sym.batch p.1) ++ outL.map Sym.letter) (contracted.map Sym.letter) csizes
        (xs.map (·.data)) idx⟩
  else none

/-- Textbook einsum on event arrays (the specification `einsum_sem` is stated against). -/
def semEinsum (ins : List (List Char)) (outL contracted : List Char) (csizes outShape : List Nat)
    (vals : List Sem) : Sem :=
  ⟨outShape, fun oi =>
    (foldOp "add" ((allIdx csizes).map fun asg =>
      prodXR ((vals.zip ins).map (charRead (outL ++ contracted) (oi ++ asg))))).getD XR.nan⟩

/-! ### Output-axis reductions with an arbitrary aggregate (mean, std, var, logsumexp, any, all, …)

  `Sem.reduceAxes` (Model/Term.lean) folds an associative op; the remaining reduction ops of
  ops/array.py are not folds.  Here the aggregate `agg : List XR → XR` (what numpy computes from the
  entries of one reduced block, in row-major order) is a PARAMETER; the bookkeeping — which entries form a
  block, negative axes in the batched branch, the scalar branch (`unsqueeze(-1)` then reduce that axis:
  the block is the ONE-element collection `[x]`) — is modelled and proved for every `agg`. -/

def reduceAxesWith (agg : List XR → XR) (s : Sem) (axes : Option (List Int)) (keepdims : Bool) : Option Sem :=
  let rank := s.shape.length
  let axs? : Option (List Nat) := match axes with
    | none => some (List.range rank)
    | some l => l.mapM (normAxis rank)
  match axs? with
  | none => none
  | some axs =>
    let keepMask := (List.range rank).map (fun d => !axs.contains d)
    let outShape := (s.shape.zip keepMask).filterMap (fun (d, k) => if k then some d else if keepdims then some 1 else none)
    let redShape := (s.shape.zip keepMask).filterMap (fun (d, k) => if k then none else some d)
    let build (oi ri : List Nat) : List Nat :=
      let oi' := if keepdims then (oi.zip keepMask).filterMap (fun (i, k) => if k then some i else none) else oi
      let rec go : List Bool → List Nat → List Nat → List Nat
        | [], _, _ => []
        | true :: ms, o :: os, rs => o :: go ms os rs
        | false :: ms, os, r :: rs => r :: go ms os rs
        | _ :: _, _, _ => []
      go keepMask oi' ri
    some ⟨outShape, fun oi => agg ((allIdx redShape).map (fun ri => s.get (build oi ri)))⟩

/-- eager_reduction_tensor for an arbitrary reduction op (same three branches as `reductionAxis`). -/
def reductionAxisWith (agg : List XR → XR) (axes : Option (List Int)) (keep : Bool) (a : NT) : Option NT :=
  if a.shape.isEmpty then
    match axes with
    | none => mapRows (fun s => reduceAxesWith agg s none keep) a
    | some _ => none
  else if a.inputs.isEmpty then
    mapRows (fun s => reduceAxesWith agg s axes keep) a
  else
    match axes with
    | none => mapRows (fun s => reduceAxesWith agg s none keep) a
    | some l =>
      if l.all (axisValid a.shape.length) then
        mapRows (fun s => reduceAxesWith agg s (some (l.map (negAxis a.shape.length))) keep) a
      else none

/-- Named reduction with an arbitrary aggregate (`Funsor.reduce` for ops.mean / var / std, and any other
    aggregate): the block of a result entry is the list of the argument's entries over ALL assignments of the
    requested variables, in row-major order; a requested variable the argument does not mention simply
    replicates the entries. -/
def reduceNamedWith (agg : List XR → XR) (vars : List (Name × Nat)) (a : NT) : Option NT :=
  let keep := a.inputs.filter (fun p => !(vars.map (·.1)).contains p.1)
  if SubDict a.inputs (vars ++ keep) && vars.all (fun p => decide (0 < p.2)) then
    some ⟨keep, a.shape, fun idx => agg ((allIdx (vars.map (·.2))).map fun asg =>
      a.readAt (vars.map (·.1) ++ keep.map (·.1)) (asg ++ idx.take keep.length) (idx.drop keep.length))⟩
  else none

/-- numpy `any` / `all` as aggregates: truth values, whatever the data. -/
def aggAny (l : List XR) : XR := boolXR (l.any XR.truthy)
def aggAll (l : List XR) : XR := boolXR (l.all XR.truthy)

/-! ### The partial evaluator: eager interpretation on ground terms

  `peval t` applies, bottom-up, the eager rule that dispatch selects when every operand is already a
  `Tensor`/`Number`; anything else (free variables, operations outside the exact fragment, shapes
  numpy would reject) is `none` = "left lazy / declined". -/

def varSize : Name × Dom → Option (Name × Nat)
  | (n, ⟨DType.bint k, []⟩) => some (n, k)
  | _ => none

/-- Reduced variables as (name, size); only scalar bounded-integer variables. -/
def varsSizes (vars : List (Name × Dom)) : Option (List (Name × Nat)) := vars.mapM varSize

def subNum : Name × Term → Option (Name × Nat)
  | (k, Term.num v _) => (xrToNat? v).map fun i => (k, i)
  | _ => none

/-- A substitution all of whose values are integer `Number`s. -/
def subsNums (σ : List (Name × Term)) : Option (List (Name × Nat)) := σ.mapM subNum

def getitemOffset (op : Op) : Nat := ((paramOf op.params "offset").bind Sexp.asNat?).getD 0

/-- axis / keepdims of a reduction op, decoded exactly as `evalUnary` does (`none`: malformed). -/
def redArgs (op : Op) : Option (Option (List Int) × Bool) :=
  let keep := match paramOf op.params "keepdims" with
    | some b => (b.asBool?).getD false
    | none => false
  match paramOf op.params "axis" with
  | some (Sexp.atom "none") => some (none, keep)
  | none => some (none, keep)
  | some (Sexp.atom a) => (a.toInt?.map (fun i => [i])).map fun ax => (some ax, keep)
  | some l => (sexpInts? l).map fun ax => (some ax, keep)

/-- Unary dispatch: output-axis reductions, reshape, getslice, else pointwise. -/
def unaryOp (op : Op) (a : NT) : Option NT :=
  match reductionOps.lookup op.name with
  | some base =>
    match redArgs op with
    | some (axes, keep) => reductionAxis base axes keep a
    | none => none
  | none =>
    if op.name == "reshape" then
      match (paramOf op.params "shape").bind Sexp.asNats? with
      | some sh => reshape sh a
      | none => none
    else if op.name == "getslice" then
      match (paramOf op.params "index").bind parseIdxItems with
      | some items => getslice items a
      | none => none
    else unary op.name a

def binaryOp (op : Op) (a b : NT) : Option NT :=
  if op.name == "getitem" then getitem (getitemOffset op) a b else binary op.name a b

mutual
  def peval : Term → Option NT
    | Term.num v _ => some (ofNumber v)
    | Term.tensor inputs dom data => some (ofTensor inputs dom.shape data)
    | Term.unary op a =>
      match peval a with
      | some ra => unaryOp op ra
      | none => none
    | Term.binary op l r =>
      if op.name == "getitem" then
        match peval l, pevalIdx r with
        | some a, some b => getitem (getitemOffset op) a b
        | _, _ => none
      else
        match peval l, peval r with
        | some a, some b => binary op.name a b
        | _, _ => none
    | Term.reduce op a vars =>
      match peval a, varsSizes vars with
      | some ra, some vs => eagerReduce op vs ra
      | _, _ => none
    | Term.subs a σ =>
      match peval a with
      | none => none
      | some ra =>
        match subsNums σ with
        | some σn => subsNum σn ra
        | none =>
          match pevalSubs σ with
          | some σv => subsGen σv ra
          | none => none
    | Term.stack n parts =>
      match pevalList parts with
      | some rs => stack n rs
      | none => none
    | Term.lambda n size body =>
      match peval body with
      | some rb => lambda n size rb
      | none => none
    | Term.cat n pn sizes parts =>
      match pevalList parts with
      | some rs => if catSizes pn rs == some sizes then cat n pn rs else none
      | none => none
    | _ => none
  def pevalList : List Term → Option (List NT)
    | [] => some []
    | t :: ts =>
      match peval t, pevalList ts with
      | some r, some rs => some (r :: rs)
      | _, _ => none
  /-- An integer-valued funsor used as an index / substitution value: a `Variable` or `Slice`
      is the arange over its input (they are not `Tensor`s, but every eager rule that consumes an
      index treats them so), anything else is evaluated. -/
  def pevalIdx : Term → Option NT
    | Term.var m ⟨DType.bint s, []⟩ => some (rangeNT m 0 1 s)
    | Term.slice m start stop step _ => some (rangeNT m start step (sliceLen start stop step))
    | Term.num v _ => some (ofNumber v)
    | Term.tensor i d x => some (ofTensor i d.shape x)
    | Term.stack n parts =>
      match pevalList parts with
      | some rs => stack n rs
      | none => none
    | _ => none
  def pevalSubs : List (Name × Term) → Option (List (Name × NT))
    | [] => some []
    | (k, t) :: rest =>
      match pevalIdx t, pevalSubs rest with
      | some v, some vs => some ((k, v) :: vs)
      | _, _ => none
end

/-! ### Independent (diagonal extraction)

  `Independent(fn, reals_var, bint_var, diag_var)` stays lazy until `reals_var` is bound; then
  `Independent.eager_subs` evaluates `Subs(fn, diag_var -> value[bint_var]).reduce(ops.add, bint_var)`:
  `value[bint_var]` (eager_getitem_tensor_variable) turns the leading event axis of the value into the
  named input `bint_var`, the body is evaluated with `diag_var` bound to that tensor, and the named input
  is summed out.  `pevalR` is eager evaluation of a binder-free pointwise body in which one real
  variable is bound to a tensor. -/

def pevalR (dv : Name) (w : NT) : Term → Option NT
  | Term.var n _ => if n == dv then some w else none
  | Term.num v _ => some (ofNumber v)
  | Term.tensor inputs dom data => some (ofTensor inputs dom.shape data)
  | Term.unary op a =>
    match pevalR dv w a with
    | some ra => unaryOp op ra
    | none => none
  | Term.binary op l r =>
    if op.name == "getitem" then none else
    match pevalR dv w l, pevalR dv w r with
    | some a, some b => binary op.name a b
    | _, _ => none
  | _ => none

def pevalIndependent (fn : Term) (rv bv dv : Name) (size : Nat) (v : NT) : Option NT :=
  if dv == bv || v.names.contains dv || v.names.contains bv || v.names.contains rv then none else
  match getitem 0 v (rangeNT bv 0 1 size) with
  | none => none
  | some w =>
    match pevalR dv w fn with
    | none => none
    | some f =>
      if f.names.contains dv || f.names.contains rv then none
      else eagerReduce "add" [(bv, size)] f

/-! ### Static typing of the core fragment

  `typeOf t` computes, without looking at any data, the ordered inputs and the event shape that the
  eager result of `t` has (mirroring `Funsor.__init__`'s input-union typing), or `none` when `t` is
  outside the *core fragment*: ground expressions built from tensors, numbers, pointwise
  unary/binary ops, reductions (add/mul/max/min, present or absent variables), substitution of
  integer numbers, Stack and Lambda.  `Props/C01/Total.lean` proves that on this fragment `peval`
  always completes (`peval_total_core`). -/

abbrev Ty := List (Name × Nat) × List Nat

/-- Shape of a row-wise operation, read off a zero array (the operations are `ShapeOnly`). -/
def tyMapRows (f : Sem → Option Sem) (a : Ty) : Option Ty :=
  (f ⟨a.2, fun _ => 0⟩).map fun s => (a.1, s.shape)

def tyReductionAxis (base : String) (axes : Option (List Int)) (keep : Bool) (a : Ty) : Option Ty :=
  if !outReduceOps.contains base then none
  else if a.2.isEmpty then
    match axes with
    | none => tyMapRows (fun s => s.reduceAxes base none keep) a
    | some _ => none
  else if a.1.isEmpty then
    tyMapRows (fun s => s.reduceAxes base axes keep) a
  else
    match axes with
    | none => tyMapRows (fun s => s.reduceAxes base none keep) a
    | some l =>
      if l.all (axisValid a.2.length) then
        tyMapRows (fun s => s.reduceAxes base (some (l.map (negAxis a.2.length))) keep) a
      else none

def tyUnary (op : Op) (a : Ty) : Option Ty :=
  match reductionOps.lookup op.name with
  | some base =>
    match redArgs op with
    | some (axes, keep) => tyReductionAxis base axes keep a
    | none => none
  | none =>
    if op.name == "reshape" then
      match (paramOf op.params "shape").bind Sexp.asNats? with
      | some sh => tyMapRows (fun s => s.reshape sh) a
      | none => none
    else if op.name == "getslice" then
      match (paramOf op.params "index").bind parseIdxItems with
      | some items => tyMapRows (fun s => s.getslice items) a
      | none => none
    else if pointwiseUn.contains op.name then some a else none

def tyBinary (op : Op) (a b : Ty) : Option Ty :=
  let u := unionIns a.1 b.1
  if op.name != "getitem" && pointwiseBin.contains op.name && SubDict a.1 u && SubDict b.1 u then
    (broadcastShapes a.2 b.2).map fun sh => (u, sh)
  else none

def tyReduce1 (op : String) (vars : List (Name × Nat)) (a : Ty) : Option Ty :=
  let keep := a.1.filter (fun p => !(vars.map (·.1)).contains p.1)
  if reduceOps.contains op && SubDict a.1 (vars ++ keep) && vars.all (fun p => decide (0 < p.2)) then
    some (keep, a.2)
  else none

def tyReduce (op : String) (vars : List (Name × Nat)) (a : Ty) : Option Ty :=
  let present := vars.filter (fun p => (a.1.map (·.1)).contains p.1)
  let absent := vars.filter (fun p => !(a.1.map (·.1)).contains p.1)
  if absent.isEmpty then tyReduce1 op present a
  else if vars.all (fun p => decide (0 < p.2)) then tyReduce1 op present a
  else none

def tySubsNum (σ : List (Name × Nat)) (a : Ty) : Option Ty :=
  let hit := σ.filterMap fun p => (a.1.lookup p.1).map fun s => (p.1, p.2, s)
  let keep := a.1.filter (fun p => !(hit.map (·.1)).contains p.1)
  let hitSized := hit.map fun h => (h.1, h.2.2)
  if SubDict a.1 (hitSized ++ keep) && validIdx (hit.map (·.2.1)) (hit.map (·.2.2)) then some (keep, a.2)
  else none

def tyUnionAll (parts : List Ty) : List (Name × Nat) := parts.foldl (fun acc p => odUpdate acc p.1) []

def tyStack (name : Name) (parts : List Ty) : Option Ty :=
  match parts with
  | [] => none
  | p0 :: _ =>
    let u := tyUnionAll parts
    if parts.all (fun p => SubDict p.1 u && p.2 == p0.2 && !(p.1.map (·.1)).contains name) then
      some ((name, parts.length) :: u, p0.2)
    else none

def tyLambda (name : Name) (size : Nat) (a : Ty) : Option Ty :=
  if size = 0 then none else
  if (a.1.map (·.1)).contains name then
    let keep := odErase a.1 name
    if SubDict a.1 (keep ++ [(name, size)]) then some (keep, size :: a.2) else none
  else some (a.1, size :: a.2)

/-- Index / substitution values the static typing accepts: leaves only (a `Variable`/`Slice` as its
    arange, a `Number`, an index `Tensor`).  Their range condition (`idxCheck`: every entry below the size
    of the axis it indexes — implied by "index dtype size ≤ axis size" for a leaf whose data respect
    its dtype) is a typing side condition read off the leaf itself. -/
def idxLeaf : Term → Option NT
  | Term.var m ⟨DType.bint s, []⟩ => some (rangeNT m 0 1 s)
  | Term.slice m start stop step _ => some (rangeNT m start step (sliceLen start stop step))
  | Term.num v _ => some (ofNumber v)
  | Term.tensor i d x => some (ofTensor i d.shape x)
  | _ => none

def idxLeaves : List (Name × Term) → Option (List (Name × NT))
  | [] => some []
  | (k, t) :: rest =>
    match idxLeaf t, idxLeaves rest with
    | some v, some vs => some ((k, v) :: vs)
    | _, _ => none

def tyGetitem (offset : Nat) (a : Ty) (b : NT) : Option Ty :=
  let u := unionIns a.1 b.inputs
  match a.2[offset]? with
  | none => none
  | some d =>
    if b.shape == [] && SubDict a.1 u && SubDict b.inputs u &&
        (allIdx b.sizes).all (fun i => match xrToNat? (b.data i) with
          | some k => decide (k < d)
          | none => false) then
      some (u, a.2.take offset ++ a.2.drop (offset + 1))
    else none

def tySubsGen (σ : List (Name × NT)) (a : Ty) : Option Ty :=
  let u := subsInputs a.1 σ
  if decide ((σ.map (·.1)).Nodup) && σ.all (fun q => (a.1.map (·.1)).contains q.1 && SubDict q.2.inputs u) &&
     a.1.all (fun p => match σ.lookup p.1 with
        | some v => idxCheck v p.2
        | none => u.lookup p.1 == some p.2) then
    some (u, a.2)
  else none

def tyCat (name partName : Name) (parts : List Ty) : Option Ty :=
  match parts with
  | [] => none
  | p0 :: _ =>
    let rest := odErase (parts.foldl (fun acc p => odUpdate acc p.1) [(partName, 0)]) partName
    match parts.mapM (fun p => p.1.lookup partName) with
    | none => none
    | some sizes =>
      if parts.all (fun p => p.2 == p0.2) &&
          (parts.zip sizes).all (fun ps => SubDict ps.1.1 ((partName, ps.2) :: rest)) &&
          !(rest.map (·.1)).contains name then
        some ((name, sizes.foldl (· + ·) 0) :: rest, p0.2)
      else none

def tyCatSizes (partName : Name) (parts : List Ty) : Option (List Nat) :=
  parts.mapM (fun p => p.1.lookup partName)

mutual
  def typeOf : Term → Option Ty
    | Term.num _ _ => some ([], [])
    | Term.tensor inputs dom _ => some (inputs, dom.shape)
    | Term.unary op a =>
      match typeOf a with
      | some ta => tyUnary op ta
      | none => none
    | Term.binary op l r =>
      if op.name == "getitem" then
        match typeOf l, idxLeaf r with
        | some a, some b => tyGetitem (getitemOffset op) a b
        | _, _ => none
      else
        match typeOf l, typeOf r with
        | some a, some b => tyBinary op a b
        | _, _ => none
    | Term.reduce op a vars =>
      match typeOf a, varsSizes vars with
      | some ta, some vs => tyReduce op vs ta
      | _, _ => none
    | Term.subs a σ =>
      match typeOf a with
      | none => none
      | some ta =>
        match subsNums σ with
        | some σn => tySubsNum σn ta
        | none =>
          match idxLeaves σ with
          | some σv => tySubsGen σv ta
          | none => none
    | Term.cat n pn sizes parts =>
      match typeOfList parts with
      | some ts => if tyCatSizes pn ts == some sizes then tyCat n pn ts else none
      | none => none
    | Term.stack n parts =>
      match typeOfList parts with
      | some ts => tyStack n ts
      | none => none
    | Term.lambda n size body =>
      match typeOf body with
      | some tb => tyLambda n size tb
      | none => none
    | _ => none
  def typeOfList : List Term → Option (List Ty)
    | [] => some []
    | t :: ts =>
      match typeOf t, typeOfList ts with
      | some r, some rs => some (r :: rs)
      | _, _ => none
end

/-- The core fragment (the first argument is reserved for a typing context; unused). -/
def isCore (_ : List (Name × Nat)) (t : Term) : Bool := (typeOf t).isSome

end FV.C01
