/-
  Model/C01Ext.lean — extension of the shared specification `denote` (Model/Term.lean) to the
  `finitary` nodes it leaves undefined: `ops.einsum`, `ops.stack` (dim 0) and `ops.cat` (axis 0) on
  array-valued terms.  Each such node is DESUGARED into the constructors `denote` already
  interprets (getitem / Lambda / Stack / Cat / reduce), so the textbook meaning stays the one of
  Model/Term.lean:

    stack(x0 … xn-1)            ↦  Lambda s:n. Stack(s, x0 … xn-1)
    cat(x0 … xn-1) (axis 0)     ↦  Lambda c:Σk. Cat(c, p, [k0 …], xi[p])
    einsum("ab,bc->ac", x, y)   ↦  Lambda a. Lambda c. Σ_b x[a][b] · y[b][c]

  `denoteX t env = (desugar t) >>= denote · env`.  Core-only; no theorem depends on this file (it
  only widens the spec the harness compares against).
-/
import FunsorVerif.Model.TermParse
import FunsorVerif.Model.C01
namespace FV.C01
open FV

def bintDom (n : Nat) : Dom := ⟨DType.bint n, []⟩

def getitem0 : Op := ⟨"getitem", Sexp.list [Sexp.list [Sexp.atom "offset", Sexp.atom "0"]]⟩

/-- `x[v1][v2]…` for index variables (name, size). -/
def indexBy (x : Term) (vars : List (Name × Nat)) : Term :=
  vars.foldl (fun acc (p : Name × Nat) => Term.binary getitem0 acc (Term.var p.1 (bintDom p.2))) x

def lambdas (vars : List (Name × Nat)) (body : Term) : Term :=
  vars.foldr (fun (p : Name × Nat) acc => Term.lambda p.1 p.2 acc) body

def strParam (params : Sexp) (key : String) : Option String :=
  match paramOf params key with
  | some (Sexp.str s) => some s
  | some (Sexp.atom s) => some s
  | _ => none

/-- einsum desugaring.  params: (letters (("a" n) …)) sizes of every subscript letter,
    (inputs ("ab" "bc")), (output "ac").  Bound names are prefixed to avoid capture. -/
def desugarEinsum (params : Sexp) (args : List Term) : Option Term := do
  let letters ← (paramOf params "letters").bind Sexp.asList?
  let letters ← letters.mapM fun x => match x with
    | Sexp.list [n, s] => do pure ((← n.asStr?), (← s.asNat?))
    | _ => none
  let ins ← (paramOf params "inputs").bind Sexp.asStrs?
  let out ← strParam params "output"
  if ins.length != args.length then none else
  let nm (c : Char) : Name := "__es_" ++ c.toString
  let sized (s : String) : Option (List (Name × Nat)) :=
    s.toList.mapM fun c => (letters.lookup c.toString).map fun n => (nm c, n)
  let factors ← (ins.zip args).mapM fun (s, x) => (sized s).map fun vs => indexBy x vs
  let outVars ← sized out
  let allLetters := (ins.foldl (fun acc s => acc ++ s.toList) []).eraseDups
  let contracted := allLetters.filter fun c => !out.toList.contains c
  let cvars ← contracted.mapM fun c => (letters.lookup c.toString).map fun n => (nm c, bintDom n)
  match factors with
  | [] => none
  | f :: fs =>
    let prod := fs.foldl (fun acc g => Term.binary ⟨"mul", Sexp.list []⟩ acc g) f
    let body := if cvars.isEmpty then prod else Term.reduce "add" prod cvars
    pure (lambdas outVars body)

mutual
  def desugar : Term → Option Term
    | Term.unary op a => (desugar a).map (Term.unary op)
    | Term.binary op l r => do pure (Term.binary op (← desugar l) (← desugar r))
    | Term.reduce op a vars => (desugar a).map fun a => Term.reduce op a vars
    | Term.subs a σ => do pure (Term.subs (← desugar a) (← desugarSubs σ))
    | Term.stack n parts => (desugarList parts).map (Term.stack n)
    | Term.cat n pn sizes parts => (desugarList parts).map (Term.cat n pn sizes)
    | Term.lambda n size body => (desugar body).map (Term.lambda n size)
    | Term.independent fn rv bv dv size => (desugar fn).map fun fn => Term.independent fn rv bv dv size
    | Term.align a names => (desugar a).map fun a => Term.align a names
    | Term.contraction r b vars ts => (desugarList ts).map (Term.contraction r b vars)
    | Term.finitary op args =>
      match desugarList args with
      | none => none
      | some args =>
        match op.name with
        | "stack" =>
          -- params: (dim 0)
          if ((paramOf op.params "dim").bind Sexp.asNat?) == some 0 then
            some (Term.lambda "__stk" args.length (Term.stack "__stk" args))
          else none
        | "cat" =>
          -- params: (axis 0) (sizes (k0 k1 …)): leading event sizes of the parts
          match (paramOf op.params "axis").bind Sexp.asNat?, (paramOf op.params "sizes").bind Sexp.asNats? with
          | some 0, some sizes =>
            if sizes.length != args.length then none else
            let parts := (args.zip sizes).map fun (x, k) =>
              Term.binary getitem0 x (Term.var "__catp" (bintDom k))
            some (Term.lambda "__cat" (sizes.foldl (· + ·) 0) (Term.cat "__cat" "__catp" sizes parts))
          | _, _ => none
        | "einsum" => desugarEinsum op.params args
        | _ => none
    | t => some t
  def desugarList : List Term → Option (List Term)
    | [] => some []
    | t :: ts => do pure ((← desugar t) :: (← desugarList ts))
  def desugarSubs : List (Name × Term) → Option (List (Name × Term))
    | [] => some []
    | (n, t) :: ts => do pure ((n, (← desugar t)) :: (← desugarSubs ts))
end

def denoteX (t : Term) (env : Env) : Option Sem := (desugar t).bind fun t' => denote t' env

def denoteTableX (t : Term) (ins : List (Name × Nat)) (env : Env) : List (Option Sem) :=
  match desugar t with
  | some t' => denoteTable t' ins env
  | none => (denoteTable t ins env).map fun _ => none

end FV.C01
