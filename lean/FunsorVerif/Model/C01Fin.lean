/-
  Model/C01Fin.lean — eager_finitary_stack (funsor/tensor.py): `ops.stack(parts, dim)` on Tensors.

      dim = op.defaults["dim"]; if dim >= 0: dim = dim - event_dim - 1
      inputs, raw_parts = align_tensors(*parts)
      raw_result = ops.stack(raw_parts, dim)
      return Tensor(raw_result, inputs, parts[0].dtype)

  `align_tensors` lays every part out along the union of the parts' inputs (first-occurrence order), the
  backend stack inserts a new EVENT axis at position `d` (0 ≤ d ≤ event rank; the negative `dim` counts from
  the right, so the batch axes are never touched).  numpy's `stack` needs equal part shapes: anything else is
  a decline (`none`).  NB `align_tensors` is called WITHOUT `expand=True`: an input a part does not have is a
  size-1 axis of its raw data, so on the pinned tree the rule raises (ValueError from numpy) unless every part
  has every input of the union or that input has size 1 (`fullIns`).  Model/C01Ext.lean covers `ops.stack`
  only for `dim = 0` and only by desugaring it to `Lambda(Stack(…))` at the syntax level; this is the rule
  itself, at every `d`.  Fidelity limit (decline side only): `NT` does not distinguish a `Number` from an
  input-free `Tensor`; `align_tensor` returns a Number's raw scalar unreshaped, so a Number next to parts with
  (size-1) inputs raises in funsor while the model is defined there.
  Out of the model: a negative `dim < -(event rank) - 1` — see the finding reported by fv/harness/c01.py
  `run_finstack` (`finstack:impl-value-at-out-of-range-dim`): numpy then stacks along a BATCH axis.
-/
import FunsorVerif.Model.C01
namespace FV.C01

/-- Every input of the union is an input of the part, or has size 1 (then the unexpanded raw shapes agree). -/
def fullIns (u : List (Name × Nat)) (p : NT) : Bool := u.all fun q => q.2 == 1 || p.names.contains q.1

/-- eager_finitary_stack: new event axis at position `d` of the common event shape. -/
def finStack (d : Nat) (parts : List NT) : Option NT :=
  match parts with
  | [] => none
  | p0 :: _ =>
    let u := unionAll parts
    if decide (d ≤ p0.shape.length) && parts.all (fun p => SubDict p.inputs u && p.shape == p0.shape && fullIns u p) then
      some ⟨u, p0.shape.take d ++ parts.length :: p0.shape.drop d, fun idx =>
        match (idx.drop u.length)[d]? with
        | none => XR.nan
        | some i =>
          match parts[i]? with
          | some p => p.readAt (u.map (·.1)) (idx.take u.length) ((idx.drop u.length).eraseIdx d)
          | none => XR.nan⟩
    else none

/-- The textbook value: `np.stack(vals, axis = d)` as an index function. -/
def stackAt (d : Nat) (vals : List Sem) : Sem :=
  ⟨match vals with
    | [] => []
    | v0 :: _ => v0.shape.take d ++ vals.length :: v0.shape.drop d,
   fun ev =>
    match ev[d]? with
    | none => XR.nan
    | some i =>
      match vals[i]? with
      | some v => v.get (ev.eraseIdx d)
      | none => XR.nan⟩

end FV.C01
