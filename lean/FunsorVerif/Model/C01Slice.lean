/-
  Model/C01Slice.lean — Python's signed slices `x[start:stop:step]` on one axis (numpy basic indexing as used by
  eager_getslice_tensor: `data = x.data[index]`).  `Model/Term.lean`'s `IdxItem.slice` only has natural steps; this is
  the full CPython rule (`slice.indices(n)` = PySlice_AdjustIndices, then `range(start, stop, step)`), negative
  steps and out-of-range / negative bounds included.  `step = 0` raises in Python: `none`.
-/
namespace FV.C01

/-- Clamp one given bound the way `slice.indices(n)` does (`neg` = the step is negative). -/
def sliceClamp (n : Nat) (neg : Bool) (v : Int) : Int :=
  if v < 0 then (if v + (n : Int) < 0 then (if neg then -1 else 0) else v + (n : Int))
  else if v ≥ (n : Int) then (if neg then (n : Int) - 1 else (n : Int))
  else v

/-- `slice(start, stop, step).indices(n)` without the step: (first position, exclusive bound). -/
def sliceBounds (n : Nat) (start stop : Option Int) (step : Int) : Int × Int :=
  let neg := decide (step < 0)
  let lo := match start with
    | some v => sliceClamp n neg v
    | none => if neg then (n : Int) - 1 else 0
  let hi := match stop with
    | some v => sliceClamp n neg v
    | none => if neg then -1 else (n : Int)
  (lo, hi)

/-- `len(range(lo, hi, step))`. -/
def sliceCount (lo hi step : Int) : Nat :=
  if step > 0 then (if lo < hi then ((hi - lo - 1) / step + 1).toNat else 0)
  else if step < 0 then (if hi < lo then ((lo - hi - 1) / (-step) + 1).toNat else 0)
  else 0

/-- The positions `x[start:stop:step]` reads from an axis of size `n`, in result order. -/
def slicePositions (n : Nat) (start stop : Option Int) (step : Int) : Option (List Nat) :=
  if step = 0 then none else
  let b := sliceBounds n start stop step
  some ((List.range (sliceCount b.1 b.2 step)).map fun (k : Nat) => (b.1 + (k : Int) * step).toNat)

/-- `l[start:stop:step]` on a list. -/
def takeSlice {α : Type} (l : List α) (start stop : Option Int) (step : Int) : Option (List α) :=
  (slicePositions l.length start stop step).map fun ps => ps.filterMap (l[·]?)

end FV.C01
