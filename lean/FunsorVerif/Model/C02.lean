/-
  Model/C02.lean — rewrite rules as partial functions on terms, and a generic bottom-up rewriting
  interpreter (the shape of `DispatchedInterpretation.interpret` + the fall-through to `reflect`).

  `Rule := Term → Option Term`: the argument is the *reflected* term `cls(*args)` a rule is dispatched
  on; `none` = the rule declines (returns None) or the arguments are outside the modelled pattern.
  Each rule below names the registered funsor function it models (funsor/cnf.py, funsor/terms.py at the
  pinned commit).  Soundness theorems are in Props/C02.lean.

  Core-only.
-/
import FunsorVerif.Model.Term
namespace FV.C02
open FV

abbrev Rule := Term → Option Term

/-- Names of the AssociativeOps of the term language (funsor.ops: AssociativeOp instances). -/
def assocOps : List String := ["add", "mul", "max", "min", "and", "or", "xor"]

/-! ### funsor/cnf.py: creating contractions -/

/-- `@normalize.register(Binary, AssociativeOp, Funsor, Funsor) binary_to_contract`:
    `Binary(op, lhs, rhs) ↦ Contraction(null, op, {}, lhs, rhs)`. -/
def binaryToContract : Rule
  | Term.binary op l r =>
    if assocOps.contains op.name then some (Term.contraction "null" op.name [] [l, r]) else none
  | _ => none

/-- `@normalize.register(Reduce, AssociativeOp, Funsor, frozenset) reduce_funsor`:
    `Reduce(op, arg, vars) ↦ Contraction(op, null, vars, arg)`. -/
def reduceToContract : Rule
  | Term.reduce op a vars =>
    if assocOps.contains op then some (Term.contraction op "null" vars [a]) else none
  | _ => none

/-! ### funsor/cnf.py: normalize_contraction_generic_tuple, branch by branch -/

/-- branch 1: `not reduced_vars and red_op is not null ↦ Contraction(null, bin_op, {}, *terms)`. -/
def contractionNoVars : Rule
  | Term.contraction red bin [] ts =>
    if red != "null" && assocOps.contains red then some (Term.contraction "null" bin [] ts) else none
  | _ => none

/-- branch 2: `len(terms) == 1 and bin_op is not null ↦ Contraction(red_op, null, vars, term)`. -/
def contractionSingleTerm : Rule
  | Term.contraction red bin vars [t] =>
    if bin != "null" then some (Term.contraction red "null" vars [t]) else none
  | _ => none

/-- branch 3 and `normalize_trivial`: `Contraction(null, null, {}, term) ↦ term`. -/
def contractionTrivial : Rule
  | Term.contraction "null" "null" [] [t] => some t
  | _ => none

/-- Is `t` the literal unit of `bin` (`isinstance(t, Number) and t.data == UNITS[bin_op]`)? -/
def isUnitOf (bin : String) : Term → Bool
  | Term.num v _ => unitOf bin == some v
  | _ => false

/-- branch 5: drop literal units of `bin_op` (keep the first term if everything was a unit). -/
def contractionDropUnits : Rule
  | Term.contraction red bin vars ts =>
    if (unitOf bin).isSome && ts.any (isUnitOf bin) then
      match ts.filter (fun t => !isUnitOf bin t), ts with
      | [], t0 :: _ => some (Term.contraction red bin vars [t0])
      | [], [] => none
      | new, _ => some (Term.contraction red bin vars new)
    else none
  | _ => none

/-- Split a list at the first nested contraction satisfying `p`. -/
def splitAtContraction (p : String → String → List (Name × Dom) → Bool) :
    List Term → Option (List Term × (String × String × List (Name × Dom) × List Term) × List Term)
  | [] => none
  | Term.contraction r b vs ts :: rest =>
    if p r b vs then some ([], (r, b, vs, ts), rest)
    else (splitAtContraction p rest).map fun (pre, c, post) => (Term.contraction r b vs ts :: pre, c, post)
  | t :: rest => (splitAtContraction p rest).map fun (pre, c, post) => (t :: pre, c, post)

/-- branch 6a (fuse without distributing): an operand `v = Contraction(null, bin_op, {}, vterms)` is spliced
    into its parent: `terms[:i] + v.terms + terms[i+1:]`. -/
def contractionFlattenBin : Rule
  | Term.contraction red bin vars ts =>
    if bin == "null" then none else
    match splitAtContraction (fun r b vs => r == "null" && b == bin && vs.isEmpty) ts with
    | some (pre, (_, _, _, vts), post) => some (Term.contraction red bin vars (pre ++ vts ++ post))
    | none => none
  | _ => none

/-- branch 6b, null cases: `bin_op is null and v.red_op in (red_op, null)` where one of the two reductions is
    null: `Contraction(red, null, vars, Contraction(null, vbin, {}, vterms)) ↦ Contraction(red, vbin, vars, vterms)`
    and `Contraction(null, null, {}, Contraction(vred, vbin, vvars, vterms)) ↦ Contraction(vred, vbin, vvars, vterms)`. -/
def contractionFlattenRed : Rule
  | Term.contraction red "null" vars [Term.contraction vred vbin vvars vts] =>
    if vred == "null" then
      (if vvars.isEmpty then some (Term.contraction red vbin vars vts) else none)
    else if red == "null" then
      (if vars.isEmpty then some (Term.contraction vred vbin vvars vts) else none)
    else none
  | _ => none

/-- branch 6b, same reduction twice: `Contraction(red, null, vars, Contraction(red, vbin, vvars, vterms)) ↦
    Contraction(red, vbin, vars ∪ vvars, vterms)` (executable model, tied to the code by the harness; its
    sound when `red` is total and associative and the two binder lists are distinct names — the freshness side
    condition that KF-shared-binder-unfold violates; the model declines otherwise). -/
def disjointNames (vs ws : List (Name × Dom)) : Bool := vs.all fun v => !(ws.map (·.1)).contains v.1

def contractionFuseSameRed : Rule
  | Term.contraction red "null" vars [Term.contraction vred vbin vvars vts] =>
    if vred != "null" && red != "null" && vred == red && disjointNames vars vvars
    then some (Term.contraction red vbin (vars ++ vvars) vts)
    else none
  | _ => none

/-! ### funsor/terms.py -/

/-- `eager_subs_subs` (registered for eager and lazy): `Subs(Subs(a, σ₁), σ₂) ↦
    Subs(a, [(k, Subs(v, σ₂)) for (k, v) in σ₁] ++ σ₂)`.  (`SubsMeta.__call__` has already restricted
    σ₂ to the inputs of the argument, so the rule's own filter is the identity.) -/
def subsFuse : Rule
  | Term.subs (Term.subs a σ₁) σ₂ =>
    if σ₂.isEmpty then none
    else some (Term.subs a (σ₁.map (fun (k, v) => (k, Term.subs v σ₂)) ++ σ₂))
  | _ => none

/-- `eager_binary_number_number`: `Binary(op, Number a, Number b) ↦ Number(op(a, b))` on pointwise ops. -/
def numberBinary : Rule
  | Term.binary op (Term.num a da) (Term.num b _) =>
    if op.name == "getitem" || op.name == "matmul" then none
    else (binop op.name a b).map fun v => Term.num v da
  | _ => none

/-- `Number.eager_unary` through `eager_unary`: `Unary(op, Number a) ↦ Number(op(a))` on pointwise ops. -/
def numberUnary : Rule
  | Term.unary op (Term.num a da) =>
    if (reductionOps.lookup op.name).isSome || op.name == "reshape" || op.name == "getslice" then none
    else (unop op.name a).map fun v => Term.num v da
  | _ => none

/-- `eager_getitem_lambda`, offset 0: `Lambda(i, body)[idx] ↦ body(i = idx)`. -/
def lambdaGetitem : Rule
  | Term.binary op (Term.lambda n _ body) idx =>
    if op.name == "getitem" && ((paramOf op.params "offset").bind Sexp.asNat?).getD 0 == 0
    then some (Term.subs body [(n, idx)]) else none
  | _ => none

/-- `Stack.eager_subs` with a Number index: `Stack(n, parts)(n = k) ↦ parts[k]`. -/
def stackSelect : Rule
  | Term.subs (Term.stack n parts) [(m, Term.num (XR.fin q) _)] =>
    if n == m && q.den == 1 && 0 ≤ q.num then
      match parts[q.num.toNat]? with
      | some p => if (fvList parts).contains n then none else some p
      | none => none
    else none
  | _ => none

/-- `_reduce_unrelated_vars` (as fixed in 58a4113) for a reduction all of whose variables are absent
    from the argument: `Reduce(op, x, absent) ↦ x ⊗̂ |absent|` — `n·x` for add, `xⁿ` for mul, `x` for the
    idempotent max / min / and / or. -/
def multiplicity : List (Name × Dom) → Option Nat
  | [] => some 1
  | (_, ⟨DType.bint k, []⟩) :: rest => (multiplicity rest).map (k * ·)
  | _ => none

def reduceUnrelated : Rule
  | Term.reduce op a vars =>
    if vars.isEmpty || vars.any (fun v => a.fv.contains v.1) then none else
    match multiplicity vars with
    | none => none
    | some 0 => none
    | some m =>
      match op with
      | "add" => some (Term.binary ⟨"mul", Sexp.list []⟩ a (Term.num (XR.fin (m : Rat)) DType.real))
      | "max" => some a
      | "min" => some a
      | _ => none   -- and / or: the implementation returns `x`, equal to the fold only on booleans
  | _ => none

/-- the `mul` case of `_reduce_unrelated_vars`: `Reduce(mul, x, absent) ↦ x ** |absent|`
    (`PRODUCT_TO_POWER[mul] = pow`; the term language's `pow` is defined on finite values only). -/
def reduceUnrelatedMul : Rule
  | Term.reduce "mul" a vars =>
    if vars.isEmpty || vars.any (fun v => a.fv.contains v.1) then none else
    match multiplicity vars with
    | none => none
    | some 0 => none
    | some m => some (Term.binary ⟨"pow", Sexp.list []⟩ a (Term.num (XR.fin (m : Rat)) DType.real))
  | _ => none

/-! ### funsor/cnf.py: eager Contraction rules that re-dispatch to Reduce / Binary -/

/-- `eager_contraction_to_reduce`: `Contraction(red, bin, vars, term)` is evaluated as `Reduce(red, term, vars)`. -/
def contractionToReduce : Rule
  | Term.contraction red _ vars [t] =>
    if assocOps.contains red then some (Term.reduce red t vars) else none
  | _ => none

/-- `eager_contraction_to_binary`: `Contraction(red, bin, vars, lhs, rhs)` is evaluated as
    `Reduce(red, Binary(bin, lhs, rhs), vars)` (just `Binary(bin, lhs, rhs)` when nothing is reduced). -/
def contractionToBinary : Rule
  | Term.contraction red bin vars [l, r] =>
    if !assocOps.contains bin then none
    else if vars.isEmpty then
      (if red == "null" || assocOps.contains red then some (Term.binary ⟨bin, Sexp.list []⟩ l r) else none)
    else if assocOps.contains red then some (Term.reduce red (Term.binary ⟨bin, Sexp.list []⟩ l r) vars)
    else none
  | _ => none

/-- `normalize_fuse_subs`: `Subs(Subs(a, σ₁), σ₂) ↦ Subs(a, σ₂ ++ [(k, Subs(v, σ₂)) for (k, v) in σ₁])`.
    The keys of σ₂ are inputs of `Subs(a, σ₁)`; the model requires them distinct from the keys of σ₁ (a key of
    σ₁ re-introduced by a value of σ₁ would be shadowed differently in the two orders). -/
def subsFuseNormalize : Rule
  | Term.subs (Term.subs a σ₁) σ₂ =>
    if σ₂.any (fun p => (σ₁.map (·.1)).contains p.1) then none
    else some (Term.subs a (σ₂ ++ σ₁.map (fun (k, v) => (k, Term.subs v σ₂))))
  | _ => none

/-! ### Rule table (names used on the wire by the harness) -/

def ruleTable : List (String × Rule) :=
  [("binaryToContract", binaryToContract), ("reduceToContract", reduceToContract),
   ("contractionNoVars", contractionNoVars), ("contractionSingleTerm", contractionSingleTerm),
   ("contractionTrivial", contractionTrivial), ("contractionDropUnits", contractionDropUnits),
   ("contractionFlattenBin", contractionFlattenBin), ("contractionFlattenRed", contractionFlattenRed),
   ("contractionFuseSameRed", contractionFuseSameRed),
   ("subsFuse", subsFuse), ("numberBinary", numberBinary), ("numberUnary", numberUnary),
   ("lambdaGetitem", lambdaGetitem), ("stackSelect", stackSelect), ("reduceUnrelated", reduceUnrelated),
   ("reduceUnrelatedMul", reduceUnrelatedMul), ("contractionToReduce", contractionToReduce),
   ("contractionToBinary", contractionToBinary), ("subsFuseNormalize", subsFuseNormalize)]

def ruleByName (n : String) : Option Rule := ruleTable.lookup n

/-- `normalize_contraction_generic_tuple` as the ordered choice of its modelled branches. -/
def firstOf (rs : List Rule) : Rule := fun t => rs.findSome? (· t)

/-! ### Generic bottom-up rewriting interpreter -/

/-- Apply `f` to every direct sub-term. -/
def mapChildren (f : Term → Term) : Term → Term
  | Term.unary op a => Term.unary op (f a)
  | Term.binary op l r => Term.binary op (f l) (f r)
  | Term.reduce op a vars => Term.reduce op (f a) vars
  | Term.subs a σ => Term.subs (f a) (σ.map fun (n, t) => (n, f t))
  | Term.stack n parts => Term.stack n (parts.map f)
  | Term.cat n pn sizes parts => Term.cat n pn sizes (parts.map f)
  | Term.lambda n size b => Term.lambda n size (f b)
  | Term.independent fn rv bv dv size => Term.independent (f fn) rv bv dv size
  | Term.align a names => Term.align (f a) names
  | Term.contraction r b vars ts => Term.contraction r b vars (ts.map f)
  | Term.finitary op args => Term.finitary op (args.map f)
  | Term.delta ts => Term.delta (ts.map fun (n, p, d) => (n, f p, f d))
  | t => t

/-- `interp I fuel t`: rewrite the children, then try the rules of `I` in priority order at the root; a
    rule's result is interpreted again (rules build their results through the active interpretation);
    when no rule fires the rebuilt term is returned (`reflect`).  `fuel` bounds the nesting. -/
def interp (I : List Rule) : Nat → Term → Term
  | 0, t => t
  | fuel + 1, t =>
    let t' := mapChildren (interp I fuel) t
    match firstOf I t' with
    | some t'' => interp I fuel t''
    | none => t'

/-- The modelled part of `normalize` (rules in dispatch priority; branches of the generic rule in source order). -/
def normalizeRules : List Rule :=
  [contractionNoVars, contractionSingleTerm, contractionTrivial, contractionFlattenRed,
   binaryToContract, reduceToContract]

end FV.C02
