/-
  Model/C02Constant.lean — funsor/constant.py: `Constant(const_inputs, arg)` desugared.

  The shared term language has no Constant constructor.  A `Constant` is its argument with extra *declared*
  inputs it does not depend on, so the model is a wrapper around `Term`:
      value   : `cdenote (const cins arg) = denote arg`   (the const inputs are ignored)
      inputs  : `cins` names ++ `arg.fv`
  The three binary rules of constant.py (`eager_binary_constant_constant`, `_constant_tensor`, `_tensor_constant`)
  are modelled on this wrapper; what they must preserve is the ORDER of the operands and the declared inputs.
  Core-only.
-/
import FunsorVerif.Model.Term
namespace FV.C02
open FV

inductive CTerm where
  | plain (t : Term)
  | const (cins : List (Name × Dom)) (arg : Term)

def CTerm.arg : CTerm → Term
  | .plain t => t
  | .const _ a => a

def CTerm.cins : CTerm → List (Name × Dom)
  | .plain _ => []
  | .const c _ => c

/-- the value: const inputs are ignored -/
def cdenote (c : CTerm) (env : Env) : Option Sem := denote c.arg env

/-- the declared inputs -/
def CTerm.inputs (c : CTerm) : List Name := c.cins.map (·.1) ++ c.arg.fv

/-- wrap only when some const input remains (`if const_inputs: Constant(...) else: bare`) -/
def mkConst (cins : List (Name × Dom)) (t : Term) : CTerm :=
  if cins.isEmpty then .plain t else .const cins t

/-- The reflected term `Binary(op, lhs, rhs)` of two possibly-Constant operands: its value. -/
def cbinaryDenote (op : Op) (l r : CTerm) (env : Env) : Option Sem :=
  match cdenote l env, cdenote r env with
  | some a, some b => evalBinary op a b
  | _, _ => none

/-- `eager_binary_constant_tensor` (lhs Constant, rhs Number/Tensor): const inputs the rhs mentions are dropped. -/
def binaryConstTensor (op : Op) : CTerm → CTerm → Option CTerm
  | .const cins a, .plain r =>
    some (mkConst (cins.filter fun c => !r.fv.contains c.1) (Term.binary op a r))
  | _, _ => none

/-- `eager_binary_tensor_constant` (lhs Number/Tensor, rhs Constant). -/
def binaryTensorConst (op : Op) : CTerm → CTerm → Option CTerm
  | .plain l, .const cins a =>
    some (mkConst (cins.filter fun c => !l.fv.contains c.1) (Term.binary op l a))
  | _, _ => none

/-- `eager_binary_constant_constant`: the union of the const inputs minus the inputs of either argument. -/
def binaryConstConst (op : Op) : CTerm → CTerm → Option CTerm
  | .const c1 a, .const c2 b =>
    some (mkConst ((c1 ++ c2.filter fun c => !(c1.map (·.1)).contains c.1).filter
            fun c => !a.fv.contains c.1 && !b.fv.contains c.1) (Term.binary op a b))
  | _, _ => none

end FV.C02
