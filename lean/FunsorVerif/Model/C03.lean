/-
  Model/C03.lean — exact interpretations are interchangeable; Memoize.

  What is modelled (funsor sources in brackets):

    Step / ap / reRec      an interpretation is a deterministic per-node function `Term → Option Term`
                           (`none` = no rule fired, the node is kept: the `reflect` tail of every
                           PrioritizedInterpretation, interpretations.py:186-190); `reRec` applies it
                           bottom-up exactly as `recursion_reinterpret` does (interpreter.py:220-239):
                           `interpret(type(x), *map(recursion_reinterpret, children(x)))`.
    HTree / recEval        a hash-consed expression: a tree whose nodes carry their object identity
                           `id` (python: funsors hash by `id(self)`, cons-hashing makes structural
                           equality identity).  `recEval f` is recursion_reinterpret for ANY
                           per-node function `f label results`.
    stackEval              `stack_reinterpret` (interpreter.py:189-216): the `env` OrderedDict keyed by
                           node identity, seeded with every node of the ordering mapped to itself
                           (modelled as `none` = "still the raw node"), one pass over `env.items()`
                           replacing each entry by `interpret(type(value), *(env[c] for c in children))`.
                           Reading an entry that is still raw (possible only if the ordering is not
                           topological) or missing (python: KeyError) is `none` here.
    anf                    `interpreter.anf` (interpreter.py:159-186) on the graph of node ids:
                           breadth-first discovery with `child_to_parents` / `children_counts`, the
                           `leaves` queue (Kahn), `env` seeded with the root and `move_to_end(root)`.
    memoStep / runMemo     `Memoize.interpret` (interpretations.py:276-281) as a state machine over the
                           cache `Key ⇀ Value`; values carry the index of the request that computed
                           them (= object identity).  `realKey` is `make_hash_key` (interpretations.py:
                           54-68: arguments only, the key before 99d933f), `headKey` the key on HEAD
                           (origin class + arguments).
    seqReduce              `Funsor.sequential_reduce` (terms.py:537-560): enumerate the integer
                           variables with itertools.product, substitute, left-fold with the op.
    ClassEntry / candidate the class table over which key collisions are decided (Gen/C03ClassTable).

  Core-only imports; total functions; python exceptions are `none`.
-/
import FunsorVerif.Model.Term
namespace FV.C03
open FV

/-! ## 1. Interpretations as per-node rewriting steps -/

abbrev Step := Term → Option Term

/-- One `interpret(cls, *args)` call: the first rule that fires, else the reflected node. -/
def ap (I : Step) (t : Term) : Term :=
  match I t with
  | some t' => t'
  | none => t

mutual
  /-- `recursion_reinterpret` (interpreter.py:220-239). -/
  def reRec (I : Step) : Term → Term
    | Term.var n d => ap I (Term.var n d)
    | Term.num v d => ap I (Term.num v d)
    | Term.tensor i d a => ap I (Term.tensor i d a)
    | Term.unary op a => ap I (Term.unary op (reRec I a))
    | Term.binary op l r => ap I (Term.binary op (reRec I l) (reRec I r))
    | Term.reduce op a vars => ap I (Term.reduce op (reRec I a) vars)
    | Term.subs a σ => ap I (Term.subs (reRec I a) (reRecSubs I σ))
    | Term.slice n a b c d => ap I (Term.slice n a b c d)
    | Term.stack n parts => ap I (Term.stack n (reRecList I parts))
    | Term.cat n pn sizes parts => ap I (Term.cat n pn sizes (reRecList I parts))
    | Term.lambda n size b => ap I (Term.lambda n size (reRec I b))
    | Term.independent fn rv bv dv size => ap I (Term.independent (reRec I fn) rv bv dv size)
    | Term.align a names => ap I (Term.align (reRec I a) names)
    | Term.contraction r b vars ts => ap I (Term.contraction r b vars (reRecList I ts))
    | Term.finitary op args => ap I (Term.finitary op (reRecList I args))
    | Term.delta ts => ap I (Term.delta (reRecDelta I ts))
  def reRecList (I : Step) : List Term → List Term
    | [] => []
    | t :: ts => reRec I t :: reRecList I ts
  def reRecSubs (I : Step) : List (Name × Term) → List (Name × Term)
    | [] => []
    | (n, t) :: ts => (n, reRec I t) :: reRecSubs I ts
  def reRecDelta (I : Step) : List (Name × Term × Term) → List (Name × Term × Term)
    | [] => []
    | (n, p, d) :: ts => (n, reRec I p, reRec I d) :: reRecDelta I ts
end

/-- A small concrete interpretation used by the driver and by the `example`s: evaluate a binary
    or unary op whose operands are numbers (a fragment of `eager`). -/
def constFold : Step
  | Term.binary op (Term.num a _) (Term.num b _) =>
    if op.name == "getitem" || op.name == "matmul" then none
    else (binop op.name a b).map (fun v => Term.num v DType.real)
  | Term.unary op (Term.num a _) =>
    if (reductionOps.lookup op.name).isSome || op.name == "reshape" || op.name == "getslice" then none
    else (unop op.name a).map (fun v => Term.num v DType.real)
  | _ => none

/-! ## 2. Hash-consed trees, the two reinterpreters -/

/-- A node of a hash-consed expression: `id` is the object identity, `label` everything `interpret`
    sees besides the interpreted children (the class and the atom arguments). -/
inductive HTree (L : Type) where
  | node (id : Nat) (label : L) (kids : List (HTree L))

namespace HTree
variable {L : Type}
def id : HTree L → Nat
  | node i _ _ => i
def label : HTree L → L
  | node _ l _ => l
def kids : HTree L → List (HTree L)
  | node _ _ ks => ks
end HTree

mutual
  /-- `recursion_reinterpret` for an arbitrary per-node function. -/
  def recEval {L R : Type} (f : L → List R → R) : HTree L → R
    | HTree.node _ l ks => f l (recEvalList f ks)
  def recEvalList {L R : Type} (f : L → List R → R) : List (HTree L) → List R
    | [] => []
    | k :: ks => recEval f k :: recEvalList f ks
end

/-- `env`: identity ↦ `none` (still the raw node) | `some r` (interpreted). -/
abbrev SEnv (R : Type) := List (Nat × Option R)

/-- `env[i]`: outer `none` = KeyError. -/
def envGet {R : Type} : SEnv R → Nat → Option (Option R)
  | [], _ => none
  | (k, v) :: rest, i => if k = i then some v else envGet rest i

/-- `env[i] = r` on an existing key keeps its position; a new key is appended. -/
def envSet {R : Type} : SEnv R → Nat → Option R → SEnv R
  | [], i, r => [(i, r)]
  | (k, v) :: rest, i, r => if k = i then (k, r) :: rest else (k, v) :: envSet rest i r

/-- Interpreted value of a child: `none` if missing or still raw. -/
def envVal {R : Type} (env : SEnv R) (i : Nat) : Option R :=
  match envGet env i with
  | some (some r) => some r
  | _ => none

def lookupAll {L R : Type} (env : SEnv R) : List (HTree L) → Option (List R)
  | [] => some []
  | k :: ks =>
    match envVal env k.id, lookupAll env ks with
    | some r, some rs => some (r :: rs)
    | _, _ => none

/-- Body of the `for key, value in env.items()` loop for one node. -/
def stepNode {L R : Type} (f : L → List R → R) (env : SEnv R) (n : HTree L) : Option (SEnv R) :=
  match lookupAll env n.kids with
  | some args => some (envSet env n.id (some (f n.label args)))
  | none => none

def stackLoop {L R : Type} (f : L → List R → R) : List (HTree L) → SEnv R → Option (SEnv R)
  | [], env => some env
  | n :: rest, env =>
    match stepNode f env n with
    | some env' => stackLoop f rest env'
    | none => none

/-- `stack_reinterpret` over a given ordering of the nodes (the keys of anf's OrderedDict). -/
def stackEval {L R : Type} (f : L → List R → R) (order : List (HTree L)) (root : HTree L) : Option R :=
  match stackLoop f order (order.map fun n => (n.id, none)) with
  | some env => envVal env root.id
  | none => none

/-- The ordering is duplicate-free by identity and every child occurs strictly earlier. -/
def Topo {L : Type} (order : List (HTree L)) : Prop :=
  (order.map HTree.id).Nodup ∧
  ∀ pre n post, order = pre ++ n :: post → ∀ k ∈ n.kids, k ∈ pre

/-- The per-node function of a `Step` on hash-consed `Term` nodes whose label is a function
    rebuilding the node from interpreted children. -/
def nodeStep (I : Step) (label : List Term → Term) (results : List Term) : Term := ap I (label results)

/-! ## 3. `anf` on the graph of identities (interpreter.py:159-186)

  The algorithm only sees node identities and `children(h)` (minus atoms), so it is modelled over
  `Nat` identities and an arbitrary children function (class `Kids`); `anf g root` instantiates it with
  the adjacency list the harness observes.  Same statement-by-statement model as Model/C18.lean. -/

abbrev Graph := List (Nat × List Nat)

/-- `d.get(k)` on an insertion-ordered dict. -/
def dGet {κ α : Type} [DecidableEq κ] : List (κ × α) → κ → Option α
  | [], _ => none
  | (k, v) :: r, n => if k = n then some v else dGet r n

/-- `d[k] = v`: overwrite in place, or append a new key at the end. -/
def dSet {κ α : Type} [DecidableEq κ] : List (κ × α) → κ → α → List (κ × α)
  | [], n, v => [(n, v)]
  | (k, w) :: r, n, v => if k = n then (k, v) :: r else (k, w) :: dSet r n v

/-- `children(h)` restricted to non-atoms; a node missing from the graph has no children. -/
def kidsOf (g : Graph) (i : Nat) : List Nat :=
  match dGet g i with
  | some ks => ks
  | none => []

/-- The children function `anf` walks (`children(h)` with `stop = is_atom`). -/
class Kids where
  ch : Nat → List Nat

def children [Kids] (n : Nat) : List Nat := Kids.ch n

/-- Reachability from the root along `children`: the node set of the DAG. -/
inductive Reach [Kids] (r : Nat) : Nat → Prop
  | refl : Reach r r
  | step {n c : Nat} : Reach r n → c ∈ children n → Reach r c

structure Bfs where
  stack : List Nat                       -- `stack` (a deque used first-in first-out)
  c2p : List (Nat × List Nat)            -- `child_to_parents` (defaultdict(list))
  counts : List (Nat × Int)              -- `children_counts` (defaultdict(int))
  leaves : List Nat

/-- The `for c in children(h)` loop. -/
def visit (h : Nat) : List Nat → Bfs → Bfs
  | [], s => s
  | c :: cs, s =>
    let stack := if (dGet s.c2p c).isNone then s.stack ++ [c] else s.stack
    let c2p := dSet s.c2p c ((dGet s.c2p c).getD [] ++ [h])
    let counts := dSet s.counts h ((dGet s.counts h).getD 0 + 1)
    visit h cs { s with stack := stack, c2p := c2p, counts := counts }

/-- `while stack:` of the first phase; `none` = out of fuel. -/
def bfs [Kids] : Nat → Bfs → Option Bfs
  | 0, _ => none
  | fuel + 1, s =>
    match s.stack with
    | [] => some s
    | h :: rest =>
      let s1 := visit h (children h) { s with stack := rest }
      let s2 := if (dGet s1.counts h).getD 0 = 0 then { s1 with leaves := s1.leaves ++ [h] } else s1
      bfs fuel s2

/-- The `for parent in child_to_parents[h]` loop on (leaves, children_counts). -/
def relax : List Nat → List Nat × List (Nat × Int) → List Nat × List (Nat × Int)
  | [], s => s
  | p :: ps, (q, cnt) =>
    let k := (dGet cnt p).getD 0 - 1
    relax ps (if k = 0 then q ++ [p] else q, dSet cnt p k)

/-- `env[h] = h` on an OrderedDict (keys only). -/
def keySet (env : List Nat) (h : Nat) : List Nat := if h ∈ env then env else env ++ [h]

/-- `while leaves:` of the second phase; state = (leaves, children_counts, env). -/
def kahn (c2p : List (Nat × List Nat)) : Nat → List Nat → List (Nat × Int) → List Nat → Option (List Nat)
  | 0, _, _, _ => none
  | fuel + 1, leaves, cnt, env =>
    match leaves with
    | [] => some env
    | h :: rest =>
      let (q, cnt') := relax ((dGet c2p h).getD []) (rest, cnt)
      kahn c2p fuel q cnt' (keySet env h)

/-- `anf(x)` as the list of keys of the returned OrderedDict, with an iteration budget for both loops. -/
def anfWith [Kids] (fuel : Nat) (x : Nat) : Option (List Nat) :=
  match bfs fuel ⟨[x], [], [], []⟩ with
  | none => none
  | some s =>
    match kahn s.c2p fuel s.leaves s.counts [x] with
    | none => none
    | some env => some (env.erase x ++ [x])          -- `env.move_to_end(x)`

/-! #### How the wait count and the parent lists are built (regenerated from source: Gen/C03AnfSource)

  `interpreter.anf` as written counts one wait per child OCCURRENCE (`children_counts[h] += 1` inside the
  `for c in children(h)` loop) and records the parent once per occurrence
  (`child_to_parents[c].append(h)` in the same loop); the emission loop decrements once per recorded
  entry.  `visit` above is exactly that.  The variant below is what a "count the DISTINCT children"
  rewrite computes (`children_counts[h] = len(set(children))`) with the parent lists unchanged. -/

inductive CountRule where
  | perOccurrence      -- `children_counts[h] += 1` for every non-atom child visited
  | perDistinct        -- `children_counts[h] = len(set(...))`
  | unknown
  deriving DecidableEq, Repr

structure AnfSource where
  countRule : CountRule          -- how `children_counts[h]` is initialised
  parentRule : CountRule         -- how `child_to_parents[c]` is extended (per occurrence / once per distinct child)
  decrementPerEntry : Bool       -- `for parent in child_to_parents[h]: children_counts[parent] -= 1`
  leafTestZero : Bool            -- `if children_counts[h] == 0: leaves.append(h)` in both loops
  countStmt : String
  parentStmt : String
  deriving Repr

/-- First phase with the set-based wait count (parent lists still one entry per occurrence). -/
def bfsSet [Kids] : Nat → Bfs → Option Bfs
  | 0, _ => none
  | fuel + 1, s =>
    match s.stack with
    | [] => some s
    | h :: rest =>
      let s1 := visit h (children h) { s with stack := rest }
      let distinct : Int := ((children h).eraseDups.length : Nat)
      let s1' := if (children h).isEmpty then s1 else { s1 with counts := dSet s1.counts h distinct }
      let s2 := if (children h).isEmpty then { s1' with leaves := s1'.leaves ++ [h] } else s1'
      bfsSet fuel s2

def anfSetWith [Kids] (fuel : Nat) (x : Nat) : Option (List Nat) :=
  match bfsSet fuel ⟨[x], [], [], []⟩ with
  | none => none
  | some s =>
    match kahn s.c2p fuel s.leaves s.counts [x] with
    | none => none
    | some env => some (env.erase x ++ [x])

/-- Every child of every element occurs strictly earlier. -/
def Topological [Kids] (ord : List Nat) : Prop :=
  ∀ pre n post, ord = pre ++ n :: post → ∀ c ∈ children n, c ∈ pre

/-- `anf` on an observed adjacency list; budget = number of listed nodes + 2. -/
def anf (g : Graph) (root : Nat) : Option (List Nat) :=
  @anfWith ⟨kidsOf g⟩ (g.length + 2) root

/-! ### `stack_reinterpret` end to end on a hash-consed expression -/

mutual
  /-- All nodes of the expression (with repetitions), the node itself first. -/
  def HTree.subnodes {L : Type} : HTree L → List (HTree L)
    | HTree.node i l ks => HTree.node i l ks :: subnodesList ks
  def subnodesList {L : Type} : List (HTree L) → List (HTree L)
    | [] => []
    | k :: ks => k.subnodes ++ subnodesList ks
end

mutual
  def HTree.size {L : Type} : HTree L → Nat
    | HTree.node _ _ ks => sizeList ks + 1
  def sizeList {L : Type} : List (HTree L) → Nat
    | [] => 0
    | k :: ks => k.size + sizeList ks
end

/-- The object with identity `i` (python: the dict key). -/
def HTree.find {L : Type} (root : HTree L) (i : Nat) : Option (HTree L) :=
  root.subnodes.find? (fun n => n.id == i)

/-- `children(h)` by identity. -/
@[reducible] def htKids {L : Type} (root : HTree L) : Kids :=
  ⟨fun i => match root.find i with
    | some n => n.kids.map HTree.id
    | none => []⟩

/-- Identities back to objects; `none` if an identity is unknown. -/
def findAll {L : Type} (root : HTree L) : List Nat → Option (List (HTree L))
  | [] => some []
  | i :: is =>
    match root.find i, findAll root is with
    | some n, some ns => some (n :: ns)
    | _, _ => none

/-- `anf(x)` on the expression itself: the keys of the OrderedDict, as objects. -/
def anfTree {L : Type} (root : HTree L) : Option (List (HTree L)) :=
  match @anfWith (htKids root) (root.subnodes.length + 2) root.id with
  | some ids => findAll root ids
  | none => none

/-- `stack_reinterpret(x)`: anf, then the single pass over `env.items()`. -/
def stackReinterpret {L R : Type} (f : L → List R → R) (root : HTree L) : Option R :=
  match anfTree root with
  | some order => stackEval f order root
  | none => none

/-- Hash-consing: within the expression, identity determines the object. -/
def Consistent {L : Type} (root : HTree L) : Prop :=
  ∀ a ∈ root.subnodes, ∀ b ∈ root.subnodes, a.id = b.id → a = b

mutual
  /-- Forget identities (the recursive reinterpreter never looks at them). -/
  def HTree.strip {L : Type} : HTree L → HTree L
    | HTree.node _ l ks => HTree.node 0 l (stripList ks)
  def stripList {L : Type} : List (HTree L) → List (HTree L)
    | [] => []
    | k :: ks => k.strip :: stripList ks
end

/-! ### A `Term` as a tree of `interpret(cls, *args)` requests

  The label of a node is everything `interpret` receives besides the reinterpreted children: the
  class and the atom arguments, i.e. a function rebuilding the node from its (reinterpreted) children in
  `_ast_values` order.  Children lists of the wrong length cannot occur; the labels then keep the
  original children. -/

def zipKeys : List (Name × Term) → List Term → List (Name × Term)
  | (n, _) :: σ, v :: vs => (n, v) :: zipKeys σ vs
  | σ, _ => σ

def zipDelta : List (Name × Term × Term) → List Term → List (Name × Term × Term)
  | (n, _, _) :: ts, p :: d :: rs => (n, p, d) :: zipDelta ts rs
  | ts, _ => ts

mutual
  def skel : Term → HTree (List Term → Term)
    | Term.var n d => HTree.node 0 (fun _ => Term.var n d) []
    | Term.num v d => HTree.node 0 (fun _ => Term.num v d) []
    | Term.tensor i d a => HTree.node 0 (fun _ => Term.tensor i d a) []
    | Term.slice n a b c d => HTree.node 0 (fun _ => Term.slice n a b c d) []
    | Term.unary op a =>
      HTree.node 0 (fun rs => match rs with
        | [a'] => Term.unary op a'
        | _ => Term.unary op a) [skel a]
    | Term.binary op l r =>
      HTree.node 0 (fun rs => match rs with
        | [l', r'] => Term.binary op l' r'
        | _ => Term.binary op l r) [skel l, skel r]
    | Term.reduce op a vars =>
      HTree.node 0 (fun rs => match rs with
        | [a'] => Term.reduce op a' vars
        | _ => Term.reduce op a vars) [skel a]
    | Term.subs a σ =>
      HTree.node 0 (fun rs => match rs with
        | a' :: vs => Term.subs a' (zipKeys σ vs)
        | [] => Term.subs a σ) (skel a :: skelSubs σ)
    | Term.stack n ps => HTree.node 0 (fun rs => Term.stack n rs) (skelList ps)
    | Term.cat n pn sizes ps => HTree.node 0 (fun rs => Term.cat n pn sizes rs) (skelList ps)
    | Term.lambda n size b =>
      HTree.node 0 (fun rs => match rs with
        | [b'] => Term.lambda n size b'
        | _ => Term.lambda n size b) [skel b]
    | Term.independent fn rv bv dv size =>
      HTree.node 0 (fun rs => match rs with
        | [fn'] => Term.independent fn' rv bv dv size
        | _ => Term.independent fn rv bv dv size) [skel fn]
    | Term.align a names =>
      HTree.node 0 (fun rs => match rs with
        | [a'] => Term.align a' names
        | _ => Term.align a names) [skel a]
    | Term.contraction r b vars ts => HTree.node 0 (fun rs => Term.contraction r b vars rs) (skelList ts)
    | Term.finitary op args => HTree.node 0 (fun rs => Term.finitary op rs) (skelList args)
    | Term.delta ts => HTree.node 0 (fun rs => Term.delta (zipDelta ts rs)) (skelDelta ts)
  def skelList : List Term → List (HTree (List Term → Term))
    | [] => []
    | t :: ts => skel t :: skelList ts
  def skelSubs : List (Name × Term) → List (HTree (List Term → Term))
    | [] => []
    | (_, t) :: ts => skel t :: skelSubs ts
  def skelDelta : List (Name × Term × Term) → List (HTree (List Term → Term))
    | [] => []
    | (_, p, d) :: ts => skel p :: skel d :: skelDelta ts
end

/-- Decidable check used at run time on `anf`'s output: children strictly earlier, no duplicates,
    root last. -/
def topoIds (g : Graph) (order : List Nat) (root : Nat) : Bool :=
  let rec go : List Nat → List Nat → Bool
    | _, [] => true
    | seen, n :: rest => (kidsOf g n).all (fun k => seen.contains k) && !seen.contains n && go (n :: seen) rest
  go [] order && order.getLast? == some root

/-- Number of `interpret` calls of the two reinterpreters on a DAG: the recursive one visits the
    unfolded tree (fuel-bounded), the stack-free one each node once. -/
def treeCalls (g : Graph) (isFunsor : Nat → Bool) : Nat → Nat → Nat
  | 0, _ => 0
  | fuel + 1, i => (if isFunsor i then 1 else 0) + ((kidsOf g i).map (treeCalls g isFunsor fuel)).foldl (· + ·) 0

/-! ## 4. Memoize as a state machine (interpretations.py:254-292) -/

section Memo
variable {C A K V : Type} [DecidableEq K]

abbrev Cache (K V : Type) := List (K × V)

def cacheGet : Cache K V → K → Option V
  | [], _ => none
  | (k, v) :: rest, q => if k = q then some v else cacheGet rest q

/-- One `Memoize.interpret(cls, *args)`; the `i`-th request of the history.  A value is tagged with
    the index of the request that computed it (its identity).  A base result `None` is stored by the
    code but `cache.get` cannot tell it from an absent key, so it is recomputed: not stored here. -/
def memoStep (key : C → A → K) (base : C → A → Option V) (cache : Cache K (V × Nat)) (i : Nat)
    (c : C) (a : A) : Option (V × Nat) × Cache K (V × Nat) :=
  match cacheGet cache (key c a) with
  | some r => (some r, cache)
  | none =>
    match base c a with
    | none => (none, cache)
    | some v => (some (v, i), (key c a, (v, i)) :: cache)

/-- Responses to a whole history of requests, starting at request number `i` with `cache`. -/
def runMemo (key : C → A → K) (base : C → A → Option V) :
    Nat → Cache K (V × Nat) → List (C × A) → List (Option (V × Nat))
  | _, _, [] => []
  | i, cache, (c, a) :: rest =>
    let (r, cache') := memoStep key base cache i c a
    r :: runMemo key base (i + 1) cache' rest

/-- Final cache after a history. -/
def finalCache (key : C → A → K) (base : C → A → Option V) :
    Nat → Cache K (V × Nat) → List (C × A) → Cache K (V × Nat)
  | _, cache, [] => cache
  | i, cache, (c, a) :: rest => finalCache key base (i + 1) (memoStep key base cache i c a).2 rest

/-- The key identifies the request. -/
def KeyInjective (key : C → A → K) : Prop :=
  ∀ c a c' a', key c a = key c' a' → c = c' ∧ a = a'

/-- Weaker: requests with equal keys have equal base results (what a benign collision satisfies). -/
def KeyRespects (key : C → A → K) (base : C → A → Option V) : Prop :=
  ∀ c a c' a', key c a = key c' a' → base c a = base c' a'

end Memo

/-- `Interpretation.make_hash_key(cls, *args)`: the class is dropped.  This alone was the key of
    `Memoize.interpret` before commit 99d933f (and still is the per-class cons-hash key). -/
def realKey {C A : Type} (_cls : C) (args : A) : A := args

/-- Class and arguments. -/
def fullKey {C A : Type} (cls : C) (args : A) : C × A := (cls, args)

/-- The key of `Memoize.interpret` on HEAD: `(get_origin(cls),) + make_hash_key(cls, *args)`.  The class
    of a request is an origin class `C`, possibly subscripted with type parameters `P` (direct
    construction passes the origin, `reinterpret` passes `type(x)`, e.g. `Binary[AddOp, Tensor, Tensor]`);
    `get_origin` forgets the parameters. -/
def headKey {C P A : Type} (cls : C × P) (args : A) : C × A := (cls.1, args)

/-! ### 4b. Lifetime of cache keys

  A Memoize cache may outlive the funsors it was asked about (one dict reused over successive
  `memoize(cache)` blocks).  Funsors hash and compare by identity (`__hash__ = id`), so a cache lookup
  is a lookup by ADDRESS.  That is sound only because the key tuple holds the argument OBJECTS: a live
  key keeps its arguments alive, and CPython never hands out the address of a live object.  If the key
  held `id(arg)` instead, the address of a collected argument could be recycled for a new funsor and the
  lookup would return the result computed for the old one. -/

/-- A funsor as the memo cache sees it: its address, and its content (what the base result depends on). -/
structure Obj where
  addr : Nat
  val : Nat
  deriving DecidableEq, Repr

inductive LEv where
  | alloc (o : Obj)        -- the caller creates a funsor outside the memoizing context
  | drop (addr : Nat)      -- the caller drops its reference
  | request (o : Obj)      -- a memoized call with argument `o` (the caller holds `o`)
  deriving DecidableEq, Repr

structure LState where
  user : List Obj                 -- objects the caller holds
  cache : List (Obj × Nat)        -- key (the argument it was computed for) and result

/-- Addresses the allocator must not hand out: the caller's objects and, iff the key holds its
    argument objects (`keepsAlive`), the arguments inside cache keys. -/
def liveAddrs (keepsAlive : Bool) (s : LState) : List Nat :=
  s.user.map (·.addr) ++ (if keepsAlive then s.cache.map (·.1.addr) else [])

/-- `cache.get(key)`: by address. -/
def lcacheGet : List (Obj × Nat) → Nat → Option Nat
  | [], _ => none
  | (k, r) :: rest, a => if k.addr = a then some r else lcacheGet rest a

/-- One event; `none` = the history is impossible (allocation at a live address, request for an object
    the caller does not hold). -/
def lstep (keepsAlive : Bool) (base : Nat → Nat) (s : LState) : LEv → Option (LState × Option Nat)
  | LEv.alloc o =>
    if o.addr ∈ liveAddrs keepsAlive s then none else some ({ s with user := o :: s.user }, none)
  | LEv.drop a => some ({ s with user := s.user.filter (fun u => u.addr != a) }, none)
  | LEv.request o =>
    if o ∈ s.user then
      match lcacheGet s.cache o.addr with
      | some r => some (s, some r)
      | none => some ({ s with cache := (o, base o.val) :: s.cache }, some (base o.val))
    else none

/-- Every request of a (possible) history is answered with the base result for its own argument. -/
def lcorrect (keepsAlive : Bool) (base : Nat → Nat) : LState → List LEv → Bool
  | _, [] => true
  | s, e :: es =>
    match lstep keepsAlive base s e with
    | none => true
    | some (s', resp) =>
      (match e with
        | LEv.request o => resp == some (base o.val)
        | _ => true) && lcorrect keepsAlive base s' es

/-- Responses of a history (driver). -/
def lrun (keepsAlive : Bool) (base : Nat → Nat) : LState → List LEv → Option (List (Option Nat))
  | _, [] => some []
  | s, e :: es =>
    match lstep keepsAlive base s e with
    | none => none
    | some (s', resp) => (lrun keepsAlive base s' es).map (resp :: ·)

/-! ## 5. sequential_reduce (terms.py:537-560) -/

/-- `itertools.product(*(range(size) …))` with the variable names attached. -/
def enumPoints : List (Name × Nat) → List (List (Name × Nat × Nat))
  | [] => [[]]
  | (n, size) :: rest => (List.range size).flatMap fun i => (enumPoints rest).map fun t => (n, i, size) :: t

/-- `self(**subs)` for one point: substitution of `Number(i, size)` for each enumerated variable. -/
def pointSubs (arg : Term) (p : List (Name × Nat × Nat)) : Term :=
  Term.subs arg (p.map fun (n, i, size) => (n, Term.num (XR.fin (i : Rat)) (DType.bint size)))

/-- `result = self(**subs) if result is None else op(result, self(**subs))`. -/
def foldTerms (op : String) : Term → List Term → Term
  | acc, [] => acc
  | acc, t :: ts => foldTerms op (Term.binary ⟨op, Sexp.list []⟩ acc t) ts

/-- The term `sequential_reduce` builds for integer variables `vars` (all of them "eager_vars").
    `none`: the product is empty (a variable of size 0), `result` stays `None` = defer. -/
def seqReduce (op : String) (arg : Term) (vars : List (Name × Nat)) : Option Term :=
  match (enumPoints vars).map (pointSubs arg) with
  | [] => none
  | t :: ts => some (foldTerms op t ts)

/-- Extensional equality of semantic values: same shape, same entry at every index of the shape. -/
def Sem.Eqv (a b : Sem) : Prop := a.shape = b.shape ∧ ∀ i ∈ allIdx a.shape, a.get i = b.get i

/-! ## 6. Class table (key collisions) -/

/-- Coarse classes of python values that can appear as constructor arguments; two values of
    different classes are never equal as dictionary keys. -/
inductive VK where
  | funsor | op | str | int | number | tuple | frozenset | array | domain | callable | other
  deriving DecidableEq, Repr

structure ClassEntry where
  name : String
  /-- per `_ast_fields` entry: the value classes `__init__` admits (`[]` = no constraint found). -/
  fields : List (String × List VK)
  deriving Repr

/-- Result of the extract-time live probe of a candidate pair. -/
inductive ProbeOutcome where
  | refuted            -- no argument tuple of the probe pool is accepted by both constructors
  | witnessEmptyTuple  -- both accept a common tuple, and every such tuple has `()` in the tuple field
  | witness            -- both accept a common tuple with non-trivial content
  deriving DecidableEq, Repr

structure Probe where
  a : String
  b : String
  outcome : ProbeOutcome
  deriving Repr

def overlap (x y : List VK) : Bool := x.isEmpty || y.isEmpty || x.any (fun k => y.contains k)

/-- Two classes whose argument tuples cannot be told apart by the recorded field constraints. -/
def candidate (a b : ClassEntry) : Bool :=
  a.fields.length == b.fields.length &&
  (a.fields.zip b.fields).all (fun (x, y) => overlap x.2 y.2)

def probeOf (probes : List Probe) (a b : String) : Option ProbeOutcome :=
  (probes.find? fun p => (p.a == a && p.b == b) || (p.a == b && p.b == a)).map (·.outcome)

/-- Pairs (as they come out of the table, first before second) that are candidates. -/
def candidatePairs : List ClassEntry → List (String × String)
  | [] => []
  | a :: rest => (rest.filter (candidate a)).map (fun b => (a.name, b.name)) ++ candidatePairs rest

/-- The pairs whose collision is known and benign: both denote their first argument. -/
def benignPairs : List (String × String) := [("Align", "Subs"), ("Subs", "Align")]

/-- The obligation over the generated table: every candidate pair is refuted by its probe, or is a
    benign pair colliding at the empty tuple only. -/
def tableOk (table : List ClassEntry) (probes : List Probe) : Bool :=
  (candidatePairs table).all fun (a, b) =>
    match probeOf probes a b with
    | some ProbeOutcome.refuted => true
    | some ProbeOutcome.witnessEmptyTuple => benignPairs.contains (a, b)
    | _ => false

end FV.C03
