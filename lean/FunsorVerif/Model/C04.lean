/-
  Model/C04.lean — substitution is simultaneous, capture-avoiding function application.

    Model/C04/NT.lean       positional named tensors, `Tensor.eager_subs` pass by pass (+ the pre-fix policy)
    Model/C04/Subst.lean    term level: `substitute`, `boundFresh`, the SubstituteInterpretation fresh rule, fusion
    Model/C04/Classes.lean  per-class `eager_subs` index arithmetic: Slice, Stack, Cat
    Model/C04/Classes2.lean Gaussian real substitution (ordered pairs, explicit gather), Constant, MarkovProduct/Scatter,
                            term builders of Independent/Delta eager_subs

    Model/C04/Call.lean     the call sugar `Funsor.__call__`: positional + keyword values merged into ONE list of pairs

  The specification is `denote (Term.subs t σ)` of the shared Model/Term.lean.
-/
import FunsorVerif.Model.C04.NT
import FunsorVerif.Model.C04.Subst
import FunsorVerif.Model.C04.Classes
import FunsorVerif.Model.C04.Classes2
import FunsorVerif.Model.C04.Call
