import FunsorVerif.Model.C04.Subst
namespace FV.C04

/-- First binding of `n` in an ordered list of pairs (python `kwargs[n]` / `OrderedDict` lookup), any value type. -/
def aget {α : Type} : List (Name × α) → Name → Option α
  | [], _ => none
  | (k, v) :: r, n => if k = n then some v else aget r n

/-- `Funsor.__call__(self, *args, **kwargs)` (funsor/terms.py:352-361):
      subs = OrderedDict(zip(self.inputs, args))
      for k in self.inputs:
          if k in kwargs: subs[k] = kwargs[k]
      return Subs(self, tuple(subs.items()))
    ONE list of pairs, in the order of `self.inputs`: the i-th positional value binds the i-th input, a keyword binds its
    name and wins over a positional value in the same slot; surplus positionals and keywords that are not inputs vanish. -/
def callPairs {α : Type} : List Name → List α → List (Name × α) → List (Name × α)
  | [], _, _ => []
  | k :: ks, args, kw =>
    match aget kw k, args.head? with
    | some v, _ => (k, v) :: callPairs ks args.tail kw
    | none, some a => (k, a) :: callPairs ks args.tail kw
    | none, none => callPairs ks args.tail kw

/-- The SEQUENTIAL reading (positional pairs first, then the keywords on the result) that the property excludes:
    the two lists of pairs a two-step implementation would apply one after the other. -/
def callSeq {α : Type} (ins : List Name) (args : List α) (kw : List (Name × α)) :
    List (Name × α) × List (Name × α) :=
  (ins.zip args, kw)

end FV.C04
