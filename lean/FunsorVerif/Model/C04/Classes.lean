/-
  Model/C04/Classes.lean — the per-class `eager_subs` methods of funsor/terms.py as index arithmetic.

    Slice.eager_subs   (terms.py:1484)  number / variable / index tensor / Slice-into-Slice (37c3acd)
    Stack.eager_subs   (terms.py:1612)  number → select a part, variable → rename, slice → `parts[slice]`
    Cat.eager_subs     (terms.py:1707)  number → locate the part; slice → per-part slices
                                        (`pstart`, `pstop`; f0eee47), result named after the slice (e38be70)

  The pre-fix formulas are kept (`…Pre`, `pre := true`) for the witness theorems.
  Core-only.
-/
import FunsorVerif.Model.Term
namespace FV.C04

/-! ### Slice -/

/-- A `Slice` funsor's data: `slice(start, stop, step)` and the output size `dtype`. -/
structure Sl where
  start : Nat
  stop : Nat
  step : Nat
  dtype : Nat
  deriving Repr, DecidableEq

/-- `SliceMeta.__call__`: `stop = min(dtype, max(start, stop))`. -/
def mkSlice (start stop step dtype : Nat) : Sl := ⟨start, min dtype (max start stop), step, dtype⟩

/-- `Slice.__init__` asserts: `stop >= start`, `step > 0`. -/
def Sl.wf (s : Sl) : Prop := s.start ≤ s.stop ∧ s.stop ≤ s.dtype ∧ 0 < s.step

instance (s : Sl) : Decidable s.wf := by unfold Sl.wf; exact inferInstance

/-- `max(0, (stop + step - 1 - start) // step)`: the size of the slice's input. -/
def Sl.size (s : Sl) : Nat := sliceLen s.start s.stop s.step

/-- The value of the slice at index `i` of its input. -/
def Sl.at (s : Sl) (i : Nat) : Nat := s.start + s.step * i

/-- `Slice.eager_subs` with a `Variable`: a pure renaming — `Slice(name, start, stop, step, dtype)` again (the
    constructor's normalisation is applied once more). -/
def sliceRename (s : Sl) : Sl := mkSlice s.start s.stop s.step s.dtype

/-- A tempting "rebuild from the size" variant, `Slice(name, start, start + size, step, dtype)`: right only for step 1. -/
def sliceRenameBySize (s : Sl) : Sl := mkSlice s.start (s.start + s.size) s.step s.dtype

/-- `Slice.eager_subs` with a `Slice` index, HEAD. -/
def sliceIntoSlice (outer inner : Sl) : Sl :=
  mkSlice (outer.start + outer.step * inner.start) (outer.start + outer.step * inner.stop)
    (outer.step * inner.step) outer.dtype

/-- … on the pinned tree: the outer `stop` was kept. -/
def sliceIntoSlicePre (outer inner : Sl) : Sl :=
  mkSlice (outer.start + outer.step * inner.start) outer.stop (outer.step * inner.step) outer.dtype

/-! ### Python list slicing `l[start:stop:step]` (non-negative bounds, positive step) -/

/-- Every `step`-th element starting with the first; fuel-free by recursion on a counter. -/
def everyNth {α : Type} (step : Nat) : List α → Nat → List α
  | [], _ => []
  | x :: xs, 0 => x :: everyNth step xs (step - 1)
  | _ :: xs, k + 1 => everyNth step xs k

def pySlice {α : Type} (l : List α) (start stop step : Nat) : List α :=
  everyNth step ((l.take stop).drop start) 0

/-! ### Cat -/

/-- `Cat.eager_subs`, `Number` branch: walk the parts subtracting sizes — (part index, local index). -/
def catLocate : List Nat → Nat → Nat → Option (Nat × Nat)
  | [], _, _ => none
  | s :: ss, n, k => if n < s then some (k, n) else catLocate ss (n - s) (k + 1)

/-- `pstart` of the part starting at global position `pos` (Python integers; `//` is floor division,
    which is Lean's `Int` `/` for a positive divisor).  `pre = true`: the pinned tree's guard `step > 1`
    without `pos > start`. -/
def catPStart (pre : Bool) (pos start step : Int) : Int :=
  if step > 1 ∧ (pre = true ∨ pos > start) then
    let p := ((pos - start) / step) * step - (pos - start)
    if p < 0 then p + step else p
  else max (start - pos) 0

/-- `pstop = min(pos + psize, stop) - pos`. -/
def catPStop (pos psize stop : Int) : Int := min (pos + psize) stop - pos

/-- The part contributes iff `not (pstart >= pstop or pos >= stop or pos + psize <= start)`. -/
def catPartKept (pre : Bool) (pos psize start stop step : Int) : Bool :=
  !(decide (catPStart pre pos start step ≥ catPStop pos psize stop) || decide (pos ≥ stop) ||
    decide (pos + psize ≤ start))

/-- The local indices the code selects in each part: `(part index, [local indices])`, for parts of the
    given sizes — `Slice(part_name, pstart, pstop, step, psize)` applied to every kept part. -/
def catSliceParts (pre : Bool) (sizes : List Nat) (start stop step : Nat) : List (Nat × List Nat) :=
  let rec go : List Nat → Nat → Nat → List (Nat × List Nat)
    | [], _, _ => []
    | psize :: rest, pos, k =>
      let ps := catPStart pre pos start step
      let pe := catPStop pos psize stop
      let here :=
        if catPartKept pre pos psize start stop step then
          let sl := mkSlice ps.toNat pe.toNat step psize
          [(k, (List.range sl.size).map sl.at)]
        else []
      here ++ go rest (pos + psize) (k + 1)
  go sizes 0 0

/-- The global positions those selections correspond to, in order (what the resulting `Cat` enumerates). -/
def catSliceGlobal (pre : Bool) (sizes : List Nat) (start stop step : Nat) : List Nat :=
  let offs := sizes.foldl (fun (acc : List Nat × Nat) s => (acc.1 ++ [acc.2], acc.2 + s)) ([], 0)
  (catSliceParts pre sizes start stop step).flatMap fun (k, locs) =>
    match offs.1[k]? with
    | some off => locs.map (off + ·)
    | none => []

/-- What the slice denotes: `start, start + step, … < min(stop, total)`. -/
def sliceGlobal (total start stop step : Nat) : List Nat :=
  let s := mkSlice start stop step total
  (List.range s.size).map s.at

end FV.C04
