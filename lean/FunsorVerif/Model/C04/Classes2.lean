/-
  Model/C04/Classes2.lean — the remaining per-class `eager_subs` methods.

    Gaussian._eager_subs_real   (gaussian.py ~678-744)  real substitution over rational matrices, with the pairs as an
                                ORDERED list and the input-order gather explicit (`gatherIn`); the seeded-defect shape —
                                gathering the values in the order of the incoming pairs — is `useInputOrder := false`
    Constant.eager_subs         (constant.py:71)        bookkeeping of `const_inputs`
    MarkovProduct.eager_subs    (sum_product.py ~1019)  renaming in `step_names`, then `Subs(result, lazy)`; HEAD's guard
                                (`seqClash`, `MP.eagerSubsHead`) declines when that would not be simultaneous
    Scatter.eager_subs          (terms.py ~1295)        renaming of destination names (same local model as MarkovProduct
                                with identity step names)
    Delta.eager_subs / Independent.eager_subs are stated over the shared `Term` (constructors `delta`, `independent`) in
    Props/C04/Classes2.lean; here only the term builders they return.

  Local semantics (MarkovProduct/Scatter/Constant are not constructors of the shared Term): a node is its value as a
  function of the assignment of its BOUND/own names; what is modelled is the name bookkeeping of `eager_subs`.
  Core-only.
-/
import FunsorVerif.Model.C04.NT
namespace FV.C04

/-! ### Gaussian: real substitution -/

abbrev Row := List Rat

/-- `-1/2 ‖x P − w‖²` with `P` as `D` rows of length `rank`; inputs are the real inputs with their sizes, in order. -/
structure RG where
  inputs : List (Name × Nat)
  rank : Nat
  w : List Rat
  P : List Row

/-- Component `c` of the vector–matrix product `x · rows` (the code's `_vm`). Entries outside a row read 0: rows are
    arrays of length `rank`, checked by `RG.wf`. -/
def vm : List Rat → List Row → Nat → Rat
  | [], _, _ => 0
  | _, [], _ => 0
  | x :: xs, r :: rs, c => x * r.getD c 0 + vm xs rs c

def sqNorm (rank : Nat) (f : Nat → Rat) : Rat := (List.range rank).foldl (fun acc c => acc + f c * f c) 0

def RG.dim (g : RG) : Nat := (g.inputs.map (·.2)).foldl (· + ·) 0

def RG.wf (g : RG) : Bool :=
  g.P.length == g.dim && g.w.length == g.rank && g.P.all (fun r => r.length == g.rank)

/-- The density at the flat point `x` (all real inputs in input order). -/
def RG.eval (g : RG) (x : List Rat) : Rat := -(1 / 2) * sqNorm g.rank (fun c => vm x g.P c - g.w.getD c 0)

/-- `OrderedDict(subs)[k]` (keys distinct). -/
def rlookup : List (Name × List Rat) → Name → Option (List Rat)
  | [], _ => none
  | (k, v) :: r, n => if k = n then some v else rlookup r n

/-- `prec_sqrt_a`, `prec_sqrt_b`: the row blocks of the kept / substituted inputs, both in INPUT order
    (`ops.cat([prec_sqrt[..., i, :] for k, i in slices if k in a/b], -2)`). -/
def splitAB : List (Name × Nat) → List Row → (Name → Bool) → List Row × List Row
  | [], _, _ => ([], [])
  | (k, n) :: r, rows, isB =>
    let ab := splitAB r (rows.drop n) isB
    if isB k then (ab.1, rows.take n ++ ab.2) else (rows.take n ++ ab.1, ab.2)

/-- HEAD: `value_b = ops.cat([values[k] for k, i in slices if k in b], -1)` — gathered in INPUT order. -/
def gatherIn : List (Name × Nat) → (Name → Option (List Rat)) → List Rat
  | [], _ => []
  | (k, _) :: r, vals => (match vals k with | some v => v | none => []) ++ gatherIn r vals

/-- The seeded defects: `ops.cat([values[k] for k in values], -1)` — gathered in the order of the incoming pairs. -/
def gatherSubs (subs : List (Name × List Rat)) : List Rat := subs.flatMap (·.2)

/-- The full point in input order: substituted inputs take their value, kept ones the next block of `xa`. -/
def mergePoint : List (Name × Nat) → (Name → Option (List Rat)) → List Rat → List Rat
  | [], _, _ => []
  | (k, n) :: r, vals, xa =>
    match vals k with
    | some v => v ++ mergePoint r vals xa
    | none => xa.take n ++ mergePoint r vals (xa.drop n)

/-- Partial substitution `G([xa xb]; w, P) = G(xa; w − xb Pb, Pa)`. -/
def RG.subsRealWith (useInputOrder : Bool) (g : RG) (subs : List (Name × List Rat)) : RG :=
  let isB := fun k => (rlookup subs k).isSome
  let ab := splitAB g.inputs g.P isB
  let vb := if useInputOrder then gatherIn g.inputs (rlookup subs) else gatherSubs subs
  { inputs := g.inputs.filter (fun p => !isB p.1)
    rank := g.rank
    w := (List.range g.rank).map (fun c => g.w.getD c 0 - vm vb ab.2 c)
    P := ab.1 }

/-- `_eager_subs_real`, partial branch, as on HEAD. -/
def RG.subsReal (g : RG) (subs : List (Name × List Rat)) : RG := g.subsRealWith true subs

/-- Full substitution branch: the value is placed block by block (`value[..., i] = values[k]`), i.e. in input order. -/
def RG.subsFull (g : RG) (subs : List (Name × List Rat)) : Rat := g.eval (mergePoint g.inputs (rlookup subs) [])

/-- The substitution is well-typed: distinct keys, all of them real inputs, each value of its input's size. -/
def RG.wfSubs (g : RG) (subs : List (Name × List Rat)) : Bool :=
  decide ((subs.map (·.1)).Nodup) &&
  subs.all (fun p => g.inputs.any (fun q => q.1 == p.1 && q.2 == p.2.length)) &&
  decide ((g.inputs.map (·.1)).Nodup)

/-! ### Constant -/

/-- `Constant.eager_subs`: for every const input, either keep it or replace it by the inputs of its value that
    are not already inputs of the Constant.  `valueIns k` = `subs[k].inputs` if `k in subs`. -/
def constSubs (consts argIns : Inputs) (valueIns : Name → Option Inputs) : Inputs :=
  consts.foldl (fun acc p => match valueIns p.1 with
    | some vi => odUpdate acc (vi.filter (fun q => decide (q.1 ∉ names (consts ++ argIns))))
    | none => odSet acc p.1 p.2) []

/-! ### MarkovProduct / Scatter: renaming of the visible names, then a lazy `Subs` of the rest -/

/-- A node whose value is a function of the assignment of its BOUND names; `stepNames` maps each bound name to the
    visible (fresh) name it reads.  Inputs that are not step names are read under their own name. -/
structure MP (V : Type) where
  stepNames : List (Name × Name)
  core : (Name → V) → V

def nlookup : List (Name × Name) → Name → Option Name
  | [], _ => none
  | (k, v) :: r, n => if k = n then some v else nlookup r n

def MP.sem {V : Type} (m : MP V) (env : Name → V) : V :=
  m.core (fun k => match nlookup m.stepNames k with
    | some v => env v
    | none => env k)

/-- A substitution value for such a node: a `Variable` (renaming) or anything else (its meaning in the caller's env). -/
inductive MVal (V : Type) where
  | var (x : Name)
  | val (f : (Name → V) → V)

def mlookup {V : Type} : List (Name × MVal V) → Name → Option (MVal V)
  | [], _ => none
  | (k, v) :: r, n => if k = n then some v else mlookup r n

/-- `rename = {k: v.name for k, v in subs if isinstance(v, Variable)}` applied to the VALUES of step_names. -/
def MP.rename {V : Type} (m : MP V) (σ : List (Name × MVal V)) : MP V :=
  { m with stepNames := m.stepNames.map (fun p => (p.1, match mlookup σ p.2 with
      | some (MVal.var x) => x
      | _ => p.2)) }

/-- The environment after `Subs(result, lazy)`: only the non-Variable pairs, each evaluated in `env`. -/
def lazyEnv {V : Type} (σ : List (Name × MVal V)) (env : Name → V) : Name → V :=
  fun n => match mlookup σ n with
    | some (MVal.val f) => f env
    | _ => env n

/-- `MarkovProduct.eager_subs` (all keys of σ are visible step names). -/
def MP.eagerSubs {V : Type} (m : MP V) (σ : List (Name × MVal V)) (env : Name → V) : V :=
  (m.rename σ).sem (lazyEnv σ env)

/-- The specification: every key replaced at once, values taken in `env`. -/
def simEnv {V : Type} (σ : List (Name × MVal V)) (env : Name → V) : Name → V :=
  fun n => match mlookup σ n with
    | some (MVal.var x) => env x
    | some (MVal.val f) => f env
    | none => env n

/-- The side condition under which renaming-then-Subs is simultaneous: no renaming target is a key of a
    non-Variable pair. -/
def noSeqClash {V : Type} (σ : List (Name × MVal V)) : Prop :=
  ∀ k x, mlookup σ k = some (MVal.var x) → ∀ f, mlookup σ x ≠ some (MVal.val f)

/-- HEAD's guard (49bc2e2 MarkovProduct, 1ad895c Scatter): `any(name in dict(lazy) for name in rename.values())`. -/
def seqClash {V : Type} (σ : List (Name × MVal V)) : Bool :=
  σ.any (fun p => match p.2 with
    | MVal.var x => (match mlookup σ x with
        | some (MVal.val _) => true
        | _ => false)
    | MVal.val _ => false)

def hasRename {V : Type} (σ : List (Name × MVal V)) : Bool :=
  σ.any (fun p => match p.2 with
    | MVal.var _ => true
    | MVal.val _ => false)

/-- `MarkovProduct.eager_subs` / `Scatter.eager_subs` as on HEAD: decline (`return None`: the substitution stays a
    lazy `Subs`) when there is nothing to rename or when renaming first would not be simultaneous. -/
def MP.eagerSubsHead {V : Type} (m : MP V) (σ : List (Name × MVal V)) (env : Name → V) : Option V :=
  if !hasRename σ || seqClash σ then none else some (m.eagerSubs σ env)

/-! ### Term builders returned by Independent.eager_subs / Delta.eager_subs -/

/-- `Independent.eager_subs`, non-Variable branch: `Subs(fn, ((diag_var, value[bint_var]),)).reduce(ops.add, bint_var)`. -/
def indepSubsTerm (fn : Term) (bv dv : Name) (size : Nat) (value : Term) : Term :=
  Term.reduce "add"
    (Term.subs fn [(dv, Term.binary ⟨"getitem", Sexp.list []⟩ value (Term.var bv ⟨DType.bint size, []⟩))])
    [(bv, ⟨DType.bint size, []⟩)]

/-- `Delta.eager_subs`, ground branch, one term: `is_equal.log() + log_density` as a value:
    the log-density where the value equals the point, `-inf` elsewhere. -/
def deltaHitMiss (value point logd : Sem) : Sem := if semEq value point then logd else Sem.scalar XR.ninf

/-- `ops.log` of the 0/1 indicator, then `+ log_density` (what the code literally computes). -/
def logIndicatorPlus (hit : Bool) (d : XR) : XR := XR.add (if hit then 0 else XR.ninf) d

/-! ### Delta.eager_subs as an executable model (delta.py:136) -/

/-- First binding of `n` in a term-level substitution. -/
def dget : List (Name × Term) → Name → Option Term
  | [], _ => none
  | (k, v) :: r, n => if k = n then some v else dget r n

/-- What `Delta.eager_subs` returns: `Delta(new_terms)`, the accumulated `log_densities` — each one
    `(value == point).all().log() + log_density`, kept as the triple (value, point, log_density) — or both, added. -/
structure DRes where
  kept : List (Name × Term × Term)
  dens : List (Term × Term × Term)

/-- `not any(d.dtype == "real" for side in (value, point) for d in side.inputs.values())`; `reals` = the real-valued
    names of the typing context. -/
def groundPair (reals : List Name) (value point : Term) : Bool :=
  (value.fv ++ point.fv).all (fun n => decide (n ∉ reals))

/-- The loop over `self.terms`.  `none` = the `solve(value, point)` branch (inverting a substitution with real
    inputs — C14's subject, outside this model; the code itself returns `None`/lazy when `solve` fails). -/
def deltaEagerSubs (reals : List Name) : List (Name × Term × Term) → List (Name × Term) → Option DRes
  | [], _ => some ⟨[], []⟩
  | (n, p, d) :: rest, σ =>
    match deltaEagerSubs reals rest σ with
    | none => none
    | some r =>
      match dget σ n with
      | none => some ⟨(n, p, d) :: r.kept, r.dens⟩
      | some (Term.var x _) => some ⟨(x, p, d) :: r.kept, r.dens⟩
      | some v => if groundPair reals v p then some ⟨r.kept, (v, p, d) :: r.dens⟩ else none

/-- One accumulated log-density at an environment. -/
def densAt (env : Env) (t : Term × Term × Term) : Option Sem :=
  match denote t.1 env, denote t.2.1 env, denote t.2.2 env with
  | some xv, some pv, some dv => some (deltaHitMiss xv pv dv)
  | _, _, _ => none

/-- `reduce(ops.add, log_densities)` (left fold; `none` on an empty list — the code never reduces an empty list). -/
def densSum (env : Env) : List (Term × Term × Term) → Option Sem
  | [] => none
  | [t] => densAt env t
  | t :: ts =>
    match densAt env t, densSum env ts with
    | some a, some b => Sem.zip? (binop "add") a b
    | _, _ => none

/-- The meaning of the result: `Delta(new_terms)` / `reduce(add, log_densities)` / their sum. -/
def DRes.meaning (r : DRes) (env : Env) : Option Sem :=
  match r.dens with
  | [] => denote (Term.delta r.kept) env
  | _ :: _ =>
    match r.kept with
    | [] => densSum env r.dens
    | _ :: _ =>
      match denote (Term.delta r.kept) env, densSum env r.dens with
      | some a, some b => Sem.zip? (binop "add") a b
      | _, _ => none

/-! ### Independent.eager_subs as an executable model (terms.py ~1877) -/

/-- `value` a `Variable`: rename `reals_var`; otherwise convert to a `Reduce`. -/
def indepEagerSubs (fn : Term) (bv dv : Name) (size : Nat) (value : Term) : Term :=
  match value with
  | Term.var x _ => Term.independent fn x bv dv size
  | v => indepSubsTerm fn bv dv size v

/-! ### MarkovProduct / Scatter: the decision `eager_subs` takes, on names only (executable) -/

/-- `some (new step names / destination names, keys of the remaining lazy Subs)` or `none` = `return None`. -/
def mpDecide (stepNames : List (Name × Name)) (σ : List (Name × Option Name)) : Option (List (Name × Name) × List Name) :=
  -- σ: key ↦ some x (a Variable x) | none (any other value)
  let lk := fun n => (σ.find? (fun p => p.1 == n)).map (·.2)
  let renames := σ.filterMap (fun p => p.2)
  let lazy := (σ.filter (fun p => p.2.isNone)).map (·.1)
  if renames.isEmpty || renames.any (fun x => lazy.contains x) then none
  else some (stepNames.map (fun p => (p.1, match lk p.2 with
      | some (some x) => x
      | _ => p.2)), lazy)

/-! ### Constant as an executable model (constant.py) -/

/-- `Constant(const_inputs, arg)`: constant with respect to `consts`; its value is `arg`'s. -/
structure ConstT where
  consts : Inputs
  arg : Term

def ConstT.meaning (c : ConstT) (env : Env) : Option Sem := denote c.arg env

/-- `Constant.eager_subs` (keys of the substitution are const inputs — the class's fresh names): the new const inputs
    by `constSubs`; the code returns `self.arg` itself when none is left (same meaning: `consts = []`). -/
def constEagerSubs (c : ConstT) (argIns : Inputs) (valueIns : Name → Option Inputs) : ConstT :=
  ⟨constSubs c.consts argIns valueIns, c.arg⟩

/-- The inputs of a Constant: const inputs first, then the argument's. -/
def ConstT.inputNames (c : ConstT) (argIns : Inputs) : List Name :=
  names c.consts ++ (names argIns).filter (fun n => decide (n ∉ names c.consts))

/-! ### Gaussian.eager_subs: which branch fires, on names only (gaussian.py ~605-653) -/

/-- The class of a substitution value as `Gaussian.eager_subs` sorts it. -/
inductive GKind where
  | var (x : Name)     -- Variable: renaming
  | int                -- Number / Tensor / Slice of integer dtype
  | real               -- Number / Tensor of dtype real
  | affine             -- `is_affine(v) and affine_inputs(v)`, not a Variable
  | lzy                -- anything else: stays a lazy Subs
  deriving DecidableEq, Repr

/-- One call of `eager_subs`: the branch taken, the keys it handles, and what is handed to `Subs(result, remaining)`
    (in the code's order int + real + affine + lazy), with the inputs of the intermediate Gaussian. -/
def gStage (inputs : List Name) (σ : List (Name × GKind)) :
    String × List Name × List Name × List (Name × GKind) :=
  let σ := σ.filter (fun p => inputs.contains p.1)
  let isVar := fun (p : Name × GKind) => match p.2 with | GKind.var _ => true | _ => false
  let vars := σ.filter isVar
  let ints := σ.filter (fun p => p.2 == GKind.int)
  let reals := σ.filter (fun p => p.2 == GKind.real)
  let affs := σ.filter (fun p => p.2 == GKind.affine)
  let lzs := σ.filter (fun p => p.2 == GKind.lzy)
  if σ.isEmpty then ("self", [], inputs, [])
  else if !vars.isEmpty then
    let ren := fun k => match (vars.find? (fun p => p.1 == k)).map (·.2) with
      | some (GKind.var x) => x
      | _ => k
    let inputs' := inputs.map ren
    if inputs'.eraseDups.length != inputs'.length then ("var-conflict", vars.map (·.1), inputs, [])
    else ("var", vars.map (·.1), inputs', ints ++ reals ++ affs ++ lzs)
  else if !ints.isEmpty then ("int", ints.map (·.1), inputs.filter (fun k => !(ints.map (·.1)).contains k), reals ++ affs ++ lzs)
  else if !reals.isEmpty then ("real", reals.map (·.1), inputs.filter (fun k => !(reals.map (·.1)).contains k), affs ++ lzs)
  else if !affs.isEmpty then ("affine", affs.map (·.1), inputs.filter (fun k => !(affs.map (·.1)).contains k), lzs)
  else ("lazy", lzs.map (·.1), inputs, [])

/-- The chain of calls `Subs(result, remaining)` triggers, until nothing eager is left. -/
def gDecide : Nat → List Name → List (Name × GKind) → List (String × List Name)
  | 0, _, _ => []
  | fuel + 1, inputs, σ =>
    let st := gStage inputs σ
    (st.1, st.2.1) :: (if st.2.2.2.isEmpty then [] else gDecide fuel st.2.2.1 st.2.2.2)

end FV.C04
