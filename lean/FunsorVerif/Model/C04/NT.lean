/-
  Model/C04/NT.lean — positional named tensors and `Tensor.eager_subs` (funsor/tensor.py:213-332),
  pass by pass, as the code reads on HEAD:

    0. restrict σ to the tensor's inputs                                   (`restrictTo`)
    1. diagonal / collision handling: `name_counts`, the `kept` fix-point loop, materialize
                                                                            (`clashes`, `keptLoop`, `matFixed`)
    2. renaming + slicing pass over an OrderedDict (`inputs[k] = d` keeps the position of an
       existing key — a collision silently *overwrites*)                    (`renamePass`)
    3. advanced indexing for numbers / index tensors                        (`advIndex`)

  A tensor is `inputs` (an OrderedDict name ↦ size, as an association list), an event `shape` and
  `data` as an *index function* of the positional index (one component per input, then the event
  index).  numpy's slicing / broadcasting fancy indexing are modelled by their index-level
  specification (composition of index functions); what is modelled step by step is the bookkeeping
  that decides correctness: which name ends up on which axis.

  `data` is a total function: its values outside the array's index domain are irrelevant
  (never queried on well-formed inputs); the `| _ => 0` arms below are that, not silent defaults for
  a raising code path.

  The pre-fix behaviour (pinned tree: only repeated `Variable` objects were materialized) is kept as
  `matPre` / `eagerSubsPre` for the witness theorem (what a revert looks like).

  Core-only.
-/
import FunsorVerif.Model.Term
namespace FV.C04

/-! ### OrderedDict -/

abbrev Inputs := List (Name × Nat)

def names (d : Inputs) : List Name := d.map (·.1)

/-- `d[k] = v` on an OrderedDict: an existing key keeps its position. -/
def odSet : Inputs → Name → Nat → Inputs
  | [], k, v => [(k, v)]
  | (k', v') :: rest, k, v => if k' = k then (k, v) :: rest else (k', v') :: odSet rest k v

/-- `d.update(kvs)`. -/
def odUpdate (d : Inputs) (kvs : Inputs) : Inputs := kvs.foldl (fun acc kv => odSet acc kv.1 kv.2) d

/-- `OrderedDict(kvs)`. -/
def odOf (kvs : Inputs) : Inputs := odUpdate [] kvs

/-! ### Tensors -/

structure NT (V : Type) where
  inputs : Inputs
  shape : List Nat
  data : List Nat → V

/-- Value at a named point: `env` assigns an index to every name; `ev` is the event index. -/
def NT.at {V : Type} (t : NT V) (env : Name → Nat) (ev : List Nat) : V :=
  t.data (t.inputs.map (fun p => env p.1) ++ ev)

/-! ### Substitution values -/

/-- What `Tensor.eager_subs` can receive for one input (after `to_funsor`). -/
inductive SVal where
  /-- `Number(n)` -/
  | num (n : Nat)
  /-- `Variable(x, Bint[size])` — `size` is the substituted input's size -/
  | var (x : Name) (size : Nat)
  /-- `Slice(x, start, stop, step)` -/
  | slice (x : Name) (start stop step : Nat)
  /-- an index tensor with arbitrary inputs (scalar integer output) -/
  | tensor (v : NT Nat)

abbrev Sigma := List (Name × SVal)

def SVal.isRen : SVal → Bool
  | .var _ _ => true
  | .slice _ _ _ _ => true
  | _ => false

/-- `v.name` for a `Variable` / `Slice`. -/
def SVal.target? : SVal → Option Name
  | .var x _ => some x
  | .slice x _ _ _ => some x
  | _ => none

/-- `v.inputs`. -/
def SVal.inputs : SVal → Inputs
  | .num _ => []
  | .var x d => [(x, d)]
  | .slice x a b s => [(x, sliceLen a b s)]
  | .tensor v => v.inputs

/-- The index a value denotes in an environment. -/
def SVal.eval (env : Name → Nat) : SVal → Nat
  | .num n => n
  | .var x _ => env x
  | .slice x a _ s => a + s * env x
  | .tensor v => v.at env []

/-- `Tensor.materialize(v)`: substitute an `arange` for the free variable. -/
def SVal.materialize : SVal → SVal
  | .var x d => .tensor ⟨[(x, d)], [], fun idx => match idx with | [i] => i | _ => 0⟩
  | .slice x a b s => .tensor ⟨[(x, sliceLen a b s)], [], fun idx => match idx with | [i] => a + s * i | _ => 0⟩
  | v => v

def sget : Sigma → Name → Option SVal
  | [], _ => none
  | (k, v) :: r, n => if k = n then some v else sget r n

def skeys (σ : Sigma) : List Name := σ.map (·.1)

/-- The simultaneous update of `env` by σ, every value taken in `env` itself. -/
def updEnv (env : Name → Nat) (σ : Sigma) : Name → Nat :=
  fun n => match sget σ n with
    | some v => v.eval env
    | none => env n

/-! ### Pass 0: restriction -/

def restrictTo (ins : Inputs) (σ : Sigma) : Sigma := σ.filter (fun p => decide (p.1 ∈ names ins))

/-! ### Pass 1: diagonal / collision handling -/

/-- `v.name for v in subs.values() if isinstance(v, (Variable, Slice))` (the domain of `name_counts`). -/
def targets (σ : Sigma) : List Name := σ.filterMap (fun p => p.2.target?)

/-- `kept` before the loop: inputs not substituted by a `Variable`/`Slice`. -/
def kept0 (ins : Inputs) (σ : Sigma) : List Name :=
  (names ins).filter (fun k => match sget σ k with
    | some v => !v.isRen
    | none => true)

/-- One evaluation of the `clash` list comprehension. -/
def clashes (σ : Sigma) (tg : List Name) (kept : List Name) : List Name :=
  σ.filterMap (fun p => match p.2.target? with
    | some x => if p.1 ∉ kept ∧ (tg.count x > 1 ∨ x ∈ kept) then some p.1 else none
    | none => none)

/-- The `while True:` loop; `fuel = len(subs)` suffices (`keptLoop_stable` in Props). -/
def keptLoop (σ : Sigma) (tg : List Name) : Nat → List Name → List Name
  | 0, kept => kept
  | fuel + 1, kept =>
    match clashes σ tg kept with
    | [] => kept
    | c :: cs => keptLoop σ tg fuel (kept ++ (c :: cs))

def keptOf (ins : Inputs) (σ : Sigma) : List Name := keptLoop σ (targets σ) σ.length (kept0 ins σ)

/-- HEAD: materialize the renamings of the inputs in `kept`. -/
def matFixed (ins : Inputs) (σ : Sigma) : Sigma :=
  let kept := keptOf ins σ
  σ.map (fun p => (p.1, if p.1 ∈ kept ∧ p.2.isRen then p.2.materialize else p.2))

/-- The pinned tree: `Counter(v for v in subs.values() if isinstance(v, Variable))`, materialize the
    variables occurring more than once; nothing else (no `kept`, slices never counted). -/
def matPre (_ins : Inputs) (σ : Sigma) : Sigma :=
  let vars := σ.filterMap (fun p => match p.2 with | .var x _ => some x | _ => none)
  σ.map (fun p => (p.1, match p.2 with
    | .var x d => if vars.count x > 1 then (SVal.var x d).materialize else .var x d
    | v => v))

/-! ### Pass 2: renaming + slicing -/

/-- New (key, size) of one input and the `slices[i]` entry (start, step) if any. -/
def renEntry (σ : Sigma) (p : Name × Nat) : (Name × Nat) × Option (Nat × Nat) :=
  match sget σ p.1 with
  | some (.var x _) => ((x, p.2), none)
  | some (.slice x a b s) => ((x, sliceLen a b s), some (a, s))
  | _ => (p, none)

/-- `data[tuple(slices)]` as an index map (positions beyond the slice list — the event index — pass through). -/
def applySl : List (Option (Nat × Nat)) → List Nat → List Nat
  | [], idx => idx
  | _ :: _, [] => []
  | o :: os, i :: is =>
    (match o with
      | some (a, s) => a + s * i
      | none => i) :: applySl os is

/-- The renaming loop: `inputs[k] = d` for each original axis in order (plain OrderedDict assignment),
    data positional.  `Tensor(data, inputs)` then reads the event shape off the leftover axes. -/
def renamePass {V : Type} (t : NT V) (σ : Sigma) : NT V :=
  let es := t.inputs.map (renEntry σ)
  let inputs' := odOf (es.map (·.1))
  let dims := es.map (·.1.2) ++ t.shape
  ⟨inputs', dims.drop inputs'.length, fun idx => t.data (applySl (es.map (·.2)) idx)⟩

/-- `del subs[k]` for every renamed input. -/
def dropRen (σ : Sigma) : Sigma := σ.filter (fun p => !p.2.isRen)

/-! ### Pass 3: advanced indexing -/

/-- "Compute result shapes": `inputs.update(subs[k].inputs)` / `inputs[k] = domain`. -/
def advStep (σ : Sigma) (acc : Inputs) (p : Name × Nat) : Inputs :=
  match sget σ p.1 with
  | some v => odUpdate acc v.inputs
  | none => odSet acc p.1 p.2

def advInputs (ins : Inputs) (σ : Sigma) : Inputs := ins.foldl (advStep σ) []

/-- The assignment name ↦ index encoded by a positional index of a tensor with the given input names. -/
def envOf : List Name → List Nat → Name → Nat
  | k :: ks, i :: is, n => if k = n then i else envOf ks is n
  | _, _, _ => 0

/-- `self.data[tuple(index)]` with broadcasting index arrays = pointwise composition. -/
def advIndex {V : Type} (t : NT V) (σ : Sigma) : NT V :=
  let ins := advInputs t.inputs σ
  ⟨ins, t.shape, fun idx =>
    let env := envOf (names ins) idx
    -- position of input k: the index array of its value (evaluated at the result's point) or its own arange
    t.data (t.inputs.map (fun p => updEnv env σ p.1) ++ idx.drop ins.length)⟩

/-! ### The whole method -/

/-- `eager_subs` once every `Variable`/`Slice` is gone (the recursive call `result.eager_subs(...)`). -/
def eagerSubsIdx {V : Type} (t : NT V) (σ0 : Sigma) : NT V :=
  let σ := restrictTo t.inputs σ0
  if σ.isEmpty then t else advIndex t σ

/-- `Tensor.eager_subs`, parametrised by the materialization policy of pass 1. -/
def eagerSubsWith {V : Type} (mat : Inputs → Sigma → Sigma) (t : NT V) (σ0 : Sigma) : NT V :=
  let σ := restrictTo t.inputs σ0
  if σ.isEmpty then t else
  let σ2 := mat t.inputs σ
  if σ2.any (fun p => p.2.isRen) then
    eagerSubsIdx (renamePass t σ2) (dropRen σ2)
  else
    advIndex t (σ2.map (fun p => (p.1, p.2.materialize)))

/-- `Tensor.eager_subs` as on HEAD. -/
def eagerSubs {V : Type} (t : NT V) (σ : Sigma) : NT V := eagerSubsWith matFixed t σ

/-- `Tensor.eager_subs` as on the pinned tree (before d536389 / 93ae599 / a7b9cd2). -/
def eagerSubsPre {V : Type} (t : NT V) (σ : Sigma) : NT V := eagerSubsWith matPre t σ

/-! ### Tabulation (driver side) -/

def NT.sizes {V : Type} (t : NT V) : List Nat := t.inputs.map (·.2)

def NT.table {V : Type} (t : NT V) : List V := (allIdx (t.sizes ++ t.shape)).map t.data

/-- A tensor from row-major flat data. -/
def NT.ofFlat (ins : Inputs) (shape : List Nat) (flat : Array XR) : NT XR :=
  ⟨ins, shape, fun idx => match ravel (ins.map (·.2) ++ shape) idx with
    | some k => flat.getD k XR.nan
    | none => XR.nan⟩

def NT.ofFlatNat (ins : Inputs) (flat : Array Nat) : NT Nat :=
  ⟨ins, [], fun idx => match ravel (ins.map (·.2)) idx with
    | some k => flat.getD k 0
    | none => 0⟩

end FV.C04
