/-
  Model/C04/Subst.lean — term-level substitution (funsor/terms.py `substitute`,
  `SubstituteInterpretation`, `Subs`, `eager_subs_subs`; funsor/cnf.py `normalize_fuse_subs`).

  The SPECIFICATION of substitution is `denote (Term.subs t σ)` in Model/Term.lean: every value of σ
  is evaluated in the caller's environment, then `t` is evaluated with all of them bound at once.

  This file models the IMPLEMENTATION side:

  * `substitute t σ` — the syntactic, capture-avoiding traversal of `terms.substitute`:
      - stop at sub-terms whose free names miss the support of σ (`stop`),
      - rebuild bottom-up,
      - binders shadow: below a node, the names it binds are removed from σ (`shield`),
      - at the node that *introduces* a name (`own` = funsor's `.fresh`: Variable, Tensor, Slice,
        Stack, Cat, Independent, Delta) the class's `eager_subs` is applied for exactly those keys;
        a `Variable` returns the value itself, every other class is represented by a `Subs` node
        restricted to its own names (whose per-class evaluation is the business of
        `tensor_subs_sem` and the per-class lemmas).
  * `boundFresh t σ` — the capture-avoidance side condition (decidable): no name bound or
    introduced by a visited node of `t` is free in a value of σ that travels below that node.
    funsor establishes it by alpha-mangling binders at construction (`__BOUND` suffix) and by the
    constructors' assertions (e.g. `Stack`: `name not in part.inputs`).
  * `interpretNode` — one step of `SubstituteInterpretation.interpret`: after a node is rebuilt from
    its substituted children under the base interpretation (result `e`, any term with the same
    meaning, with fresh names `eFresh`), which keys of σ are applied to it.  `new = false` is the pinned
    tree (every key fresh in the *rebuilt* node — which re-substitutes names introduced by substituted
    values), `new = true` the rule of 86bd40d (only names fresh in the ORIGINAL node … and in the rebuilt
    one, which drops the key when the base interpretation rewrote the node), `interpretHead` is HEAD
    (64e4215: the original node's own names that are inputs of the rebuilt node).
  * `fuseEager`, `fuseNormalize` — `f(a)(b) ↦ f(a∘b, b)`.

  Core-only.
-/
import FunsorVerif.Model.Term
namespace FV.C04

abbrev Subst := List (Name × Term)

def tkeys (σ : Subst) : List Name := σ.map (·.1)

/-- First binding of `n` (an OrderedDict built from distinct keys). -/
def tget : Subst → Name → Option Term
  | [], _ => none
  | (k, v) :: r, n => if k = n then some v else tget r n

/-- σ without the keys in `ns` (binders shadow). -/
def sremove (σ : Subst) (ns : List Name) : Subst := σ.filter (fun p => decide (p.1 ∉ ns))

/-- σ restricted to the keys in `ns` (`fresh_subs`). -/
def srestrict (σ : Subst) (ns : List Name) : Subst := σ.filter (fun p => decide (p.1 ∈ ns))

/-- `support.isdisjoint(x.inputs)`. -/
def stop (t : Term) (σ : Subst) : Bool := t.fv.all (fun n => decide (n ∉ tkeys σ))

/-- funsor's `.fresh`: the names a node itself introduces. -/
def own : Term → List Name
  | Term.var n _ => [n]
  | Term.tensor ins _ _ => ins.map (·.1)
  | Term.slice n _ _ _ _ => [n]
  | Term.stack n _ => [n]
  | Term.cat n _ _ _ => [n]
  | Term.independent _ rv _ _ _ => [rv]
  | Term.delta ts => ts.map (·.1)
  | _ => []

/-- Names that σ must not carry below this node: the names it binds plus (for nodes with children)
    the names it introduces itself. -/
def shield : Term → List Name
  | Term.reduce _ _ vars => vars.map (·.1)
  | Term.subs _ τ => τ.map (·.1)
  | Term.stack n _ => [n]
  | Term.cat n pn _ _ => [pn, n]
  | Term.lambda n _ _ => [n]
  | Term.independent _ rv bv dv _ => [bv, dv, rv]
  | Term.contraction _ _ vars _ => vars.map (·.1)
  | Term.delta ts => ts.map (·.1)
  | _ => []

/-- Apply the node's own `eager_subs` for the keys it introduces (kept as a `Subs` node). -/
def wrapOwn (t' : Term) (ns : List Name) (σ : Subst) : Term :=
  match srestrict σ ns with
  | [] => t'
  | p :: ps => Term.subs t' (p :: ps)

/-- `if stop(x): return x`. -/
def guardStop (t : Term) (σ : Subst) (r : Term) : Term := if stop t σ then t else r

mutual
  def substitute : Term → Subst → Term
    | Term.var n d, σ =>
      match tget σ n with
      | some v => v
      | none => Term.var n d
    | Term.num v d, _ => Term.num v d
    | Term.tensor ins d data, σ => wrapOwn (Term.tensor ins d data) (ins.map (·.1)) σ
    | Term.unary op a, σ => guardStop (Term.unary op a) σ (Term.unary op (substitute a σ))
    | Term.binary op l r, σ =>
      guardStop (Term.binary op l r) σ (Term.binary op (substitute l σ) (substitute r σ))
    | Term.reduce op a vars, σ =>
      guardStop (Term.reduce op a vars) σ
        (Term.reduce op (substitute a (sremove σ (vars.map (·.1)))) vars)
    | Term.subs a τ, σ =>
      guardStop (Term.subs a τ) σ
        (Term.subs (substitute a (sremove σ (τ.map (·.1)))) (substSubs τ σ))
    | Term.slice n a b c d, σ => wrapOwn (Term.slice n a b c d) [n] σ
    | Term.stack n parts, σ =>
      guardStop (Term.stack n parts) σ
        (wrapOwn (Term.stack n (substList parts (sremove σ [n]))) [n] σ)
    | Term.cat n pn sizes parts, σ =>
      guardStop (Term.cat n pn sizes parts) σ
        (wrapOwn (Term.cat n pn sizes (substList parts (sremove σ [pn, n]))) [n] σ)
    | Term.lambda n size body, σ =>
      guardStop (Term.lambda n size body) σ (Term.lambda n size (substitute body (sremove σ [n])))
    | Term.independent fn rv bv dv size, σ =>
      guardStop (Term.independent fn rv bv dv size) σ
        (wrapOwn (Term.independent (substitute fn (sremove σ [bv, dv, rv])) rv bv dv size) [rv] σ)
    | Term.align a ns, σ => guardStop (Term.align a ns) σ (Term.align (substitute a σ) ns)
    | Term.contraction r b vars ts, σ =>
      guardStop (Term.contraction r b vars ts) σ
        (Term.contraction r b vars (substList ts (sremove σ (vars.map (·.1)))))
    | Term.finitary op args, σ => Term.finitary op (substList args σ)
    | Term.delta ts, σ =>
      guardStop (Term.delta ts) σ
        (wrapOwn (Term.delta (substDelta ts (sremove σ (ts.map (·.1))))) (ts.map (·.1)) σ)
  def substList : List Term → Subst → List Term
    | [], _ => []
    | t :: ts, σ => substitute t σ :: substList ts σ
  def substSubs : List (Name × Term) → Subst → List (Name × Term)
    | [], _ => []
    | (n, t) :: ts, σ => (n, substitute t σ) :: substSubs ts σ
  def substDelta : List (Name × Term × Term) → Subst → List (Name × Term × Term)
    | [], _ => []
    | (n, p, d) :: ts, σ => (n, substitute p σ, substitute d σ) :: substDelta ts σ
end

/-- No name in `ns` is free in a value of σ. -/
def valuesAvoid (σ : Subst) (ns : List Name) : Bool := (fvSubs σ).all (fun x => decide (x ∉ ns))

mutual
  /-- Capture avoidance along the traversal of `substitute t σ`. -/
  def boundFresh : Term → Subst → Bool
    | Term.var _ _, _ => true
    | Term.num _ _, _ => true
    | Term.tensor _ _ _, _ => true
    | Term.unary op a, σ => stop (Term.unary op a) σ || boundFresh a σ
    | Term.binary op l r, σ => stop (Term.binary op l r) σ || (boundFresh l σ && boundFresh r σ)
    | Term.reduce op a vars, σ =>
      stop (Term.reduce op a vars) σ ||
        (valuesAvoid (sremove σ (vars.map (·.1))) (vars.map (·.1)) && boundFresh a (sremove σ (vars.map (·.1))))
    | Term.subs a τ, σ =>
      stop (Term.subs a τ) σ ||
        (valuesAvoid (sremove σ (τ.map (·.1))) (τ.map (·.1)) && boundFresh a (sremove σ (τ.map (·.1)))
          && boundFreshSubs τ σ)
    | Term.slice _ _ _ _ _, _ => true
    | Term.stack n parts, σ =>
      stop (Term.stack n parts) σ ||
        (valuesAvoid (sremove σ [n]) [n] && boundFreshList parts (sremove σ [n]))
    | Term.cat n pn sizes parts, σ =>
      stop (Term.cat n pn sizes parts) σ ||
        (valuesAvoid (sremove σ [pn, n]) [pn, n] && boundFreshList parts (sremove σ [pn, n]))
    | Term.lambda n size body, σ =>
      stop (Term.lambda n size body) σ || (valuesAvoid (sremove σ [n]) [n] && boundFresh body (sremove σ [n]))
    | Term.independent fn rv bv dv size, σ =>
      stop (Term.independent fn rv bv dv size) σ ||
        (valuesAvoid (sremove σ [bv, dv, rv]) [bv, dv, rv] && boundFresh fn (sremove σ [bv, dv, rv]))
    | Term.align a ns, σ => stop (Term.align a ns) σ || boundFresh a σ
    | Term.contraction r b vars ts, σ =>
      stop (Term.contraction r b vars ts) σ ||
        (valuesAvoid (sremove σ (vars.map (·.1))) (vars.map (·.1)) && boundFreshList ts (sremove σ (vars.map (·.1))))
    | Term.finitary _ _, _ => true
    | Term.delta ts, σ =>
      stop (Term.delta ts) σ ||
        (valuesAvoid (sremove σ (ts.map (·.1))) (ts.map (·.1)) && boundFreshDelta ts (sremove σ (ts.map (·.1))))
  def boundFreshList : List Term → Subst → Bool
    | [], _ => true
    | t :: ts, σ => boundFresh t σ && boundFreshList ts σ
  def boundFreshSubs : List (Name × Term) → Subst → Bool
    | [], _ => true
    | (_, t) :: ts, σ => boundFresh t σ && boundFreshSubs ts σ
  def boundFreshDelta : List (Name × Term × Term) → Subst → Bool
    | [], _ => true
    | (_, p, d) :: ts, σ => boundFresh p σ && boundFresh d σ && boundFreshDelta ts σ
end

/-! ### `Funsor.__call__` / `SubsMeta`: keys that are not inputs are dropped -/

def dropForeign (t : Term) (σ : Subst) : Subst := σ.filter (fun p => decide (p.1 ∈ t.fv))

/-! ### SubstituteInterpretation.interpret: which keys are applied to a rebuilt node -/

/-- `fresh_subs`: HEAD (`new = true`): `k in expr.fresh and k in self.fresh`; pinned: `k in expr.fresh`. -/
def freshSubs (new : Bool) (origOwn eFresh : List Name) (σ : Subst) : Subst :=
  σ.filter (fun p => decide (p.1 ∈ eFresh) && (!new || decide (p.1 ∈ origOwn)))

def interpretNode (new : Bool) (origOwn eFresh : List Name) (e : Term) (σ : Subst) : Term :=
  match freshSubs new origOwn eFresh σ with
  | [] => e
  | p :: ps => Term.subs e (p :: ps)

/-- HEAD (after 64e4215): the node's own keys are `k in self.fresh and k in expr.inputs`; if all of them are fresh
    in the rebuilt node its `eager_subs` is called, otherwise (the base interpretation REWROTE the node, e.g.
    `eager_cat` turns a one-part Cat into `parts[0](part_name=name)`) the result is `Subs(expr, fresh_subs)`.
    Both branches mean "substitute these keys into `e`", i.e. a `Subs` node in the model.  The 86bd40d rule
    (`new = true` above) silently DROPPED an own key that is an ordinary input of the rewritten node. -/
def freshSubsHead (origOwn : List Name) (e : Term) (σ : Subst) : Subst :=
  σ.filter (fun p => decide (p.1 ∈ origOwn) && decide (p.1 ∈ e.fv))

def interpretHead (origOwn : List Name) (e : Term) (σ : Subst) : Term :=
  match freshSubsHead origOwn e σ with
  | [] => e
  | p :: ps => Term.subs e (p :: ps)

/-! ### Fusion of nested substitutions -/

/-- funsor/terms.py `eager_subs_subs`: `Subs(arg.arg, ((k, Subs(v, subs)) for k, v in arg.subs) + subs)`. -/
def fuseEager (a b : Subst) : Subst := a.map (fun p => (p.1, Term.subs p.2 b)) ++ b

/-- funsor/cnf.py `normalize_fuse_subs`: `subs + ((k, Subs(v, subs)) for k, v in arg.subs)`. -/
def fuseNormalize (a b : Subst) : Subst := b ++ a.map (fun p => (p.1, Term.subs p.2 b))

end FV.C04
