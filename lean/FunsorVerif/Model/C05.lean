/-
  Model/C05.lean — bound variables (property C05).

  On top of the shared term language (`Model/Term.lean`: `Term`, `denote`, `Term.fv`):

  * `bound`, `external`, `allBound`  — funsor's `.bound` of a node, the names a node introduces from
    outside the binder's scope, and all binders of a term;
  * `renameRoot`                     — rename a root binder the way every `_alpha_convert` does it:
    the body is substituted `old ↦ Variable(new)` (funsor/terms.py:335-342 and the per-class overrides);
  * `pushUnder`                      — one step of `terms.substitute` through a binder node;
  * `hasMarker`, `gensym`, `alphaMangle`, `reflectT` — `interpreter.gensym` (148-156),
    `terms._alpha_mangle` (105-120) and `reflect` (154-158) as a state monad over the counter **and the
    cons cache** (so that structurally equal nodes are built once and share one mangled binder);
  * `rename`                         — syntactic renaming of a free name (what `substitute` with a
    `Variable` value computes on reflected syntax).

  Core-only.
-/
import FunsorVerif.Model.Term
namespace FV.C05
open FV

/-! ### Binders of a node -/

/-- funsor's `.bound` of the root node. -/
def bound : Term → List Name
  | Term.reduce _ _ vars => vars.map (·.1)
  | Term.subs _ σ => σ.map (·.1)
  | Term.cat _ pn _ _ => [pn]
  | Term.lambda n _ _ => [n]
  | Term.independent _ _ bv dv _ => [bv, dv]
  | Term.contraction _ _ vars _ => vars.map (·.1)
  | _ => []

/-- Names the root node takes from *outside* the scope of its binders: funsor's `.fresh` names of
    binder classes (`Cat.name`, `Independent.reals_var`) and the free names of substituted values. -/
def external : Term → List Name
  | Term.subs _ σ => fvSubs σ
  | Term.cat n _ _ _ => [n]
  | Term.independent _ rv _ _ _ => [rv]
  | _ => []

mutual
  /-- Every name bound anywhere in the term. -/
  def allBound : Term → List Name
    | Term.var _ _ => []
    | Term.num _ _ => []
    | Term.tensor _ _ _ => []
    | Term.unary _ a => allBound a
    | Term.binary _ l r => allBound l ++ allBound r
    | Term.reduce _ a vars => vars.map (·.1) ++ allBound a
    | Term.subs a σ => σ.map (·.1) ++ (allBound a ++ allBoundSubs σ)
    | Term.slice _ _ _ _ _ => []
    | Term.stack _ ps => allBoundList ps
    | Term.cat _ pn _ ps => pn :: allBoundList ps
    | Term.lambda n _ b => n :: allBound b
    | Term.independent fn _ bv dv _ => bv :: dv :: allBound fn
    | Term.align a _ => allBound a
    | Term.contraction _ _ vars ts => vars.map (·.1) ++ allBoundList ts
    | Term.finitary _ args => allBoundList args
    | Term.delta ts => allBoundDelta ts
  def allBoundList : List Term → List Name
    | [] => []
    | t :: ts => allBound t ++ allBoundList ts
  def allBoundSubs : List (Name × Term) → List Name
    | [] => []
    | (_, t) :: ts => allBound t ++ allBoundSubs ts
  def allBoundDelta : List (Name × Term × Term) → List Name
    | [] => []
    | (_, p, d) :: ts => allBound p ++ (allBound d ++ allBoundDelta ts)
end

/-! ### Renaming a root binder (what `_alpha_convert` does) -/

/-- `substitute(body, {old: Variable(new, dom)})` as a term: its specification is the `Subs` node. -/
def renBody (old new : Name) (dom : Dom) (body : Term) : Term :=
  Term.subs body [(old, Term.var new dom)]

def renVars (old new : Name) (vars : List (Name × Dom)) : List (Name × Dom) :=
  vars.map fun (n, d) => (if n = old then new else n, d)

def domOf (old : Name) (vars : List (Name × Dom)) : Dom :=
  ((vars.find? (·.1 = old)).map (·.2)).getD ⟨DType.bint 1, []⟩

/-- Rename the root binder `old` to `new`, following the class's `_alpha_convert`
    (terms.py: Reduce 1137, Subs 944, Cat 1696, Lambda 1785, Independent 1861; cnf.py 216).
    `size` is the size of the renamed bounded-integer variable (ignored where the node carries it). -/
def renameRoot (old new : Name) : Term → Term
  | Term.reduce op a vars =>
    Term.reduce op (renBody old new (domOf old vars) a) (renVars old new vars)
  | Term.lambda n size b =>
    if n = old then Term.lambda new size (renBody old new ⟨DType.bint size, []⟩ b) else Term.lambda n size b
  | Term.cat n pn sizes ps =>
    if pn = old then
      -- each part is renamed with its own size of `part_name`
      Term.cat n new sizes ((ps.zip sizes).map fun (p, s) => renBody old new ⟨DType.bint s, []⟩ p)
    else Term.cat n pn sizes ps
  | Term.contraction r b vars ts =>
    Term.contraction r b (renVars old new vars) (ts.map (renBody old new (domOf old vars)))
  | Term.subs a σ =>
    -- only the argument is renamed; the values live outside the binder's scope
    Term.subs (renBody old new ⟨DType.bint 1, []⟩ a) (σ.map fun (k, v) => (if k = old then new else k, v))
  | Term.independent fn rv bv dv size =>
    if bv = old then Term.independent (renBody old new ⟨DType.bint size, []⟩ fn) rv new dv size
    else Term.independent fn rv bv dv size
  | t => t

/-! ### One step of `substitute` through a binder node

`terms.substitute` rebuilds every node with substituted children and never filters the
substitution at a binder: it relies on the binder names being fresh (terms.py:80-103). -/

def pushUnder (σ : List (Name × Term)) : Term → Term
  | Term.reduce op a vars => Term.reduce op (Term.subs a σ) vars
  | Term.lambda n size b => Term.lambda n size (Term.subs b σ)
  | Term.contraction r b vars ts => Term.contraction r b vars (ts.map (Term.subs · σ))
  | Term.subs a τ => Term.subs (Term.subs a σ) (τ.map fun (k, v) => (k, Term.subs v σ))
  | t => Term.subs t σ

/-! ### Fresh names: `gensym`, the `__BOUND` marker -/

def markerChars : List Char := "__BOUND".toList

def isPrefixL : List Char → List Char → Bool
  | [], _ => true
  | _ :: _, [] => false
  | p :: ps, c :: cs => p == c && isPrefixL ps cs

def hasInfixL (pat : List Char) : List Char → Bool
  | [] => pat.isEmpty
  | c :: cs => isPrefixL pat (c :: cs) || hasInfixL pat cs

/-- `"__BOUND" in name` -/
def hasMarker (n : Name) : Bool := hasInfixL markerChars n.toList

/-- `interpreter.gensym(name + "__BOUND")` with the counter already incremented to `k`. -/
def mangledName (base : Name) (k : Nat) : Name := base ++ "__BOUND" ++ "_" ++ toString k

/-- The counter stamp of a mangled name: the digits after the last `_`. -/
def stampOf (n : Name) : Option Nat :=
  (String.ofList ((n.toList.reverse.takeWhile (· != '_')).reverse)).toNat?

/-! ### Syntactic renaming of a free name -/

def renName (x y n : Name) : Name := if n = x then y else n

mutual
  /-- Rename the free occurrences of `x` to `y`.  Like `substitute`, it does not look inside a
      sub-term that does not mention `x` freely (in particular one that re-binds `x`). -/
  def rename (x y : Name) : Term → Term
    | Term.var n d => Term.var (renName x y n) d
    | Term.num v d => Term.num v d
    | Term.tensor ins d data => Term.tensor (ins.map fun (n, s) => (renName x y n, s)) d data
    | Term.unary op a => Term.unary op (rename x y a)
    | Term.binary op l r => Term.binary op (rename x y l) (rename x y r)
    | Term.reduce op a vars =>
      if (vars.map (·.1)).contains x then Term.reduce op a vars else Term.reduce op (rename x y a) vars
    | Term.subs a σ =>
      Term.subs (if (σ.map (·.1)).contains x then a else rename x y a) (renameSubs x y σ)
    | Term.slice n a b c d => Term.slice (renName x y n) a b c d
    | Term.stack n ps => Term.stack (renName x y n) (renameList x y ps)
    | Term.cat n pn sizes ps =>
      Term.cat (renName x y n) pn sizes (if pn = x then ps else renameList x y ps)
    | Term.lambda n size b => if n = x then Term.lambda n size b else Term.lambda n size (rename x y b)
    | Term.independent fn rv bv dv size =>
      Term.independent (if bv = x ∨ dv = x then fn else rename x y fn) (renName x y rv) bv dv size
    | Term.align a names => Term.align (rename x y a) (names.map (renName x y))
    | Term.contraction r b vars ts =>
      if (vars.map (·.1)).contains x then Term.contraction r b vars ts
      else Term.contraction r b vars (renameList x y ts)
    | Term.finitary op args => Term.finitary op (renameList x y args)
    | Term.delta ts => Term.delta (renameDelta x y ts)
  def renameList (x y : Name) : List Term → List Term
    | [] => []
    | t :: ts => rename x y t :: renameList x y ts
  def renameSubs (x y : Name) : List (Name × Term) → List (Name × Term)
    | [] => []
    | (k, t) :: ts => (k, rename x y t) :: renameSubs x y ts
  def renameDelta (x y : Name) : List (Name × Term × Term) → List (Name × Term × Term)
    | [] => []
    | (n, p, d) :: ts => (renName x y n, rename x y p, rename x y d) :: renameDelta x y ts
end

/-! ### `_alpha_mangle` and `reflect`

State: the gensym counter.  `alphaMangle` renames exactly the root binders lacking the marker, one
`gensym` per distinct bound *name* (a dict comprehension over `expr.bound`), in the body only. -/

/-- Rename root binder `old ↦ new` syntactically (the effect of `_alpha_convert` on reflected syntax). -/
def renameBinder (old new : Name) : Term → Term
  | Term.reduce op a vars => Term.reduce op (rename old new a) (renVars old new vars)
  | Term.lambda n size b => if n = old then Term.lambda new size (rename old new b) else Term.lambda n size b
  | Term.cat n pn sizes ps =>
    if pn = old then Term.cat n new sizes (renameList old new ps) else Term.cat n pn sizes ps
  | Term.contraction r b vars ts => Term.contraction r b (renVars old new vars) (renameList old new ts)
  | Term.subs a σ => Term.subs (rename old new a) (σ.map fun (k, v) => (renName old new k, v))
  | Term.independent fn rv bv dv size =>
    Term.independent (rename old new fn) rv (renName old new bv) (renName old new dv) size
  | t => t

def dedup : List Name → List Name
  | [] => []
  | n :: ns => if ns.contains n then dedup ns else n :: dedup ns

/-- The binders `_alpha_mangle` renames: those lacking the marker (each name once). -/
def toMangle (t : Term) : List Name := dedup ((bound t).filter (fun n => !hasMarker n))

/-- `_alpha_mangle`: returns the renamed node and the new counter. -/
def alphaMangle (t : Term) (counter : Nat) : Term × Nat :=
  (toMangle t).foldl (fun (acc : Term × Nat) old =>
    (renameBinder old (mangledName old (acc.2 + 1)) acc.1, acc.2 + 1)) (t, counter)

/-- The alpha-substitution `_alpha_mangle` computes: (old, new) pairs, counter threaded. -/
def alphaSubs (names : List Name) (counter : Nat) : List (Name × Name) × Nat :=
  names.foldl (fun (acc : List (Name × Name) × Nat) old =>
    (acc.1 ++ [(old, mangledName old (acc.2 + 1))], acc.2 + 1)) ([], counter)

end FV.C05
